(* Lemmas about Model/FieldMap.v: every mapping stays inside the range of its data element for
   every input, is exact to the resolution inside the range, and saturates at the outOfRange code
   beyond it (no wrap); reconstruction of the generation time from generationDeltaTime. *)
From FlexVerif Require Import Base.Prelude Model.FieldMap.
From Coq Require Import QArith Qabs Qround ZifyBool Lqa.
Ltac Zify.zify_post_hook ::= Z.to_euclidean_division_equations.
Open Scope Z_scope.

(* ---- truncation ------------------------------------------------------------------------------ *)

Lemma quot_bounds m b : 0 < b ->
  (0 <= m -> b * (m ÷ b) <= m < b * (m ÷ b) + b) /\ (m <= 0 -> b * (m ÷ b) - b < m <= b * (m ÷ b)).
Proof.
  intros Hb. pose proof (Z.quot_rem' m b) as E. split; intros Hm.
  - pose proof (Z.rem_bound_pos_pos m b Hb Hm). lia.
  - pose proof (Z.rem_bound_pos_neg m b Hb Hm). lia.
Qed.

Lemma scale_num a b k : scale (a # b) k = (a * k) ÷ Zpos b.
Proof. unfold scale, qtrunc. cbn. rewrite Pos.mul_1_r. reflexivity. Qed.

(* n = scale x k  lies within one unit of x * k, on the side of zero *)
Lemma scale_bounds a b k :
  let n := scale (a # b) k in
  (0 <= a * k -> Zpos b * n <= a * k < Zpos b * n + Zpos b) /\
  (a * k <= 0 -> Zpos b * n - Zpos b < a * k <= Zpos b * n).
Proof. intros n. unfold n. rewrite scale_num. apply quot_bounds. lia. Qed.

Lemma mul_pos_cancel_lt b x y : 0 < b -> b * x < b * y -> x < y.
Proof. intros Hb H. apply (Z.mul_lt_mono_pos_l b); assumption. Qed.

Lemma mul_pos_cancel_le b x y : 0 < b -> b * x <= b * y -> x <= y.
Proof. intros Hb H. apply (Z.mul_le_mono_pos_l _ _ b); assumption. Qed.

(* lower / upper bounds of scale from bounds of the input, in integer form:
   x = a # b;  lo * b <= a * k  ->  lo <= scale;   a * k <= hi * b  ->  scale <= hi *)
Lemma scale_ge a b k lo : lo * Zpos b <= a * k -> lo <= scale (a # b) k.
Proof.
  intros H. destruct (scale_bounds a b k) as [Hp Hn]. set (n := scale (a # b) k) in *.
  destruct (Z_le_gt_dec 0 (a * k)) as [L|L].
  - specialize (Hp L). apply Z.lt_succ_r. apply (mul_pos_cancel_lt (Zpos b)); lia.
  - assert (L' : a * k <= 0) by lia. specialize (Hn L'). apply (mul_pos_cancel_le (Zpos b)); lia.
Qed.

Lemma scale_le a b k hi : a * k <= hi * Zpos b -> scale (a # b) k <= hi.
Proof.
  intros H. destruct (scale_bounds a b k) as [Hp Hn]. set (n := scale (a # b) k) in *.
  destruct (Z_le_gt_dec 0 (a * k)) as [L|L].
  - specialize (Hp L). apply (mul_pos_cancel_le (Zpos b)); lia.
  - assert (L' : a * k <= 0) by lia. specialize (Hn L').
    assert (Zpos b * (n - 1) < Zpos b * hi) by lia.
    apply mul_pos_cancel_lt in H0; lia.
Qed.

Lemma scale_lt a b k hi : a * k < hi * Zpos b -> 0 <= a * k -> scale (a # b) k < hi.
Proof.
  intros H L. destruct (scale_bounds a b k) as [Hp _]. specialize (Hp L).
  apply (mul_pos_cancel_lt (Zpos b)); lia.
Qed.

Lemma scale_nonneg a b k : 0 <= a * k -> 0 <= scale (a # b) k.
Proof. intros H. apply scale_ge. lia. Qed.

(* "to the resolution of the data element": the code is within one unit of x * k *)
Definition approx (x : Q) (k n : Z) : Prop := (Qabs (x * inject_Z k - inject_Z n) < 1)%Q.

Lemma Qabs_lt_iff (q : Q) : (Qabs q < 1 <-> -(1) < q /\ q < 1)%Q.
Proof.
  split.
  - intros H. split.
    + apply Qlt_le_trans with (y := (- Qabs q)%Q).
      * apply Qopp_lt_compat in H. exact H.
      * rewrite <- (Qopp_involutive q) at 2. apply Qopp_le_compat. rewrite <- Qabs_opp. apply Qle_Qabs.
    + apply Qle_lt_trans with (y := Qabs q); [apply Qle_Qabs|exact H].
  - intros [H1 H2]. apply Qabs_case; intros _; [exact H2|].
    apply Qopp_lt_compat in H1. rewrite Qopp_involutive in H1. exact H1.
Qed.

Lemma scale_approx x k : approx x k (scale x k).
Proof.
  destruct x as [a b]. unfold approx. apply Qabs_lt_iff.
  destruct (scale_bounds a b k) as [Hp Hn]. set (n := scale (a # b) k) in *.
  unfold Qlt, Qminus, Qplus, Qmult, Qopp, inject_Z. cbn. rewrite !Pos.mul_1_r.
  destruct (Z_le_gt_dec 0 (a * k)) as [L|L].
  - specialize (Hp L). split; nia.
  - assert (L' : a * k <= 0) by lia. specialize (Hn L'). split; nia.
Qed.

Lemma scale_mono a b c d k : 0 <= k -> (a # b <= c # d)%Q -> scale (a # b) k <= scale (c # d) k.
Proof.
  intros Hk H. unfold Qle in H. cbn in H.
  destruct (scale_bounds a b k) as [Hp1 Hn1]. destruct (scale_bounds c d k) as [Hp2 Hn2].
  set (n := scale (a # b) k) in *. set (m := scale (c # d) k) in *.
  assert (Hc : a * k * Zpos d <= c * k * Zpos b) by nia.
  destruct (Z_le_gt_dec 0 (a * k)) as [L1|L1]; destruct (Z_le_gt_dec 0 (c * k)) as [L2|L2].
  - specialize (Hp1 L1). specialize (Hp2 L2).
    assert (Zpos b * Zpos d * n < Zpos b * Zpos d * (m + 1)) by nia.
    apply mul_pos_cancel_lt in H0; lia.
  - exfalso. assert (c * k * Zpos b < 0) by nia. nia.
  - assert (L1' : a * k <= 0) by lia. specialize (Hn1 L1'). specialize (Hp2 L2).
    assert (n < 1). { apply (mul_pos_cancel_lt (Zpos b)); lia. }
    assert (0 <= m). { apply Z.lt_succ_r. apply (mul_pos_cancel_lt (Zpos d)); lia. }
    lia.
  - assert (L1' : a * k <= 0) by lia. assert (L2' : c * k <= 0) by lia.
    specialize (Hn1 L1'). specialize (Hn2 L2').
    assert (Zpos b * Zpos d * (n - 1) < Zpos b * Zpos d * m) by nia.
    apply mul_pos_cancel_lt in H0; lia.
Qed.

(* ---- latitude / longitude --------------------------------------------------------------------- *)

Lemma lat_code_in_range x : (-(90) <= x <= 90)%Q -> LAT_MIN <= lat_code x <= LAT_MAX /\ approx x 10000000 (lat_code x).
Proof.
  intros [H1 H2]. split; [|apply scale_approx]. destruct x as [a b]. unfold Qle in *. cbn in H1, H2.
  unfold lat_code, LAT_MIN, LAT_MAX. split; [apply scale_ge|apply scale_le]; lia.
Qed.

Lemma lon_code_in_range x : (-(180) <= x <= 180)%Q -> LON_MIN <= lon_code x <= LON_MAX /\ approx x 10000000 (lon_code x).
Proof.
  intros [H1 H2]. split; [|apply scale_approx]. destruct x as [a b]. unfold Qle in *. cbn in H1, H2.
  unfold lon_code, LON_MIN, LON_MAX. split; [apply scale_ge|apply scale_le]; lia.
Qed.

(* ---- altitude ------------------------------------------------------------------------------------ *)

Lemma alt_code_in_range x : ALT_NEG_OOR <= alt_code x <= ALT_POS_OOR.
Proof. unfold alt_code, ALT_NEG_OOR, ALT_POS_OOR. destruct (scale x 100 <=? -100000) eqn:E1; [lia|].
  destruct (800000 <=? scale x 100) eqn:E2; lia. Qed.

Lemma alt_code_exact x : (-(1000) < x)%Q -> (x < 8000)%Q ->
  alt_code x = scale x 100 /\ ALT_NEG_OOR < alt_code x < ALT_POS_OOR /\ approx x 100 (alt_code x).
Proof.
  intros H1 H2. destruct x as [a b]. unfold Qlt in *. cbn in H1, H2.
  assert (Hlo : -100000 < scale (a # b) 100).
  { destruct (scale_bounds a b 100) as [Hp Hn]. set (n := scale (a # b) 100) in *.
    destruct (Z_le_gt_dec 0 (a * 100)) as [L|L].
    - specialize (Hp L). assert (0 <= n) by (apply scale_nonneg; exact L). lia.
    - assert (L' : a * 100 <= 0) by lia. specialize (Hn L').
      assert (Zpos b * (-100000) < Zpos b * n) by lia. apply mul_pos_cancel_lt in H; lia. }
  assert (Hhi : scale (a # b) 100 < 800000).
  { destruct (Z_le_gt_dec 0 (a * 100)) as [L|L].
    - apply scale_lt; lia.
    - assert (scale (a # b) 100 <= 0) by (apply scale_le; lia). lia. }
  assert (E : alt_code (a # b) = scale (a # b) 100).
  { unfold alt_code, ALT_NEG_OOR, ALT_POS_OOR.
    destruct (scale (a # b) 100 <=? -100000) eqn:E1; [lia|].
    destruct (800000 <=? scale (a # b) 100) eqn:E2; [lia|reflexivity]. }
  rewrite E. unfold ALT_NEG_OOR, ALT_POS_OOR. repeat split; try lia. apply scale_approx.
Qed.

Lemma alt_code_oor_high x : (8000 <= x)%Q -> alt_code x = ALT_POS_OOR.
Proof.
  intros H. destruct x as [a b]. unfold Qle in H. cbn in H.
  assert (800000 <= scale (a # b) 100) by (apply scale_ge; lia).
  unfold alt_code, ALT_NEG_OOR, ALT_POS_OOR. destruct (scale (a # b) 100 <=? -100000) eqn:E1; [lia|].
  destruct (800000 <=? scale (a # b) 100) eqn:E2; [reflexivity|lia].
Qed.

Lemma alt_code_oor_low x : (x <= -(1000))%Q -> alt_code x = ALT_NEG_OOR.
Proof.
  intros H. destruct x as [a b]. unfold Qle in H. cbn in H.
  assert (scale (a # b) 100 <= -100000) by (apply scale_le; lia).
  unfold alt_code, ALT_NEG_OOR. destruct (scale (a # b) 100 <=? -100000) eqn:E1; [reflexivity|lia].
Qed.

(* ---- speed ------------------------------------------------------------------------------------------ *)

Lemma speed_code_in_range x : (0 <= x)%Q -> 0 <= speed_code x <= SPEED_OOR.
Proof.
  intros H. destruct x as [a b]. unfold Qle in H. cbn in H.
  assert (0 <= scale (a # b) 100) by (apply scale_nonneg; lia).
  unfold speed_code, SPEED_OOR. destruct (16381 <? scale (a # b) 100) eqn:E; lia.
Qed.

Lemma speed_code_exact x : (0 <= x)%Q -> (x < 16382 # 100)%Q ->
  speed_code x = scale x 100 /\ 0 <= speed_code x < SPEED_OOR /\ approx x 100 (speed_code x).
Proof.
  intros H1 H2. destruct x as [a b]. unfold Qle, Qlt in *. cbn in H1, H2.
  assert (0 <= scale (a # b) 100) by (apply scale_nonneg; lia).
  assert (scale (a # b) 100 < 16382) by (apply scale_lt; lia).
  assert (E : speed_code (a # b) = scale (a # b) 100).
  { unfold speed_code. destruct (16381 <? scale (a # b) 100) eqn:E; [lia|reflexivity]. }
  rewrite E. unfold SPEED_OOR. repeat split; try lia. apply scale_approx.
Qed.

Lemma speed_code_oor x : (16382 # 100 <= x)%Q -> speed_code x = SPEED_OOR.
Proof.
  intros H. destruct x as [a b]. unfold Qle in H. cbn in H.
  assert (16382 <= scale (a # b) 100) by (apply scale_ge; lia).
  unfold speed_code. destruct (16381 <? scale (a # b) 100) eqn:E; [reflexivity|lia].
Qed.

(* ---- heading ------------------------------------------------------------------------------------------ *)

Lemma heading_code_in_range x : 0 <= heading_code x <= HEADING_MAX.
Proof. unfold heading_code, HEADING_MAX. lia. Qed.

Lemma heading_code_exact x : (0 <= x)%Q -> (x < 360)%Q ->
  heading_code x = scale x 10 /\ approx x 10 (heading_code x).
Proof.
  intros H1 H2. destruct x as [a b]. unfold Qle, Qlt in *. cbn in H1, H2.
  assert (0 <= scale (a # b) 10) by (apply scale_nonneg; lia).
  assert (scale (a # b) 10 < 3600) by (apply scale_lt; lia).
  assert (E : heading_code (a # b) = scale (a # b) 10) by (unfold heading_code; lia).
  rewrite E. split; [reflexivity|apply scale_approx].
Qed.

Lemma heading_code_full_turn x : (x == 360)%Q -> heading_code x = 0.
Proof.
  intros H. destruct x as [a b]. unfold Qeq in H. cbn in H.
  assert (E : scale (a # b) 10 = 3600).
  { assert (3600 <= scale (a # b) 10) by (apply scale_ge; lia).
    assert (scale (a # b) 10 <= 3600) by (apply scale_le; lia). lia. }
  unfold heading_code. rewrite E. reflexivity.
Qed.

(* ---- position confidence (semi axes) --------------------------------------------------------------------- *)

Lemma semi_axis_code_in_range x : SEMI_AXIS_MIN <= semi_axis_code x <= SEMI_AXIS_OOR.
Proof. unfold semi_axis_code, SEMI_AXIS_MIN, SEMI_AXIS_OOR. lia. Qed.

Lemma semi_axis_code_exact x : (1 # 100 <= x)%Q -> (x < 4094 # 100)%Q ->
  semi_axis_code x = scale x 100 /\ SEMI_AXIS_MIN <= semi_axis_code x < SEMI_AXIS_OOR /\ approx x 100 (semi_axis_code x).
Proof.
  intros H1 H2. destruct x as [a b]. unfold Qle, Qlt in *. cbn in H1, H2.
  assert (1 <= scale (a # b) 100) by (apply scale_ge; lia).
  assert (scale (a # b) 100 < 4094) by (apply scale_lt; lia).
  assert (E : semi_axis_code (a # b) = scale (a # b) 100).
  { unfold semi_axis_code, SEMI_AXIS_MIN, SEMI_AXIS_OOR. lia. }
  rewrite E. unfold SEMI_AXIS_MIN, SEMI_AXIS_OOR. repeat split; try lia. apply scale_approx.
Qed.

Lemma semi_axis_code_oor x : (4094 # 100 <= x)%Q -> semi_axis_code x = SEMI_AXIS_OOR.
Proof.
  intros H. destruct x as [a b]. unfold Qle in H. cbn in H.
  assert (4094 <= scale (a # b) 100) by (apply scale_ge; lia).
  unfold semi_axis_code, SEMI_AXIS_MIN, SEMI_AXIS_OOR. lia.
Qed.

Lemma semi_axis_code_small x : (x < 1 # 100)%Q -> semi_axis_code x = SEMI_AXIS_MIN.
Proof.
  intros H. destruct x as [a b]. unfold Qlt in H. cbn in H.
  assert (scale (a # b) 100 <= 0).
  { destruct (Z_le_gt_dec 0 (a * 100)) as [L|L].
    - assert (scale (a # b) 100 < 1) by (apply scale_lt; lia). lia.
    - apply scale_le. lia. }
  unfold semi_axis_code, SEMI_AXIS_MIN, SEMI_AXIS_OOR. lia.
Qed.

Lemma semi_axis_code_mono x y : (x <= y)%Q -> semi_axis_code x <= semi_axis_code y.
Proof.
  intros H. destruct x as [a b], y as [c d].
  assert (scale (a # b) 100 <= scale (c # d) 100) by (apply scale_mono; [lia|exact H]).
  unfold semi_axis_code. lia.
Qed.

Lemma cam_ellipse_ordered epx epy : snd (cam_ellipse epx epy) <= fst (cam_ellipse epx epy).
Proof.
  unfold cam_ellipse, Qleb. destruct (Qle_bool epx epy) eqn:E; cbn [fst snd].
  - apply semi_axis_code_mono. apply Qle_bool_iff. exact E.
  - apply semi_axis_code_mono. destruct (Qlt_le_dec epy epx) as [L|L]; [apply Qlt_le_weak; exact L|].
    apply Qle_bool_iff in L. congruence.
Qed.

(* ---- heading confidence ------------------------------------------------------------------------------------- *)

Lemma heading_conf_code_in_range x : HCONF_MIN <= heading_conf_code x <= HCONF_OOR.
Proof.
  unfold heading_conf_code, HCONF_MIN, HCONF_OOR, Qleb. destruct (Qle_bool x (25 # 2)) eqn:E; [|lia].
  apply Qle_bool_iff in E. destruct x as [a b]. unfold Qle in E. cbn in E.
  assert (scale (a # b) 10 <= 125) by (apply scale_le; lia). lia.
Qed.

Lemma heading_conf_code_exact x : (1 # 10 <= x)%Q -> (x <= 25 # 2)%Q ->
  heading_conf_code x = scale x 10 /\ HCONF_MIN <= heading_conf_code x <= HCONF_MAX_VALUE /\
  approx x 10 (heading_conf_code x).
Proof.
  intros H1 H2. unfold heading_conf_code, Qleb. apply Qle_bool_iff in H2. rewrite H2. apply Qle_bool_iff in H2.
  destruct x as [a b]. unfold Qle in *. cbn in H1, H2.
  assert (1 <= scale (a # b) 10) by (apply scale_ge; lia).
  assert (scale (a # b) 10 <= 125) by (apply scale_le; lia).
  assert (E : Z.max HCONF_MIN (scale (a # b) 10) = scale (a # b) 10) by (unfold HCONF_MIN; lia).
  rewrite E. unfold HCONF_MIN, HCONF_MAX_VALUE. repeat split; try lia. apply scale_approx.
Qed.

Lemma heading_conf_code_oor x : (25 # 2 < x)%Q -> heading_conf_code x = HCONF_OOR.
Proof.
  intros H. unfold heading_conf_code, Qleb. destruct (Qle_bool x (25 # 2)) eqn:E; [|reflexivity].
  apply Qle_bool_iff in E. exfalso. apply (Qlt_not_le _ _ H E).
Qed.

(* ---- altitude confidence --------------------------------------------------------------------------------------- *)

Lemma Qltb'_lt a b : Qltb' a b = true <-> (a < b)%Q.
Proof.
  unfold Qltb'. rewrite negb_true_iff. split; intros H.
  - destruct (Qlt_le_dec a b) as [L|L]; [exact L|]. apply Qle_bool_iff in L. congruence.
  - destruct (Qle_bool b a) eqn:E; [|reflexivity]. apply Qle_bool_iff in E. exfalso. apply (Qlt_not_le _ _ H E).
Qed.

Lemma first_below_spec x bs i0 :
  let j := first_below x bs i0 in
  i0 <= j <= i0 + Z.of_nat (length bs) /\
  (j < i0 + Z.of_nat (length bs) -> (x < nth (Z.to_nat (j - i0)) bs 0)%Q) /\
  (forall k, (k < Z.to_nat (j - i0))%nat -> (nth k bs 0 <= x)%Q).
Proof.
  revert i0. induction bs as [|b bs IH]; intros i0; cbn [first_below length].
  - cbn. split; [lia|]. split; [lia|]. intros k Hk. lia.
  - destruct (Qltb' x b) eqn:E.
    + split; [lia|]. split.
      * intros _. rewrite Z.sub_diag. cbn. apply Qltb'_lt. exact E.
      * intros k Hk. rewrite Z.sub_diag in Hk. cbn in Hk. lia.
    + destruct (IH (i0 + 1)) as (A & B & C). set (j := first_below x bs (i0 + 1)) in *.
      split; [lia|]. split.
      * intros Hj. assert (Ej : Z.to_nat (j - i0) = S (Z.to_nat (j - (i0 + 1)))) by lia.
        rewrite Ej. cbn [nth]. apply B. lia.
      * intros k Hk. destruct k as [|k]; cbn [nth].
        -- destruct (Qlt_le_dec x b) as [L|L]; [|exact L]. apply Qltb'_lt in L. congruence.
        -- apply C. lia.
Qed.

Lemma alt_conf_code_in_range x : 0 <= alt_conf_code x <= ALTCONF_OOR.
Proof.
  destruct (first_below_spec x altconf_bounds 0) as (A & _).
  change (Z.of_nat (length altconf_bounds)) with 14 in A. unfold alt_conf_code, ALTCONF_OOR. lia.
Qed.

(* the reported class i < 14 bounds the error estimate from above, and is the tightest class *)
Lemma alt_conf_code_bounds x :
  let i := alt_conf_code x in
  (i < ALTCONF_OOR -> (x < nth (Z.to_nat i) altconf_bounds 0)%Q) /\
  (0 < i -> (nth (Z.to_nat (i - 1)) altconf_bounds 0 <= x)%Q).
Proof.
  intros i. destruct (first_below_spec x altconf_bounds 0) as (A & B & C). fold (alt_conf_code x) in *. fold i in A, B, C.
  rewrite Z.sub_0_r in *. change (Z.of_nat (length altconf_bounds)) with 14 in *. split.
  - intros H. apply B. unfold ALTCONF_OOR in H. lia.
  - intros H. apply C. lia.
Qed.

Lemma alt_conf_code_oor x : (200 <= x)%Q -> alt_conf_code x = ALTCONF_OOR.
Proof.
  intros H. destruct (alt_conf_code_bounds x) as [B _]. destruct (alt_conf_code_in_range x) as [A1 A2].
  destruct (Z.eq_dec (alt_conf_code x) ALTCONF_OOR) as [E|E]; [exact E|]. exfalso.
  assert (L : alt_conf_code x < ALTCONF_OOR) by lia. specialize (B L).
  assert (Hb : forall k, (k < 14)%nat -> (nth k altconf_bounds 0 <= 200)%Q).
  { intros k Hk. do 14 (destruct k as [|k]; [cbn; unfold Qle; cbn; lia|]). lia. }
  assert (Hk : (Z.to_nat (alt_conf_code x) < 14)%nat) by (unfold ALTCONF_OOR in L; lia).
  specialize (Hb _ Hk). apply (Qlt_not_le _ _ B). apply Qle_trans with (y := 200%Q); assumption.
Qed.

(* ---- cluster information ------------------------------------------------------------------------------------------ *)

Lemma cluster_radius_code_pos x : 1 <= cluster_radius_code x.
Proof. unfold cluster_radius_code. lia. Qed.

(* ---- generationDeltaTime ------------------------------------------------------------------------------------------- *)

Lemma gdt_code_in_range ts : 0 <= gdt_code ts <= 65535.
Proof. unfold gdt_code. lia. Qed.

Lemma gdt_reconstruct_correct now T : 0 <= now -> 0 <= now - T < 65536 -> gdt_reconstruct now (gdt_code T) = T.
Proof.
  intros Hn H. unfold gdt_reconstruct, gdt_code.
  destruct (T mod 65536 + 65536 * (now ÷ 65536) <=? now) eqn:E; lia.
Qed.

(* a message 65.536 s old or older is attributed to a later cycle: the bound is sharp *)
Lemma gdt_reconstruct_limit : gdt_reconstruct 700000065536 (gdt_code 700000000000) <> 700000000000.
Proof. vm_compute. discriminate. Qed.

(* ---- examples ---------------------------------------------------------------------------------------------------------- *)

Lemma example_codes :
  alt_code (7000 # 1) = 700000 /\ alt_code (-3000 # 1) = -100000 /\ alt_code (16350 # 100) = 16350 /\
  semi_axis_code (50 # 1) = 4094 /\ semi_axis_code (8754 # 1000) = 875 /\ heading_conf_code 0 = 1 /\
  heading_code (360 # 1) = 0 /\ heading_code (35999 # 100) = 3599 /\ speed_code (200 # 1) = 16382 /\
  alt_conf_code (3197 # 100) = 11 /\ alt_conf_code (250 # 1) = 14 /\ lat_code (-(41453606167 # 1000000000)) = -414536061.
Proof. vm_compute. repeat split. Qed.
