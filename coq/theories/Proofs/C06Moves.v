(* C06 - the station moves on between the reception of a packet and its duplicate: position updates (events EEgo of the
   model, Router.refresh_ego_position_vector in the code) change nothing that duplicate detection and the CBF buffer rest
   on, so the copy waiting in the buffer is dropped by a duplicate wherever the station is by then. *)
From FlexVerif Require Import Base.Prelude Base.Bits Model.Wire Model.LocT Model.Router Proofs.RouterProofs.

(* any number of position updates: location table (duplicate lists), CBF buffer, sequence number and LS state are
   untouched, nothing is sent, delivered or armed *)
Lemma ego_updates_keep_state m pvs : forall s,
  let r := run m s (map EEgo pvs) in
  s_loct (fst r) = s_loct s /\ s_cbf (fst r) = s_cbf s /\ s_sn (fst r) = s_sn s /\ s_ls (fst r) = s_ls s /\
  Forall (fun o => o = []) (snd r).
Proof.
  induction pvs as [|pv pvs IH]; intro s; cbn [map run].
  - cbn. repeat split; constructor.
  - cbn [step].
    specialize (IH (mkState (s_loct s) (s_sn s) (s_cbf s) (s_ls s) pv)).
    destruct (run m (mkState (s_loct s) (s_sn s) (s_cbf s) (s_ls s) pv) (map EEgo pvs)) as [s2 os] eqn:E.
    cbn [fst snd] in *. destruct IH as (L & C & N & S & O). cbn [s_loct s_cbf s_sn s_ls] in *.
    repeat split; try assumption. constructor; [reflexivity | assumption].
Qed.

(* a copy of (SO, SN) waits in the CBF buffer and SN is in the duplicate window of SO; the station then reports any
   number of new positions; a duplicate arrives: the timer is stopped, nothing is delivered or forwarded, and a later
   expiry for that key sends nothing - whether the station is inside or outside the area at that time *)
Theorem cbf_duplicate_cancels_after_moves m s pvs now g bv cv body h p0 :
  let sm := fst (run m s (map EEgo pvs)) in
  dec_gbc body = Some h -> zero_area (arg 2 cv) h = false ->
  lookup_ins (g_ins g) (pv_lat (s_ego sm)) (pv_lon (s_ego sm)) <> None ->
  mid_eqb (pv_addr (firstn 9 (skipn 2 h))) (m_addr m) = false ->
  rx_mh (s_loct s) (firstn 9 (skipn 2 h)) (arg 0 h) now (m_life_ms m) (m_dpl_len m) = None ->
  cbf_find (s_cbf s) (pv_addr (firstn 9 (skipn 2 h)) ++ [arg 0 h]) = Some p0 ->
  let key := pv_addr (firstn 9 (skipn 2 h)) ++ [arg 0 h] in
  let s' := fst (rx_gbc m sm now g bv cv body) in
  In (OTimerCancel 1 key) (snd (rx_gbc m sm now g bv cv body)) /\ quiet (snd (rx_gbc m sm now g bv cv body)) /\
  cbf_fire s' key = (s', []).
Proof.
  intros sm D Z I A R F.
  destruct (ego_updates_keep_state m pvs s) as (L & C & _). fold sm in L, C.
  apply cbf_duplicate_cancels with (p0 := p0); try assumption.
  - rewrite L. exact R.
  - rewrite C. exact F.
Qed.
