(* C06: every flood terminates.  A network is abstracted to the pool of frames in flight, each with its
   remaining hop limit.  One step delivers a frame to all stations in range (at most K of them) and replaces it
   by the copies they forward - immediately or when their CBF timer expires.  The router theorems give, for
   EVERY station state: at most one forwarded copy per received frame, each with RHL exactly one lower, and
   none when the received RHL is below 2.  Hence the weight  sum (K+1)^RHL  strictly decreases, so any
   execution from a pool p0 has at most weight(p0) steps - whatever the topology, states and timer order. *)
From FlexVerif Require Import Base.Prelude Base.Bits Model.Lifetime Model.Wire Model.LocT Model.Router
  Proofs.LocTProofs Proofs.RouterProofs.
From Coq Require Import ZifyBool.

Section Flood.
  Variable K : Z.                         (* an upper bound on the number of stations that hear a frame *)
  Hypothesis HK : 0 <= K.

  Definition weight1 (rhl : Z) : Z := (K + 1) ^ (Z.max 0 rhl).
  Definition weight (pool : list Z) : Z := fold_right (fun r acc => weight1 r + acc) 0 pool.

  (* one delivery: frame with hop limit r leaves the pool, the copies forwarded by the receivers enter it *)
  Inductive nstep : list Z -> list Z -> Prop :=
  | NStep pre r post news :
      Z.of_nat (length news) <= K ->
      (forall r', In r' news -> r' = r - 1 /\ 2 <= r) ->
      nstep (pre ++ r :: post) (pre ++ news ++ post).

  Lemma weight1_pos r : 1 <= weight1 r.
  Proof. unfold weight1. assert (0 < (K + 1) ^ Z.max 0 r) by (apply Z.pow_pos_nonneg; lia). lia. Qed.

  Lemma weight_app a b : weight (a ++ b) = weight a + weight b.
  Proof. induction a as [|x a IH]; cbn; [reflexivity|]. unfold weight in *. cbn. lia. Qed.

  Lemma weight_nonneg p : 0 <= weight p.
  Proof. induction p as [|x p IH]; cbn; [lia|]. pose proof (weight1_pos x). unfold weight in *. cbn. lia. Qed.

  Lemma weight_news r news : (forall r', In r' news -> r' = r - 1 /\ 2 <= r) ->
    weight news = Z.of_nat (length news) * weight1 (r - 1).
  Proof.
    induction news as [|x news IH]; intros H; cbn [length]; [cbn; lia|].
    destruct (H x (or_introl eq_refl)) as [-> _]. unfold weight in *. cbn [fold_right].
    rewrite IH by (intros r' Hr; apply H; right; exact Hr). lia.
  Qed.

  Lemma step_decreases p p' : nstep p p' -> weight p' < weight p.
  Proof.
    intros S. inversion S as [pre r post news Hlen Hnews]; subst. rewrite !weight_app. cbn [weight fold_right].
    fold (weight post). fold (weight news).
    destruct news as [|x news'].
    - cbn. pose proof (weight1_pos r). lia.
    - destruct (Hnews x (or_introl eq_refl)) as [_ Hr].
      rewrite (weight_news r (x :: news') Hnews).
      assert (E : weight1 r = (K + 1) * weight1 (r - 1)).
      { unfold weight1. rewrite !Z.max_r by lia. replace r with (Z.succ (r - 1)) at 1 by lia.
        rewrite Z.pow_succ_r by lia. reflexivity. }
      pose proof (weight1_pos (r - 1)). rewrite E. nia.
  Qed.

  Inductive nsteps : nat -> list Z -> list Z -> Prop :=
  | NS0 p : nsteps 0 p p
  | NSS n p p' p'' : nstep p p' -> nsteps n p' p'' -> nsteps (S n) p p''.

  Theorem flood_terminates n p p' : nsteps n p p' -> Z.of_nat n <= weight p - weight p'.
  Proof.
    induction 1 as [p|n p p' p'' S _ IH]; [lia|]. pose proof (step_decreases _ _ S). lia.
  Qed.

  Corollary flood_bound n p p' : nsteps n p p' -> Z.of_nat n <= weight p.
  Proof. intros H. pose proof (flood_terminates _ _ _ H). pose proof (weight_nonneg p'). lia. Qed.
End Flood.

(* the router supplies the two facts about one reception: at most one forwarded copy, and (from C06) RHL - 1 >= 1 *)
Definition count_fwd (os : list output) : nat := length (filter is_fwd os).

Lemma count_fwd_app a b : count_fwd (a ++ b) = (count_fwd a + count_fwd b)%nat.
Proof. unfold count_fwd. rewrite filter_app, app_length. reflexivity. Qed.

Lemma no_fwd_ind_count os : no_fwd_ind os -> count_fwd os = 0%nat.
Proof.
  unfold count_fwd. induction os as [|o os IH]; intros H; [reflexivity|]. cbn.
  destruct (H o (or_introl eq_refl)) as [-> _]. apply IH. intros x Hx. apply H. right. exact Hx.
Qed.

Ltac cnt := repeat match goal with
                   | |- context [match ?x with _ => _ end] => destruct x eqn:?
                   end; cbn [snd]; unfold count_fwd; cbn; auto with arith.

Lemma fwd_plain_count bv cv e p : (count_fwd (fwd_plain bv cv e p) <= 1)%nat.
Proof. unfold fwd_plain. destruct (0 <? arg 5 bv - 1); unfold count_fwd; cbn; auto with arith. Qed.

Theorem at_most_one_forward m s now g pkt : (count_fwd (snd (rx m s now g pkt)) <= 1)%nat.
Proof.
  unfold rx. cbv zeta.
  destruct (dec_basic pkt) as [bv|]; [|cbn; unfold count_fwd; cbn; auto with arith].
  destruct (negb (arg 0 bv =? 1)); [unfold count_fwd; cbn; auto with arith|].
  destruct (arg 1 bv =? 2); [unfold count_fwd; cbn; auto with arith|].
  destruct (negb (arg 1 bv =? 1)); [unfold count_fwd; cbn; auto with arith|].
  destruct (dec_common (skipn 4 pkt)) as [cv|]; [|unfold count_fwd; cbn; auto with arith].
  destruct (arg 8 cv <? arg 5 bv); [unfold count_fwd; cbn; auto with arith|].
  assert (B : forall d, (forall pv, match d with Some f => is_fwd (f pv) = false | None => True end) ->
              (count_fwd (snd (rx_beacon m s now (skipn 12 pkt) d)) <= 1)%nat).
  { intros d Hd. unfold rx_beacon. destruct (dec_lpv _) as [pv|]; [|unfold count_fwd; cbn; auto with arith].
    destruct (mid_eqb _ _); [unfold count_fwd; cbn; auto with arith|]. destruct d as [f|]; unfold count_fwd; cbn; [|auto with arith].
    specialize (Hd pv). cbn in Hd. rewrite Hd. cbn. auto with arith. }
  destruct (arg 1 cv =? 1); [apply B; intros; exact I|].
  destruct (arg 1 cv =? 2). { unfold rx_guc. cbv zeta. cnt. }
  destruct (arg 1 cv =? 3). { unfold rx_gac. cbv zeta. cnt. }
  destruct (arg 1 cv =? 4).
  { unfold rx_gbc. cbv zeta. cnt; rewrite ?filter_app, ?app_length; cbn; try lia;
      repeat match goal with |- context [if ?b then _ else _] => destruct b end; cbn; lia. }
  destruct (arg 1 cv =? 5).
  { destruct (arg 2 cv =? 0); [apply B; intros pv; reflexivity|].
    unfold rx_tsb. cbv zeta.
    destruct (dec_tsb _); [|unfold count_fwd; cbn; auto with arith]. destruct (mid_eqb _ _); [unfold count_fwd; cbn; auto with arith|].
    destruct (rx_mh _ _ _ _ _ _); [|unfold count_fwd; cbn; auto with arith]. cbn [snd].
    destruct (negb (has_nb _) && z2b (arg 3 cv)); [unfold count_fwd; cbn; auto with arith|].
    change (OInd ?a ?b :: ?l) with ([OInd a b] ++ l). rewrite count_fwd_app.
    pose proof (fwd_plain_count bv cv (enc_tsb l) (skipn 28 (skipn 12 pkt))) as Hc.
    unfold count_fwd at 1. cbn [filter is_fwd length Nat.add]. exact Hc. }
  destruct (arg 1 cv =? 6); [|unfold count_fwd; cbn; auto with arith].
  destruct (arg 2 cv =? 0).
  - unfold rx_lsreq. cbv zeta.
    destruct (dec_lsreq _); [|unfold count_fwd; cbn; auto with arith]. destruct (mid_eqb _ _); [unfold count_fwd; cbn; auto with arith|].
    destruct (rx_mh _ _ _ _ _ _); [|unfold count_fwd; cbn; auto with arith].
    destruct (mid_eqb _ _).
    + destruct (find _ _); [|unfold count_fwd; cbn; auto with arith]. destruct (take_sn _). unfold count_fwd; cbn; auto with arith.
    + cbn [snd]. apply fwd_plain_count.
  - unfold rx_lsrep. cbv zeta.
    destruct (dec_guc _); [|unfold count_fwd; cbn; auto with arith]. destruct (mid_eqb _ _); [unfold count_fwd; cbn; auto with arith|].
    destruct (rx_mh _ _ _ _ _ _); [|unfold count_fwd; cbn; auto with arith].
    destruct (mid_eqb _ _).
    + match goal with |- context [flush_guc ?m ?s0 ?g ?d ?rs] =>
        pose proof (flush_guc_out m g d rs s0) as F; destruct (flush_guc m s0 g d rs) as [s3 o] end.
      cbn [snd] in *. rewrite count_fwd_app, (no_fwd_ind_count o F).
      destruct (match ls_find _ _ with Some _ => true | None => false end); unfold count_fwd; cbn; auto with arith.
    + destruct (0 <? arg 5 bv - 1); unfold count_fwd; cbn; auto with arith.
Qed.
