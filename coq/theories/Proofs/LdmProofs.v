(* Proofs about Model/Ldm.v: the concrete store refines the finite map, and the
   clauses of property C12 for every operation sequence. *)
From FlexVerif Require Import Base.Prelude Model.Ldm.
From Coq Require Import ZifyBool Sorted.
Ltac Zify.zify_post_hook ::= Z.to_euclidean_division_equations.

(* ---- records and registries ---------------------------------------------------- *)
Lemma rec_eqb_eq a b : rec_eqb a b = true <-> a = b.
Proof.
  split.
  - unfold rec_eqb. intros H. destruct a, b; cbn in *.
    repeat (apply andb_prop in H; destruct H as [H ?]).
    f_equal; lia.
  - intros ->. unfold rec_eqb. rewrite !Z.eqb_refl. reflexivity.
Qed.

Lemma mem_In x l : mem x l = true <-> In x l.
Proof.
  unfold mem. rewrite existsb_exists. split.
  - intros (y & Hy & E). apply Z.eqb_eq in E. now subst.
  - intros H. exists x. split; [assumption|apply Z.eqb_refl].
Qed.

Lemma mem_app x l l' : mem x (l ++ l') = mem x l || mem x l'.
Proof. unfold mem. apply existsb_app. Qed.

Lemma mem_set_add x y l : mem x (set_add y l) = (x =? y) || mem x l.
Proof.
  unfold set_add. destruct (mem y l) eqn:E.
  - destruct (x =? y) eqn:Exy; [|reflexivity]. apply Z.eqb_eq in Exy. subst. now rewrite E.
  - rewrite mem_app. cbn. rewrite orb_false_r. apply orb_comm.
Qed.

Lemma mem_set_del x y l : mem x (set_del y l) = negb (x =? y) && mem x l.
Proof.
  unfold set_del, mem. induction l as [|z l IH]; cbn.
  - now rewrite andb_false_r.
  - destruct (y =? z) eqn:Eyz; cbn.
    + rewrite IH. apply Z.eqb_eq in Eyz. subst z. destruct (x =? y); cbn; reflexivity.
    + rewrite IH. destruct (x =? z) eqn:Exz; cbn.
      * apply Z.eqb_eq in Exz. subst z. rewrite Z.eqb_sym, Eyz. reflexivity.
      * reflexivity.
Qed.

(* ---- garbage collection by value = filter -------------------------------------- *)
Lemma remove_first_skip r k rest :
  (forall e, In e k -> rec_eqb (snd e) r = false) ->
  remove_first r (k ++ rest) = k ++ remove_first r rest.
Proof.
  induction k as [|e k IH]; intros H; cbn; [reflexivity|].
  rewrite (H e (or_introl eq_refl)). rewrite IH; [reflexivity|].
  intros e' He'. apply H. now right.
Qed.

Lemma gc_pass_gen p rest : forall kept,
  (forall e, In e kept -> p (snd e) = false) ->
  fold_left (fun d r => if p r then remove_first r d else d) (map snd rest) (kept ++ rest)
  = kept ++ filter (fun e => negb (p (snd e))) rest.
Proof.
  induction rest as [|e rest IH]; intros kept Hk; cbn [map fold_left filter].
  - reflexivity.
  - destruct (p (snd e)) eqn:Ep; cbn [negb].
    + rewrite remove_first_skip.
      * cbn [remove_first]. assert (rec_eqb (snd e) (snd e) = true) as -> by now apply rec_eqb_eq.
        now apply IH.
      * intros e' He'. destruct (rec_eqb (snd e') (snd e)) eqn:E; [|reflexivity].
        apply rec_eqb_eq in E. rewrite <- E in Ep. rewrite (Hk e' He') in Ep. discriminate.
    + replace (kept ++ e :: rest) with ((kept ++ [e]) ++ rest) by now rewrite <- app_assoc.
      rewrite IH.
      * now rewrite <- app_assoc.
      * intros e' He'. apply in_app_or in He'. destruct He' as [He'|[<-|[]]]; auto.
Qed.

Lemma gc_pass_filter p db : gc_pass p db = filter (fun e => negb (p (snd e))) db.
Proof. unfold gc_pass. apply (gc_pass_gen p db []). intros e []. Qed.

Lemma gc_filter c t db : gc c t db = filter (fun e => negb (dead c t (snd e))) db.
Proof.
  unfold gc. rewrite !gc_pass_filter. unfold dead.
  induction db as [|e db IH]; cbn; [reflexivity|].
  destruct (expired t (snd e)); cbn; [exact IH|].
  destruct (in_zone c (snd e)); cbn; [exact IH|]. now rewrite IH.
Qed.

(* ---- enumeration of a functional map ------------------------------------------- *)
Lemma in_zrange k lo n : In k (zrange lo n) <-> lo <= k < lo + Z.of_nat n.
Proof.
  revert lo. induction n as [|n IH]; intros lo; cbn [zrange In].
  - lia.
  - rewrite IH. lia.
Qed.

Lemma zrange_snoc lo n : zrange lo (S n) = zrange lo n ++ [lo + Z.of_nat n].
Proof.
  revert lo. induction n as [|n IH]; intros lo.
  - cbn. now rewrite Z.add_0_r.
  - change (zrange lo (S (S n))) with (lo :: zrange (lo + 1) (S n)). rewrite IH.
    cbn [zrange app]. f_equal. f_equal. assert (lo + 1 + Z.of_nat n = lo + Z.of_nat (S n)) as -> by lia. reflexivity.
Qed.

Lemma flat_map_flat_map {A B C} (f : A -> list B) (g : B -> list C) l :
  flat_map g (flat_map f l) = flat_map (fun x => flat_map g (f x)) l.
Proof. induction l as [|x l IH]; cbn; [reflexivity|]. now rewrite flat_map_app, IH. Qed.

Lemma filter_flat_map {A} (f : A -> bool) l : filter f l = flat_map (fun e => if f e then [e] else []) l.
Proof. induction l as [|x l IH]; cbn; [reflexivity|]. destruct (f x); cbn; now rewrite IH. Qed.

Lemma flat_map_ext_in' {A B} (f g : A -> list B) l :
  (forall x, In x l -> f x = g x) -> flat_map f l = flat_map g l.
Proof.
  induction l as [|x l IH]; intros H; cbn; [reflexivity|].
  rewrite (H x (or_introl eq_refl)), IH; [reflexivity|]. intros y Hy. apply H. now right.
Qed.

Lemma map_flat_map {A B} (f : A -> B) l : map f l = flat_map (fun e => [f e]) l.
Proof. induction l as [|x l IH]; cbn; [reflexivity|]. now rewrite IH. Qed.

Definition cell (m : Z -> option rec) (k : Z) : list (Z * rec) :=
  match m k with Some r => [(k, r)] | None => [] end.

Lemma aenum_cell m n : aenum m n = flat_map (cell m) (zrange 0 (Z.to_nat n)).
Proof. reflexivity. Qed.

Lemma aenum_ext m m' n : (forall k, 0 <= k < n -> m k = m' k) -> aenum m n = aenum m' n.
Proof.
  intros H. unfold aenum. apply flat_map_ext_in'. intros k Hk. apply in_zrange in Hk.
  rewrite H; [reflexivity|lia].
Qed.

Lemma aenum_snoc m n : 0 <= n -> aenum m (n + 1) = aenum m n ++ cell m n.
Proof.
  intros Hn. unfold aenum. replace (Z.to_nat (n + 1)) with (S (Z.to_nat n)) by lia.
  rewrite zrange_snoc, flat_map_app. cbn [flat_map]. rewrite app_nil_r.
  replace (0 + Z.of_nat (Z.to_nat n)) with n by lia. reflexivity.
Qed.

Lemma in_aenum m n k r : In (k, r) (aenum m n) <-> 0 <= k < n /\ m k = Some r.
Proof.
  unfold aenum. rewrite in_flat_map. split.
  - intros (j & Hj & Hin). apply in_zrange in Hj. destruct (m j) eqn:E; cbn in Hin; [|contradiction].
    destruct Hin as [Hin|[]]. inversion Hin; subst. split; [lia|assumption].
  - intros (Hk & E). exists k. split; [apply in_zrange; lia|]. rewrite E. now left.
Qed.

Lemma in_aenum_fst m n e : In e (aenum m n) -> 0 <= fst e < n /\ m (fst e) = Some (snd e).
Proof. destruct e as [k r]. apply in_aenum. Qed.

(* a pointwise transformation of the map is a flat_map over its enumeration *)
Lemma aenum_transform (g : Z -> rec -> option rec) m n :
  aenum (fun k => match m k with Some r => g k r | None => None end) n
  = flat_map (fun e => match g (fst e) (snd e) with Some r' => [(fst e, r')] | None => [] end) (aenum m n).
Proof.
  unfold aenum. rewrite flat_map_flat_map. apply flat_map_ext. intros k.
  destruct (m k) as [r|]; cbn; [|reflexivity]. destruct (g k r); reflexivity.
Qed.

Definition bounded (m : Z -> option rec) (n : Z) : Prop := forall k, k < 0 \/ n <= k -> m k = None.

Lemma lookup_app id l l' :
  lookup id (l ++ l') = match lookup id l with Some r => Some r | None => lookup id l' end.
Proof.
  unfold lookup. induction l as [|e l IH]; cbn; [reflexivity|].
  destruct (fst e =? id); [reflexivity|exact IH].
Qed.

Lemma lookup_none_notin id l : (forall e, In e l -> fst e <> id) -> lookup id l = None.
Proof.
  unfold lookup. induction l as [|e l IH]; intros H; cbn; [reflexivity|].
  destruct (fst e =? id) eqn:E.
  - apply Z.eqb_eq in E. exfalso. exact (H e (or_introl eq_refl) E).
  - apply IH. intros e' He'. apply H. now right.
Qed.

Lemma lookup_aenum_nat m id : forall n : nat,
  lookup id (aenum m (Z.of_nat n)) = if (0 <=? id) && (id <? Z.of_nat n) then m id else None.
Proof.
  induction n as [|n IH].
  - cbn [Z.of_nat]. unfold aenum. cbn. destruct ((0 <=? id) && (id <? 0)) eqn:E; [lia|reflexivity].
  - replace (Z.of_nat (S n)) with (Z.of_nat n + 1) by lia. rewrite aenum_snoc by lia.
    rewrite lookup_app, IH.
    destruct ((0 <=? id) && (id <? Z.of_nat n)) eqn:E1.
    + assert ((0 <=? id) && (id <? Z.of_nat n + 1) = true) as -> by lia.
      destruct (m id) eqn:E; [reflexivity|].
      unfold cell. destruct (m (Z.of_nat n)) eqn:E2; [|reflexivity].
      unfold lookup. cbn. assert (Z.of_nat n =? id = false) as -> by lia. reflexivity.
    + unfold cell. destruct (Z.of_nat n =? id) eqn:E2.
      * apply Z.eqb_eq in E2. subst id.
        assert ((0 <=? Z.of_nat n) && (Z.of_nat n <? Z.of_nat n + 1) = true) as -> by lia.
        destruct (m (Z.of_nat n)); [|reflexivity]. unfold lookup. cbn. now rewrite Z.eqb_refl.
      * assert ((0 <=? id) && (id <? Z.of_nat n + 1) = false) as -> by lia.
        destruct (m (Z.of_nat n)); [|reflexivity]. unfold lookup. cbn. now rewrite E2.
Qed.

Lemma lookup_aenum m n id : 0 <= n -> bounded m n -> lookup id (aenum m n) = m id.
Proof.
  intros Hn Hb. replace n with (Z.of_nat (Z.to_nat n)) at 1 by lia. rewrite lookup_aenum_nat.
  destruct ((0 <=? id) && (id <? Z.of_nat (Z.to_nat n))) eqn:E; [reflexivity|].
  symmetry. apply Hb. lia.
Qed.

Lemma has_id_lookup id l : has_id id l = match lookup id l with Some _ => true | None => false end.
Proof.
  unfold has_id, lookup. induction l as [|e l IH]; cbn; [reflexivity|].
  destruct (fst e =? id); [reflexivity|exact IH].
Qed.

Lemma has_id_aenum m n id : 0 <= n -> bounded m n -> has_id id (aenum m n) = a_defined m id.
Proof. intros Hn Hb. rewrite has_id_lookup, lookup_aenum by assumption. reflexivity. Qed.

(* ---- the three store transformations on an enumeration -------------------------- *)
Lemma pair_eta (e : Z * rec) : (fst e, snd e) = e.
Proof. now destruct e. Qed.

Lemma gc_aenum c t m n : gc c t (aenum m n) = aenum (a_gc c t m) n.
Proof.
  rewrite gc_filter, filter_flat_map. unfold a_gc.
  rewrite (aenum_transform (fun _ r => if dead c t r then None else Some r)).
  apply flat_map_ext. intros e. destruct (dead c t (snd e)); cbn; [reflexivity|now rewrite pair_eta].
Qed.

Lemma delete_aenum id m n :
  filter (fun e => negb (fst e =? id)) (aenum m n) = aenum (upd m id None) n.
Proof.
  rewrite filter_flat_map.
  transitivity (aenum (fun k => match m k with Some r => if k =? id then None else Some r | None => None end) n).
  - rewrite (aenum_transform (fun k r => if k =? id then None else Some r)).
    apply flat_map_ext. intros e. destruct (fst e =? id); cbn; [reflexivity|now rewrite pair_eta].
  - apply aenum_ext. intros k _. unfold upd. destruct (k =? id); destruct (m k); reflexivity.
Qed.

Lemma update_aenum id r typ tok m n : m id = Some r ->
  map (fun e => if fst e =? id then (fst e, set_content (snd e) typ tok) else e) (aenum m n)
  = aenum (upd m id (Some (set_content r typ tok))) n.
Proof.
  intros Hm. rewrite map_flat_map.
  transitivity (aenum (fun k => match m k with
                                | Some r' => if k =? id then Some (set_content r' typ tok) else Some r'
                                | None => None end) n).
  - rewrite (aenum_transform (fun k r' => if k =? id then Some (set_content r' typ tok) else Some r')).
    apply flat_map_ext. intros e. destruct (fst e =? id); cbn; [reflexivity|now rewrite pair_eta].
  - apply aenum_ext. intros k _. unfold upd. destruct (k =? id) eqn:E.
    + apply Z.eqb_eq in E. subst k. now rewrite Hm.
    + destruct (m k); reflexivity.
Qed.

Lemma add_aenum m n r : 0 <= n -> bounded m n ->
  aenum m n ++ [(n, r)] = aenum (upd m n (Some r)) (n + 1).
Proof.
  intros Hn Hb. rewrite aenum_snoc by assumption. unfold cell, upd. rewrite Z.eqb_refl.
  f_equal. apply aenum_ext. intros k Hk. assert (k =? n = false) as -> by lia. reflexivity.
Qed.

Lemma bounded_upd_next m n r : 0 <= n -> bounded m n -> bounded (upd m n (Some r)) (n + 1).
Proof. intros Hn Hb k Hk. unfold upd. destruct (k =? n) eqn:E; [lia|]. apply Hb. lia. Qed.

Lemma bounded_upd_in m n id v : bounded m n -> 0 <= id < n -> bounded (upd m id v) n.
Proof. intros Hb Hid k Hk. unfold upd. destruct (k =? id) eqn:E; [lia|]. now apply Hb. Qed.

Lemma bounded_upd_none m n id : bounded m n -> bounded (upd m id None) n.
Proof. intros Hb k Hk. unfold upd. destruct (k =? id); [reflexivity|now apply Hb]. Qed.

Lemma bounded_gc c t m n : bounded m n -> bounded (a_gc c t m) n.
Proof. intros Hb k Hk. unfold a_gc. now rewrite (Hb k Hk). Qed.

Lemma bounded_defined m n id r : bounded m n -> 0 <= n -> m id = Some r -> 0 <= id < n.
Proof.
  intros Hb Hn Hm. destruct (Z_lt_ge_dec id 0) as [H|H]; [rewrite Hb in Hm by lia; discriminate|].
  destruct (Z_lt_ge_dec id n) as [H'|H']; [lia|rewrite Hb in Hm by lia; discriminate].
Qed.

(* ---- one step preserves the refinement and produces the same output -------------- *)
Ltac simp_st := cbn [store next_id provs conss now last_gc a_map a_next a_prov a_cons a_now a_last_gc fst snd].

Lemma step_refines c s a o : refines s a ->
  snd (step c s o) = snd (a_step c a o) /\ refines (fst (step c s o)) (fst (a_step c a o)).
Proof.
  intros (Hst & Hb & Hn & Hn0 & Hp & Hc & Hnow & Hgc).
  destruct o as [aid perms|aid|aid perms|aid|r|aid id typ tok|aid id|aid prio types|ms|]; cbn [step a_step].
  - destruct (reg_prov_ok aid perms); cbn [fst snd]; (split; [reflexivity|]).
    + unfold refines; simp_st. repeat split; try assumption.
      intros x. rewrite mem_set_add, Hp. unfold upd. destruct (x =? aid); reflexivity.
    + unfold refines. repeat split; assumption.
  - rewrite Hp. destruct (a_prov a aid) eqn:E; cbn [fst snd]; (split; [reflexivity|]).
    + unfold refines; simp_st. repeat split; try assumption.
      intros x. rewrite mem_set_del, Hp. unfold upd. destruct (x =? aid) eqn:Ex; cbn; reflexivity.
    + unfold refines. repeat split; assumption.
  - destruct (reg_cons_ok aid perms); cbn [fst snd]; (split; [reflexivity|]).
    + unfold refines; simp_st. repeat split; try assumption.
      intros x. rewrite mem_set_add, Hc. unfold upd. destruct (x =? aid); reflexivity.
    + unfold refines. repeat split; assumption.
  - rewrite Hc. destruct (a_cons a aid) eqn:E; cbn [fst snd]; (split; [reflexivity|]).
    + unfold refines; simp_st. repeat split; try assumption.
      intros x. rewrite mem_set_del, Hc. unfold upd. destruct (x =? aid) eqn:Ex; cbn; reflexivity.
    + unfold refines. repeat split; assumption.
  - rewrite Hp. destruct (a_prov a (r_app r)); cbn [fst snd].
    + assert (gc_due s = a_gc_due a) as -> by (unfold gc_due, a_gc_due; now rewrite Hnow, Hgc).
      rewrite Hst, Hn, Hnow. rewrite add_aenum by assumption.
      destruct (a_gc_due a); cbn [fst snd]; (split; [reflexivity|]).
      * unfold refines; simp_st. rewrite gc_aenum. repeat split; try assumption; try lia.
        apply bounded_gc. now apply bounded_upd_next.
      * unfold refines; simp_st. repeat split; try assumption; try lia.
        now apply bounded_upd_next.
    + split; [reflexivity|]. unfold refines. repeat split; assumption.
  - assert (lookup id (store s) = a_map a id) as Hl by (rewrite Hst; now apply lookup_aenum).
    rewrite Hl.
    destruct (a_map a id) as [r|] eqn:E; cbn [fst snd].
    + destruct (valid_type typ && (r_typ r =? typ));
        cbn [fst snd]; (split; [reflexivity|]).
      * unfold refines, with_store, a_with_map; simp_st. rewrite Hst, (update_aenum id r) by assumption.
        repeat split; try assumption. apply bounded_upd_in; [assumption|].
        now apply (bounded_defined _ _ _ r Hb).
      * unfold refines. repeat split; assumption.
    + split; [reflexivity|]. unfold refines. repeat split; assumption.
  - rewrite Hst, has_id_aenum by assumption. unfold a_defined.
    destruct (a_map a id) as [r|] eqn:E; cbn [fst snd]; (split; [reflexivity|]).
    + unfold refines, with_store, a_with_map; simp_st. rewrite delete_aenum.
      repeat split; try assumption. now apply bounded_upd_none.
    + unfold refines. repeat split; assumption.
  - rewrite Hc, Hst. destruct (negb (a_cons a aid)); cbn [fst snd].
    { split; [reflexivity|]. unfold refines. repeat split; assumption. }
    destruct (negb (forallb valid_type types)); cbn [fst snd].
    { split; [reflexivity|]. unfold refines. repeat split; assumption. }
    destruct (negb (prio_ok prio)); cbn [fst snd];
      (split; [reflexivity|]); unfold refines; repeat split; assumption.
  - cbn [fst snd]. split; [reflexivity|]. unfold refines; simp_st. repeat split; try assumption. now rewrite Hnow.
  - cbn [fst snd]. split; [reflexivity|]. unfold refines, with_store, a_with_map; simp_st.
    rewrite Hst, Hnow, gc_aenum. repeat split; try assumption. now apply bounded_gc.
Qed.

Lemma init_refines t0 : refines (init t0) (a_init t0).
Proof. unfold refines, init, a_init; cbn. repeat split; try reflexivity; lia. Qed.

Lemma run_refines c ops : forall s a, refines s a ->
  snd (run c s ops) = snd (a_run c a ops) /\ refines (fst (run c s ops)) (fst (a_run c a ops)).
Proof.
  induction ops as [|o ops IH]; intros s a H; cbn [run a_run].
  - split; [reflexivity|assumption].
  - destruct (step_refines c s a o H) as [Ho Hr].
    destruct (step c s o) as [s1 out] eqn:E1. destruct (a_step c a o) as [a1 out'] eqn:E2.
    cbn [fst snd] in Ho, Hr. subst out'.
    destruct (IH s1 a1 Hr) as [Ho2 Hr2].
    destruct (run c s1 ops) as [s2 outs]. destruct (a_run c a1 ops) as [a2 outs'].
    cbn [fst snd] in *. subst. split; [reflexivity|assumption].
Qed.

Theorem ldm_refines_map c t0 ops :
  snd (run c (init t0) ops) = snd (a_run c (a_init t0) ops) /\
  refines (fst (run c (init t0) ops)) (fst (a_run c (a_init t0) ops)).
Proof. apply run_refines, init_refines. Qed.

(* ---- from refinement to statements about the concrete run ------------------------- *)
Lemma lookup_refines s a i : refines s a -> lookup i (store s) = a_map a i.
Proof. intros (Hst & Hb & _ & Hn0 & _). rewrite Hst. now apply lookup_aenum. Qed.

Lemma refines_next s a : refines s a -> next_id s = a_next a.
Proof. intros (_ & _ & H & _). exact H. Qed.

Lemma refines_bounded s a : refines s a -> bounded (a_map a) (a_next a) /\ 0 <= a_next a.
Proof. intros (_ & Hb & _ & Hn0 & _). split; assumption. Qed.

Lemma run_app c ops1 ops2 s :
  run c s (ops1 ++ ops2) =
  (fst (run c (fst (run c s ops1)) ops2), snd (run c s ops1) ++ snd (run c (fst (run c s ops1)) ops2)).
Proof.
  revert s. induction ops1 as [|o ops1 IH]; intros s; cbn [app run].
  - cbn. now destruct (run c s ops2).
  - destruct (step c s o) as [s1 out]. rewrite IH.
    destruct (run c s1 ops1) as [s2 outs]. cbn [fst snd]. reflexivity.
Qed.

Lemma state_after_app c t0 ops1 ops2 :
  state_after c t0 (ops1 ++ ops2) = fst (run c (state_after c t0 ops1) ops2).
Proof. unfold state_after. now rewrite run_app. Qed.

Lemma run_cons c s o ops : fst (run c s (o :: ops)) = fst (run c (fst (step c s o)) ops).
Proof.
  cbn [run]. destruct (step c s o) as [s1 out]. cbn [fst]. destruct (run c s1 ops) as [s2 outs]. reflexivity.
Qed.

Lemma state_after_reachable c t0 ops : exists a, refines (state_after c t0 ops) a.
Proof. exists (fst (a_run c (a_init t0) ops)). apply ldm_refines_map. Qed.

Ltac abs_cases :=
  repeat (match goal with
          | |- context [if ?b then _ else _] => destruct b eqn:?
          | |- context [match a_map ?a ?i with _ => _ end] => destruct (a_map a i) eqn:?
          end; cbn [fst snd a_map a_next a_prov a_cons a_now a_last_gc a_with_map]).

(* an identifier below next_id that is not in the map never comes back *)
Ltac abs_simpl := cbn [fst snd a_map a_next a_prov a_cons a_now a_last_gc a_with_map].

Lemma a_step_none c a o i : bounded (a_map a) (a_next a) -> 0 <= a_next a ->
  a_map a i = None -> i < a_next a ->
  a_map (fst (a_step c a o)) i = None /\ i < a_next (fst (a_step c a o)).
Proof.
  intros Hb Hn Hi Hlt. destruct o; cbn [a_step]; abs_cases; abs_simpl; unfold upd, a_gc;
    try (split; [assumption|lia]);
    repeat match goal with |- context [?x =? ?y] => destruct (x =? y) eqn:? end;
    try rewrite Hi; (split; [try reflexivity; try assumption; try congruence; try lia|lia]).
  apply Z.eqb_eq in Heqb0. subst. congruence.
Qed.

Lemma step_none c s a o i : refines s a -> lookup i (store s) = None -> i < next_id s ->
  lookup i (store (fst (step c s o))) = None /\ i < next_id (fst (step c s o)).
Proof.
  intros R H1 H2. destruct (step_refines c s a o R) as [_ R'].
  rewrite (lookup_refines _ _ _ R) in H1. rewrite (lookup_refines _ _ _ R').
  rewrite (refines_next _ _ R) in H2. rewrite (refines_next _ _ R').
  destruct (refines_bounded _ _ R). now apply a_step_none.
Qed.

Lemma run_none c ops : forall s a i, refines s a -> lookup i (store s) = None -> i < next_id s ->
  lookup i (store (fst (run c s ops))) = None.
Proof.
  induction ops as [|o ops IH]; intros s a i R H1 H2.
  - exact H1.
  - rewrite run_cons. destruct (step_none c s a o i R H1 H2) as [H1' H2'].
    destruct (step_refines c s a o R) as [_ R']. now apply (IH _ _ i R').
Qed.

Lemma lookup_some_lt s a i r : refines s a -> lookup i (store s) = Some r -> 0 <= i < next_id s.
Proof.
  intros R H. rewrite (lookup_refines _ _ _ R) in H. rewrite (refines_next _ _ R).
  destruct (refines_bounded _ _ R) as [Hb Hn]. now apply (bounded_defined _ _ _ r Hb).
Qed.

(* ---- deleted_never_returned ---------------------------------------------------- *)
Theorem deleted_never_returned c t0 ops1 aid i ops2 :
  snd (step c (state_after c t0 ops1) (Delete aid i)) = [0] ->
  lookup i (store (state_after c t0 (ops1 ++ Delete aid i :: ops2))) = None.
Proof.
  intros Hout. rewrite state_after_app, run_cons.
  destruct (state_after_reachable c t0 ops1) as [a R]. set (s := state_after c t0 ops1) in *.
  destruct (step_refines c s a (Delete aid i) R) as [_ R'].
  apply (run_none c ops2 _ _ i R').
  - cbn [step] in *. rewrite has_id_lookup in *. destruct (lookup i (store s)) eqn:E; cbn [fst snd] in *.
    + unfold with_store; cbn [store]. apply lookup_none_notin. intros e He.
      apply filter_In in He. destruct He as [_ He]. lia.
    + discriminate.
  - cbn [step] in *. rewrite has_id_lookup in *. destruct (lookup i (store s)) eqn:E; cbn [fst snd] in *.
    + unfold with_store; cbn [next_id]. now apply (lookup_some_lt s a i r R).
    + discriminate.
Qed.

(* ---- expired_never_returned ----------------------------------------------------- *)
Lemma runs_gc_refines s a o : refines s a ->
  runs_gc s o = match o with
                | Add r => a_prov a (r_app r) && a_gc_due a
                | Maintain => true
                | _ => false end.
Proof.
  intros (_ & _ & _ & _ & Hp & _ & Hnow & Hgc). destruct o; cbn [runs_gc]; try reflexivity.
  rewrite Hp. unfold gc_due, a_gc_due. now rewrite Hnow, Hgc.
Qed.

(* what maintenance does to one identifier, in one step *)
Lemma a_step_gc c a o i r : bounded (a_map a) (a_next a) -> 0 <= a_next a ->
  a_map a i = Some r ->
  match o with Add r0 => a_prov a (r_app r0) && a_gc_due a | Maintain => true | _ => false end = true ->
  dead c (a_now a) r = true ->
  a_map (fst (a_step c a o)) i = None.
Proof.
  intros Hb Hn Hi Hgc Hd. pose proof (bounded_defined _ _ _ _ Hb Hn Hi) as Hlt.
  destruct o; try discriminate; cbn [a_step].
  - apply andb_prop in Hgc. destruct Hgc as [-> ->]. abs_simpl. unfold a_gc, upd.
    assert (i =? a_next a = false) as -> by lia. now rewrite Hi, Hd.
  - abs_simpl. unfold a_gc. now rewrite Hi, Hd.
Qed.

Theorem collected_never_returned c t0 ops1 o i r ops2 :
  let s := state_after c t0 ops1 in
  runs_gc s o = true -> lookup i (store s) = Some r -> dead c (now s) r = true ->
  lookup i (store (state_after c t0 (ops1 ++ o :: ops2))) = None.
Proof.
  intros s Hgc Hi Hd. rewrite state_after_app, run_cons. fold s.
  destruct (state_after_reachable c t0 ops1) as [a R]. fold s in R.
  destruct (step_refines c s a o R) as [_ R'].
  pose proof (lookup_some_lt s a i r R Hi) as Hlt.
  apply (run_none c ops2 _ _ i R').
  - rewrite (lookup_refines _ _ _ R'). rewrite (lookup_refines _ _ _ R) in Hi.
    rewrite (runs_gc_refines s a o R) in Hgc.
    destruct (refines_bounded _ _ R) as [Hb Hn].
    assert (now s = a_now a) as Hnow by (destruct R as (_ & _ & _ & _ & _ & _ & H & _); exact H).
    rewrite Hnow in Hd. now apply (a_step_gc c a o i r).
  - assert (next_id s <= next_id (fst (step c s o))); [|lia].
    destruct o; cbn [step];
      repeat match goal with
             | |- context [if ?b then _ else _] => destruct b
             | |- context [match lookup ?i ?d with _ => _ end] => destruct (lookup i d)
             end;
      cbn [fst next_id with_store]; lia.
Qed.

Theorem expired_never_returned c t0 ops1 o i r ops2 :
  let s := state_after c t0 ops1 in
  runs_gc s o = true -> lookup i (store s) = Some r -> expired (now s) r = true ->
  lookup i (store (state_after c t0 (ops1 ++ o :: ops2))) = None.
Proof.
  intros s Hgc Hi He. apply (collected_never_returned c t0 ops1 o i r ops2 Hgc Hi).
  unfold dead. fold s. now rewrite He.
Qed.

(* ---- ids_never_reused ------------------------------------------------------------ *)
Lemma step_next_mono c s o : next_id s <= next_id (fst (step c s o)).
Proof.
  destruct o; cbn [step];
    repeat match goal with
             | |- context [if ?b then _ else _] => destruct b
             | |- context [match lookup ?i ?d with _ => _ end] => destruct (lookup i d)
             end;
    cbn [fst next_id with_store]; lia.
Qed.

Lemma added_ids_sorted c ops : forall s,
  StronglySorted Z.lt (added_ids c s ops) /\ Forall (fun i => next_id s <= i) (added_ids c s ops).
Proof.
  induction ops as [|o ops IH]; intros s; cbn [added_ids].
  - split; constructor.
  - pose proof (step_next_mono c s o) as Hm.
    destruct (step c s o) as [s1 out] eqn:E. cbn [fst] in Hm.
    destruct (IH s1) as [Hs Hf].
    assert (Forall (fun i => next_id s <= i) (added_ids c s1 ops)) as Hf'.
    { eapply Forall_impl; [|exact Hf]. cbn. intros; lia. }
    destruct o; try (split; assumption).
    destruct (0 <=? hd (-1) out) eqn:E0; [|split; assumption].
    cbn [step] in E. destruct (mem (r_app r) (provs s)).
    + assert (out = [next_id s] /\ next_id s1 = next_id s + 1) as [-> Hn1].
      { destruct (gc_due s); inversion E; subst; cbn; split; reflexivity. }
      cbn [hd]. split.
      * constructor; [assumption|]. eapply Forall_impl; [|exact Hf]. cbn. intros; lia.
      * constructor; [lia|assumption].
    + inversion E; subst. cbn in E0. discriminate.
Qed.

Theorem ids_never_reused c t0 ops : StronglySorted Z.lt (added_ids c (init t0) ops).
Proof. apply added_ids_sorted. Qed.

Lemma added_id_is_next c s r i : snd (step c s (Add r)) = [i] -> 0 <= i ->
  i = next_id s /\ mem (r_app r) (provs s) = true.
Proof.
  cbn [step]. destruct (mem (r_app r) (provs s)).
  - destruct (gc_due s); cbn [snd]; intros H; inversion H; split; reflexivity.
  - cbn [snd]. intros H; inversion H. lia.
Qed.

(* ---- update_changes_only_content -------------------------------------------------- *)
Lemma lookup_update_map id typ tok db j :
  lookup j (map (fun e => if fst e =? id then (fst e, set_content (snd e) typ tok) else e) db)
  = if j =? id then option_map (fun r => set_content r typ tok) (lookup j db) else lookup j db.
Proof.
  unfold lookup. induction db as [|e db IH]; cbn [map find].
  - destruct (j =? id); reflexivity.
  - destruct (fst e =? id) eqn:E1; cbn [fst snd].
    + destruct (fst e =? j) eqn:E2.
      * assert (j =? id = true) as -> by lia. reflexivity.
      * exact IH.
    + destruct (fst e =? j) eqn:E2.
      * assert (j =? id = false) as -> by lia. reflexivity.
      * exact IH.
Qed.

Lemma lookup_delete_filter id db j :
  lookup j (filter (fun e => negb (fst e =? id)) db) = if j =? id then None else lookup j db.
Proof.
  unfold lookup. induction db as [|e db IH]; cbn [filter find].
  - destruct (j =? id); reflexivity.
  - destruct (fst e =? id) eqn:E1; cbn [negb find].
    + rewrite IH. destruct (j =? id) eqn:E2; [reflexivity|].
      assert (fst e =? j = false) as -> by lia. reflexivity.
    + destruct (fst e =? j) eqn:E2; [|exact IH].
      assert (j =? id = false) as -> by lia. reflexivity.
Qed.

Theorem update_changes_only_content c s aid i typ tok :
  let s' := fst (step c s (Update aid i typ tok)) in
  let out := snd (step c s (Update aid i typ tok)) in
  (out = [0] ->
     (exists r, lookup i (store s) = Some r /\ lookup i (store s') = Some (set_content r typ tok)) /\
     (forall j, j <> i -> lookup j (store s') = lookup j (store s)) /\
     provs s' = provs s /\ conss s' = conss s /\ next_id s' = next_id s /\ now s' = now s) /\
  (out <> [0] -> s' = s).
Proof.
  cbn [step]. destruct (lookup i (store s)) as [r|] eqn:E.
  - destruct (valid_type typ && (r_typ r =? typ)); cbn [fst snd].
    + split; [intros _|intros H; now contradiction H].
      unfold with_store; cbn [store provs conss next_id now]. repeat split.
      * exists r. split; [reflexivity|]. rewrite lookup_update_map, Z.eqb_refl, E. reflexivity.
      * intros j Hj. rewrite lookup_update_map. assert (j =? i = false) as -> by lia. reflexivity.
    + split; [intros H; discriminate|reflexivity].
  - cbn [fst snd]. split; [intros H; discriminate|reflexivity].
Qed.

(* ---- frame -------------------------------------------------------------------------- *)
Lemma a_gc_cases c t m j :
  a_gc c t m j = m j \/ (a_gc c t m j = None /\ exists rj, m j = Some rj /\ dead c t rj = true).
Proof.
  unfold a_gc. destruct (m j) as [rj|]; [|now left].
  destruct (dead c t rj) eqn:E; [right|now left]. split; [reflexivity|]. now exists rj.
Qed.

Lemma frame_reachable c s a o : refines s a -> frame_stmt c s o.
Proof.
  intros R. unfold frame_stmt, kept_or_collected.
  destruct o as [aid perms|aid|aid perms|aid|r|aid id typ tok|aid id|aid prio types|ms|].
  - cbn [step]. destruct (reg_prov_ok aid perms); cbn [fst store next_id conss provs]; repeat split.
    intros x Hx. rewrite mem_set_add. assert (x =? aid = false) as -> by lia. reflexivity.
  - cbn [step]. destruct (mem aid (provs s)); cbn [fst store next_id conss provs]; repeat split.
    intros x Hx. rewrite mem_set_del. assert (x =? aid = false) as -> by lia. reflexivity.
  - cbn [step]. destruct (reg_cons_ok aid perms); cbn [fst store next_id conss provs]; repeat split.
    intros x Hx. rewrite mem_set_add. assert (x =? aid = false) as -> by lia. reflexivity.
  - cbn [step]. destruct (mem aid (conss s)); cbn [fst store next_id conss provs]; repeat split.
    intros x Hx. rewrite mem_set_del. assert (x =? aid = false) as -> by lia. reflexivity.
  - (* Add: through the abstract map *)
    destruct (step_refines c s a (Add r) R) as [_ R'].
    split; [|cbn [step]; destruct (mem (r_app r) (provs s)); [destruct (gc_due s)|]; cbn [fst provs conss]; split; reflexivity].
    intros j Hj.
    rewrite (lookup_refines _ _ _ R'), (lookup_refines _ _ _ R), (runs_gc_refines s a _ R).
    assert (now s = a_now a) as -> by (destruct R as (_ & _ & _ & _ & _ & _ & H & _); exact H).
    rewrite (refines_next _ _ R) in Hj.
    cbn [a_step]. destruct (a_prov a (r_app r)); [|now left].
    destruct (a_gc_due a); abs_simpl.
    + destruct (a_gc_cases c (a_now a) (upd (a_map a) (a_next a) (Some r)) j) as [H|(H & rj & H1 & H2)].
      * left. rewrite H. unfold upd. assert (j =? a_next a = false) as -> by lia. reflexivity.
      * right. split; [exact H|]. split; [reflexivity|]. exists rj. split; [|exact H2].
        unfold upd in H1. assert (j =? a_next a = false) as E by lia. now rewrite E in H1.
    + left. unfold upd. assert (j =? a_next a = false) as -> by lia. reflexivity.
  - pose proof (update_changes_only_content c s aid id typ tok) as [H1 H2]. cbn zeta in H1, H2.
    destruct (list_eq_dec Z.eq_dec (snd (step c s (Update aid id typ tok))) [0]) as [E|E].
    + destruct (H1 E) as (_ & Hf & Hp & Hc & Hn & _). repeat split; assumption.
    + rewrite (H2 E). repeat split; reflexivity.
  - cbn [step]. destruct (has_id id (store s)); cbn [fst with_store store provs conss next_id]; repeat split.
    intros j Hj. rewrite lookup_delete_filter. assert (j =? id = false) as -> by lia. reflexivity.
  - cbn [step]. repeat match goal with |- context [if ?b then _ else _] => destruct b end;
      cbn [fst]; repeat split; reflexivity.
  - cbn [step fst store next_id provs conss]. repeat split; reflexivity.
  - destruct (step_refines c s a Maintain R) as [_ R'].
    split; [|cbn [step fst with_store provs conss next_id]; repeat split; reflexivity].
    intros j.
    rewrite (lookup_refines _ _ _ R'), (lookup_refines _ _ _ R).
    assert (now s = a_now a) as -> by (destruct R as (_ & _ & _ & _ & _ & _ & H & _); exact H).
    cbn [a_step runs_gc]. abs_simpl.
    destruct (a_gc_cases c (a_now a) (a_map a) j) as [H|(H & rj & H1 & H2)]; [now left|].
    right. split; [exact H|]. split; [reflexivity|]. now exists rj.
Qed.

Theorem frame c t0 ops o : frame_stmt c (state_after c t0 ops) o.
Proof. destruct (state_after_reachable c t0 ops) as [a R]. now apply (frame_reachable c _ a). Qed.

(* ---- unregistered_refused_without_effect ----------------------------------------------- *)
Theorem unregistered_refused_partial c s o :
  gated o = true -> by_unregistered s o = true ->
  fst (step c s o) = s /\
  snd (step c s o) = match o with Add _ => [-1] | _ => [1] end.
Proof.
  destruct o; cbn [gated]; try discriminate; intros _; cbn [by_unregistered step]; intros H.
  - apply negb_true_iff in H. rewrite H. split; reflexivity.
  - rewrite H. split; reflexivity.
Qed.

(* registration attempts that do not pass the checks have no effect either *)
Theorem invalid_registration_refused c s aid perms :
  (reg_prov_ok aid perms = false -> step c s (RegProv aid perms) = (s, [1])) /\
  (reg_cons_ok aid perms = false -> step c s (RegCons aid perms) = (s, [2])).
Proof. split; intros H; cbn [step]; now rewrite H. Qed.

(* ---- requests: exactly the stored objects of the selected types ---------------------- *)
Lemma in_select types db r :
  In r (select types db) <-> exists i, In (i, r) db /\ mem (r_typ r) types = true.
Proof.
  unfold select. rewrite in_map_iff. split.
  - intros ([i r'] & E & Hin). cbn in E. subst r'. apply filter_In in Hin. cbn in Hin. now exists i.
  - intros (i & Hin & Hm). exists (i, r). split; [reflexivity|]. apply filter_In. now split.
Qed.

Theorem request_exact c t0 ops aid prio types :
  let s := state_after c t0 ops in
  mem aid (conss s) = true -> forallb valid_type types = true -> prio_ok prio = true ->
  step c s (Request aid prio types) = (s, 0 :: flat_map flat_rec (select types (store s))) /\
  (forall r, In r (select types (store s)) <->
             exists i, lookup i (store s) = Some r /\ mem (r_typ r) types = true).
Proof.
  intros s Hc Ht Hp. split.
  - cbn [step]. now rewrite Hc, Ht, Hp.
  - intros r. rewrite in_select.
    destruct (state_after_reachable c t0 ops) as [a R]. fold s in R.
    split; intros (i & H1 & H2); exists i; (split; [|exact H2]).
    + rewrite (lookup_refines _ _ _ R). destruct R as (Hst & _). rewrite Hst in H1.
      now apply in_aenum in H1.
    + rewrite (lookup_refines _ _ _ R) in H1. destruct R as (Hst & Hb & _ & Hn & _). rewrite Hst.
      apply in_aenum. split; [|exact H1]. now apply (bounded_defined _ _ _ r Hb).
Qed.

(* ---- added_is_returned_until_gone ---------------------------------------------------- *)
Lemma set_content_eta r : set_content r (r_typ r) (r_tok r) = r.
Proof. now destruct r. Qed.

Lemma dead_set_content c t r ty tk : dead c t (set_content r ty tk) = dead c t r.
Proof. reflexivity. Qed.

Lemma lookup_some_in i db r : lookup i db = Some r -> In (i, r) db.
Proof.
  unfold lookup. destruct (find (fun e => fst e =? i) db) as [e|] eqn:E; [|discriminate].
  intros H. inversion H; subst. apply find_some in E. destruct E as [Hin He].
  apply Z.eqb_eq in He. subst i. now rewrite pair_eta.
Qed.

Lemma a_step_keeps c a o i r ty tk : bounded (a_map a) (a_next a) -> 0 <= a_next a ->
  a_map a i = Some (set_content r ty tk) ->
  match o with Delete _ j => j <> i | _ => True end ->
  (match o with Add r0 => a_prov a (r_app r0) && a_gc_due a | Maintain => true | _ => false end = true ->
   dead c (a_now a) r = false) ->
  let ct := content_step i o (snd (a_step c a o)) (ty, tk) in
  a_map (fst (a_step c a o)) i = Some (set_content r (fst ct) (snd ct)).
Proof.
  intros Hb Hn Hi Hdel Hgc. pose proof (bounded_defined _ _ _ _ Hb Hn Hi) as Hlt.
  destruct o as [aid perms|aid|aid perms|aid|r0|aid id typ tok|aid id|aid prio types|ms|];
    cbn [a_step content_step].
  - destruct (reg_prov_ok aid perms); exact Hi.
  - destruct (a_prov a aid); exact Hi.
  - destruct (reg_cons_ok aid perms); exact Hi.
  - destruct (a_cons a aid); exact Hi.
  - destruct (a_prov a (r_app r0)) eqn:Ep; [|exact Hi].
    destruct (a_gc_due a) eqn:Eg; abs_simpl; unfold a_gc, upd;
      assert (i =? a_next a = false) as -> by lia; rewrite Hi; [|reflexivity].
    rewrite dead_set_content, Hgc; reflexivity.
  - destruct (id =? i) eqn:E.
    + apply Z.eqb_eq in E. subst id. rewrite Hi.
      destruct (valid_type typ && (r_typ (set_content r ty tk) =? typ));
        abs_simpl; cbn [hd andb Z.eqb fst snd].
      * unfold upd. now rewrite Z.eqb_refl.
      * exact Hi.
    + cbn [andb fst snd]. destruct (a_map a id) as [r1|];
        [destruct (valid_type typ && (r_typ r1 =? typ))|];
        abs_simpl; try exact Hi.
      unfold upd. assert (i =? id = false) as -> by lia. exact Hi.
  - destruct (a_map a id); abs_simpl; [|exact Hi].
    unfold upd. assert (i =? id = false) as -> by lia. exact Hi.
  - repeat match goal with |- context [if ?b then _ else _] => destruct b end; exact Hi.
  - exact Hi.
  - abs_simpl. unfold a_gc. rewrite Hi, dead_set_content, Hgc; reflexivity.
Qed.

Lemma undisturbed_dead zone c i r s o ops : zone = true ->
  undisturbed zone c i r s (o :: ops) -> runs_gc s o = true -> dead c (now s) r = false.
Proof.
  intros -> (_ & H & _) Hg. destruct (H Hg) as [H1 H2]. unfold dead. now rewrite H1, H2.
Qed.

Lemma run_keeps c ops : forall s a i r ty tk, refines s a ->
  lookup i (store s) = Some (set_content r ty tk) ->
  undisturbed true c i r s ops ->
  let ct := content_after c i s ops (ty, tk) in
  lookup i (store (fst (run c s ops))) = Some (set_content r (fst ct) (snd ct)).
Proof.
  induction ops as [|o ops IH]; intros s a i r ty tk R Hi Hu.
  - exact Hi.
  - cbn zeta. rewrite run_cons. cbn [content_after].
    destruct (step_refines c s a o R) as [Hout R'].
    pose proof (undisturbed_dead true c i r s o ops eq_refl Hu) as Hd.
    destruct Hu as (Hdel & _ & Hu).
    destruct (refines_bounded _ _ R) as [Hb Hn].
    assert (now s = a_now a) as Hnow by (destruct R as (_ & _ & _ & _ & _ & _ & H & _); exact H).
    rewrite (runs_gc_refines s a o R), Hnow in Hd.
    rewrite (lookup_refines _ _ _ R) in Hi.
    pose proof (a_step_keeps c a o i r ty tk Hb Hn Hi Hdel Hd) as Hk. cbn zeta in Hk.
    rewrite <- Hout in Hk. rewrite <- (lookup_refines _ _ _ R') in Hk.
    destruct (step c s o) as [s1 out] eqn:E. cbn [fst snd] in *.
    destruct (content_step i o out (ty, tk)) as [ty' tk'] eqn:Ec. cbn [fst snd] in Hk.
    exact (IH s1 _ i r ty' tk' R' Hk Hu).
Qed.

Theorem added_is_returned_until_gone : added_returned_stmt true.
Proof.
  intros c t0 ops1 r ops2 s1 i Hreg Hu s3 ct.
  destruct (state_after_reachable c t0 ops1) as [a R]. fold s1 in R.
  assert (snd (step c s1 (Add r)) = [i]) as Hout.
  { cbn [step]. rewrite Hreg. destruct (gc_due s1); reflexivity. }
  split; [exact Hout|].
  assert (lookup i (store s3) = Some (set_content r (fst ct) (snd ct))) as Hl.
  { unfold s3, ct. rewrite state_after_app. fold s1. rewrite run_cons. cbn [content_after].
    destruct (step_refines c s1 a (Add r) R) as [_ R'].
    pose proof (undisturbed_dead true c i r s1 (Add r) ops2 eq_refl Hu) as Hd.
    destruct Hu as (_ & _ & Hu).
    assert (lookup i (store (fst (step c s1 (Add r)))) = Some (set_content r (r_typ r) (r_tok r))) as Hi.
    { rewrite set_content_eta, (lookup_refines _ _ _ R').
      rewrite (runs_gc_refines s1 a _ R) in Hd.
      assert (now s1 = a_now a) as Hnow by (destruct R as (_ & _ & _ & _ & _ & _ & H & _); exact H).
      rewrite Hnow in Hd. unfold i. rewrite (refines_next _ _ R).
      assert (a_prov a (r_app r) = true) as Hp.
      { destruct R as (_ & _ & _ & _ & Hp & _). now rewrite <- Hp. }
      cbn [a_step]. rewrite Hp in *. cbn [andb] in Hd.
      destruct (a_gc_due a); abs_simpl; unfold a_gc, upd; rewrite Z.eqb_refl; [|reflexivity].
      now rewrite Hd. }
    destruct (step c s1 (Add r)) as [s2 out] eqn:E. cbn [fst snd content_step] in *.
    exact (run_keeps c ops2 s2 _ i r (r_typ r) (r_tok r) R' Hi Hu). }
  split; [exact Hl|].
  intros aid prio types Hc Ht Hp Hm.
  exists (select types (store s3)). split.
  - cbn [step]. now rewrite Hc, Ht, Hp.
  - apply in_select. exists i. split; [now apply lookup_some_in|exact Hm].
Qed.

(* without the deletion-zone hypothesis the clause is false: an unexpired object next to the
   LDM's own position is collected (known finding KF-C12-1) *)
Definition kf1_cfg := mkCfg 0 0 1000 1.
Definition kf1_rec := mkRec 2 1000000 3 4 1000 0 600 1 110.

Theorem added_is_returned_refuted : ~ added_returned_stmt false.
Proof.
  intros H.
  specialize (H kf1_cfg 1000000 [RegProv 2 [2]] kf1_rec [Maintain]).
  cbn zeta in H.
  assert (mem (r_app kf1_rec) (provs (state_after kf1_cfg 1000000 [RegProv 2 [2]])) = true) as H1
    by (vm_compute; reflexivity).
  assert (undisturbed false kf1_cfg (next_id (state_after kf1_cfg 1000000 [RegProv 2 [2]])) kf1_rec
            (state_after kf1_cfg 1000000 [RegProv 2 [2]]) [Add kf1_rec; Maintain]) as H2.
  { cbn [undisturbed]. repeat split; try (intros E; vm_compute in E; discriminate);
      try (vm_compute; reflexivity); try (intros E; discriminate). }
  destruct (H H1 H2) as (_ & Hl & _). vm_compute in Hl. discriminate.
Qed.

(* ---- unregistered update / delete are carried out (known finding KF-C12-2) --------------- *)
Theorem unregistered_refused_gated : unregistered_refused_stmt true.
Proof.
  intros c t0 ops o s Hg Hu. now apply (unregistered_refused_partial c s o (Hg eq_refl) Hu).
Qed.

Theorem unregistered_refused_refuted : ~ unregistered_refused_stmt false.
Proof.
  intros H.
  specialize (H kf1_cfg 1000000 [RegProv 2 [2]; Add (mkRec 2 1000000 5000000 0 1000 0 50 2 7)] (Delete 36 0)).
  cbn zeta in H.
  assert (store (fst (step kf1_cfg (state_after kf1_cfg 1000000 [RegProv 2 [2]; Add (mkRec 2 1000000 5000000 0 1000 0 50 2 7)])
                       (Delete 36 0)))
          = store (state_after kf1_cfg 1000000 [RegProv 2 [2]; Add (mkRec 2 1000000 5000000 0 1000 0 50 2 7)])) as E.
  { f_equal. apply H; [intros E; discriminate|vm_compute; reflexivity]. }
  vm_compute in E. discriminate.
Qed.
