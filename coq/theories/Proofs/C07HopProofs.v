(* C07 - the last permitted hop: a GeoBroadcast / GeoAnycast packet that arrives with remaining hop limit <= 1 is
   never forwarded (neither sent nor put into the CBF buffer) - and is delivered all the same exactly when the
   station is inside (gbc_delivered_iff_inside / gac_delivered_iff_inside hold for every basic header). *)
From FlexVerif Require Import Base.Prelude Model.Wire Model.LocT Model.Router Proofs.RouterProofs.
From Coq Require Import ZifyBool.

Theorem gbc_last_hop_not_forwarded m s now g bv cv body p : arg 5 bv <= 1 ->
  ~ In (OFwd p) (snd (rx_gbc m s now g bv cv body)) /\
  (s_cbf (fst (rx_gbc m s now g bv cv body)) = s_cbf s \/
   exists k, s_cbf (fst (rx_gbc m s now g bv cv body)) = cbf_remove (s_cbf s) k).
Proof.
  intros L. assert (E : (0 <? arg 5 bv - 1) = false) by lia.
  unfold rx_gbc. cbv zeta. rewrite E. cbn [negb].
  repeat match goal with
         | |- context [match ?x with _ => _ end] => destruct x eqn:?
         end; cbn [fst snd s_cbf set_cbf set_loct];
  (split; [intros H; in_cases H; discriminate | first [left; reflexivity | right; eexists; reflexivity]]).
Qed.

Theorem gac_last_hop_not_forwarded m s now g bv cv body p : arg 5 bv <= 1 ->
  ~ In (OFwd p) (snd (rx_gac m s now g bv cv body)) /\ s_cbf (fst (rx_gac m s now g bv cv body)) = s_cbf s.
Proof.
  intros L. assert (E : (arg 5 bv - 1 <=? 0) = true) by lia.
  unfold rx_gac. cbv zeta. rewrite E.
  repeat match goal with
         | |- context [match ?x with _ => _ end] => destruct x eqn:?
         end; cbn [fst snd s_cbf set_cbf set_loct];
  (split; [intros H; in_cases H; discriminate | reflexivity]).
Qed.

(* delivery on the last hop, stated for the record: inside -> the indication is among the outputs although nothing is forwarded *)
Theorem gbc_last_hop_delivered m s now g bv cv body h t : arg 5 bv <= 1 ->
  dec_gbc body = Some h -> zero_area (arg 2 cv) h = false ->
  lookup_ins (g_ins g) (pv_lat (s_ego s)) (pv_lon (s_ego s)) = Some true ->
  mid_eqb (pv_addr (firstn 9 (skipn 2 h))) (m_addr m) = false ->
  rx_mh (s_loct s) (firstn 9 (skipn 2 h)) (arg 0 h) now (m_life_ms m) (m_dpl_len m) = Some t ->
  snd (rx_gbc m s now g bv cv body) = [OInd (ind_hdr cv bv (firstn 9 (skipn 2 h)) (gbc_area h) 4 (arg 2 cv)) (skipn 44 body)].
Proof.
  intros L D Z I A R. assert (E : (0 <? arg 5 bv - 1) = false) by lia.
  unfold rx_gbc. cbv zeta. rewrite D, Z, I, A, R, E. cbn [negb].
  destruct (g_big g); reflexivity.
Qed.
