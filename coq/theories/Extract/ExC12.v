From FlexVerif Require Import Model.Ldm.
Require Extraction.
Require Import ExtrOcamlBasic.
Extraction Language OCaml.
Extraction "c12_model.ml" Ldm.dispatch.
