From FlexVerif Require Import Model.Sec.
Require Extraction.
Require Import ExtrOcamlBasic.
Extraction Language OCaml.
Extraction "c09_model.ml" Sec.dispatch.
