From FlexVerif Require Import Model.Den.
Require Extraction.
Require Import ExtrOcamlBasic.
Extraction Language OCaml.
Extraction "c17_model.ml" Den.dispatch.
