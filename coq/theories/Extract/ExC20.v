From FlexVerif Require Import Model.Lifetime.
Require Extraction.
Require Import ExtrOcamlBasic.
Extraction Language OCaml.
Extraction "c20_model.ml" Lifetime.dispatch.
