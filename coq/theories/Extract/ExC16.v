From FlexVerif Require Import Model.LdmConc.
Require Extraction.
Require Import ExtrOcamlBasic.
Extraction Language OCaml.
Extraction "c16_model.ml" LdmConc.dispatch.
