From FlexVerif Require Import Model.Cluster.
Require Extraction.
Require Import ExtrOcamlBasic.
Extraction Language OCaml.
Extraction "c18_model.ml" Cluster.dispatch.
