From FlexVerif Require Import Model.Sec.
Require Extraction.
Require Import ExtrOcamlBasic.
Extraction Language OCaml.
Extraction "c03_model.ml" Sec.dispatch.
