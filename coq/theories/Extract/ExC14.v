From FlexVerif Require Import Model.LdmSub.
Require Extraction.
Require Import ExtrOcamlBasic.
Extraction Language OCaml.
Extraction "c14_model.ml" LdmSub.dispatch.
