From FlexVerif Require Import Model.LdmSub Model.LdmSubReact.
Require Extraction.
Require Import ExtrOcamlBasic.
Extraction Language OCaml.
Extraction "c14_model.ml" LdmSubReact.dispatch.
