From FlexVerif Require Import Model.LdmFilter.
Require Extraction.
Require Import ExtrOcamlBasic.
Extraction Language OCaml.
Extraction "c13_model.ml" LdmFilter.dispatch.
