From FlexVerif Require Import Base.Prelude Model.FieldMap.
Require Extraction.
Require Import ExtrOcamlBasic.
Extraction Language OCaml.

Definition dispatch (cmd : Z) (a : list Z) : list Z := fm_dispatch cmd a.

Extraction "c11_model.ml" dispatch.
