From FlexVerif Require Import Base.Prelude Model.CamGen Model.VamGen Model.CamPath.
Require Extraction.
Require Import ExtrOcamlBasic.
Extraction Language OCaml.

(* cmd 1: CAM op stream (see Model/CamGen.v)   cmd 2: VAM report stream (see Model/VamGen.v)
   cmd 3: path-history stream of the CAM low-frequency container (see Model/CamPath.v) *)
Definition dispatch (cmd : Z) (a : list Z) : list Z :=
  if cmd =? 1 then cam_dispatch a else if cmd =? 2 then vam_dispatch a
  else if cmd =? 3 then path_dispatch a else [].

Extraction "c10_model.ml" dispatch.
