From FlexVerif Require Import Model.RouterIO.
Require Extraction.
Require Import ExtrOcamlBasic.
Extraction Language OCaml.
Extraction "router_model.ml" RouterIO.dispatch.
