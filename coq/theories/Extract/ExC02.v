From FlexVerif Require Import Model.Wire.
Require Extraction.
Require Import ExtrOcamlBasic.
Extraction Language OCaml.
Extraction "c02_model.ml" Wire.dispatch.
