From FlexVerif Require Import Model.Sec Model.SecListen.
Require Extraction.
Require Import ExtrOcamlBasic.
Extraction Language OCaml.
Extraction "c05_model.ml" SecListen.dispatch.
