From FlexVerif Require Import Model.Dcc.
Require Extraction.
Require Import ExtrOcamlBasic.
Extraction Language OCaml.
Extraction "c19_model.ml" Dcc.dispatch.
