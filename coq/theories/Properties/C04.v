(* C04 - no received frame can stop or derail the receive path.
   In the model the receive function is total: "does not raise" is carried by the correspondence check
   (the implementation must return normally wherever the model discards); the theorems state that a frame
   which does not parse or fails a header check has NO effect: state unchanged, nothing sent or delivered. *)
From FlexVerif Require Import Base.Prelude Model.LocT Model.Wire Model.Router Proofs.RouterProofs.

Theorem C04_malformed_frame_has_no_effect : forall m s now g pkt, malformed m pkt ->
  exists r, rx m s now g pkt = (s, [ODiscard r]).
Proof. exact malformed_no_effect. Qed.
Print Assumptions C04_malformed_frame_has_no_effect.

(* hence every later frame is processed exactly as if the bad frame had never been received *)
Theorem C04_as_if_never_received : forall m s now g bad later, malformed m bad ->
  step m (fst (rx m s now g bad)) later = step m s later.
Proof.
  intros m s now g bad later H. destruct (malformed_no_effect m s now g bad H) as [r ->]. reflexivity.
Qed.
Print Assumptions C04_as_if_never_received.

Theorem C04_own_frames_ignored : forall m s now g pkt a, so_addr pkt = Some a -> mid_eqb a (m_addr m) = true ->
  fst (rx m s now g pkt) = s /\ quiet (snd (rx m s now g pkt)).
Proof. exact own_packet_ignored. Qed.
Print Assumptions C04_own_frames_ignored.

(* non-vacuity: truncated frame, wrong version, RHL above MHL, unknown header type *)
Example C04_example :
  let m := mkMib [0; 5; 99] 1 60 10 8 20000 1 10 in
  malformed m [17; 0; 241] /\ malformed m [33; 0; 241; 1; 0; 80; 0; 128; 0; 0; 1; 0] /\
  malformed m ([17; 0; 241; 5; 32; 80; 0; 128; 0; 0; 1; 0] ++ repeat 0 28) /\
  malformed m [17; 0; 241; 1; 32; 112; 0; 128; 0; 0; 1; 0].
Proof.
  vm_compute. split; [exact I|]. split; [left; intros H; discriminate H|].
  split; [right; right; left; reflexivity|]. right; right; exact I.
Qed.
