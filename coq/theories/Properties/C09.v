(* C09 - Trust store closure and signer authorisation.
   Audited statements only; proofs are in Proofs/SecProofs.v, the notions used here
   (cert_ok, contained, anchored, chain, configured_roots, signer_names,
   accepted_under, budget_ok) are defined in Model/SecSpec.v, the model in Model/Sec.v.

   All theorems quantify over the cryptographic oracles: hash8 (HashedId8 of a
   certificate), sig_ok (ECDSA verification), sign and enc_tbs. Nothing is assumed
   about them: "accepted" is reduced to "sig_ok returned true on exactly these
   identifiers". *)
From FlexVerif Require Import Base.Prelude Model.Sec Model.SecSpec Proofs.SecProofs.

(* Clause 1. After ANY sequence of API calls (add root / AA / AT / own certificate,
   verify chain, received messages, issuing, signing, received frames) every member of
   the trusted authorities and of the known tickets is linked, by cert_ok links
   (issuer digest, permissions contained, signature accepted by the oracle), to a
   certificate that was configured through add_root_certificate. *)
Theorem C09_store_closed :
  forall (hash8 : cert -> Z) (sig_ok : Z -> Z -> Z -> bool) (sign : Z -> Z -> Z) (enc_tbs : tbsdata -> Z)
         (ops : list op) (e : entry),
    In e (aas (st_store (final hash8 sig_ok sign enc_tbs init_station ops))) \/
    In e (ats (st_store (final hash8 sig_ok sign enc_tbs init_station ops))) ->
    anchored hash8 sig_ok (configured_roots hash8 sig_ok ops) (e_cert e).
Proof. exact store_closed. Qed.
Print Assumptions C09_store_closed.

(* the trusted roots themselves are exactly certificates configured by the operator *)
Theorem C09_roots_are_configured :
  forall (hash8 : cert -> Z) (sig_ok : Z -> Z -> Z -> bool) (sign : Z -> Z -> Z) (enc_tbs : tbsdata -> Z)
         (ops : list op) (e : entry),
    In e (roots (st_store (final hash8 sig_ok sign enc_tbs init_station ops))) ->
    In (e_cert e) (configured_roots hash8 sig_ok ops).
Proof. exact roots_configured. Qed.
Print Assumptions C09_roots_are_configured.

(* when HashedId8 has no collisions the links are between the certificates themselves *)
Theorem C09_chain_if_collision_free :
  forall (hash8 : cert -> Z) (sig_ok : Z -> Z -> Z -> bool) (R : list cert) (c : cert),
    (forall a b, hash8 a = hash8 b -> a = b) ->
    anchored hash8 sig_ok R c -> chain hash8 sig_ok R c.
Proof. exact anchored_chain. Qed.
Print Assumptions C09_chain_if_collision_free.

(* Clause 2. A message is reported SUCCESS, after any history, only if the ticket named
   by its signer field is in the (closed) store, is chained to a configured root,
   has the authorization ticket profile, lists the message's ITS-AID among its
   application permissions, is valid at the generation time, the oracle accepted the
   signature over the message's to-be-signed bytes under the ticket's key, and the
   payload handed back is the one inside those bytes. *)
Theorem C09_verify_authorised :
  forall (hash8 : cert -> Z) (sig_ok : Z -> Z -> Z -> bool) (sign : Z -> Z -> Z) (enc_tbs : tbsdata -> Z)
         (ops : list op) (m : msg) (sn' : station) (certid p : Z),
    verify_msg hash8 sig_ok (final hash8 sig_ok sign enc_tbs init_station ops) m
      = (sn', RVerify R_SUCCESS certid p) ->
    exists e : entry,
      In e (ats (st_store sn')) /\
      signer_names hash8 (m_signer m) (e_cert e) /\
      anchored hash8 sig_ok (configured_roots hash8 sig_ok ops) (e_cert e) /\
      is_at (e_cert e) = true /\
      accepted_under sig_ok (e_cert e) m p /\
      certid = hash8 (e_cert e).
Proof. exact verify_authorised_history. Qed.
Print Assumptions C09_verify_authorised.

(* Clause 3. Issuing API: a request that did not verify under the issuer comes back
   verifying only if it was signed by this call, its permissions are contained in the
   issuer's issuing permissions and every remaining chain length of the issuer is >= 1. *)
Theorem C09_issue_sound :
  forall (hash8 : cert -> Z) (sig_ok : Z -> Z -> Z -> bool)
         (req i : cert) (nd nt ns : Z) (c' : cert) (signed : bool),
    cissuer req <> IssSelf ->
    issue hash8 req i nd nt ns = RCert c' signed ->
    cert_verify hash8 sig_ok req (Some i) <> Some true ->
    cert_verify hash8 sig_ok c' (Some i) = Some true ->
    signed = true /\ contained req i /\ budget_ok i.
Proof. exact issue_sound. Qed.
Print Assumptions C09_issue_sound.

(* a refused request is handed back untouched (still unsigned if it was a template) *)
Theorem C09_issue_refused_unchanged :
  forall (hash8 : cert -> Z) (req i : cert) (nd nt ns : Z) (c' : cert),
    issue hash8 req i nd nt ns = RCert c' false -> c' = req.
Proof. exact issue_refused. Qed.
Print Assumptions C09_issue_refused_unchanged.

(* the certificate that is issued has permissions contained in the issuer's ... *)
Theorem C09_issued_permissions_contained :
  forall (hash8 : cert -> Z) (req i : cert) (nd nt ns : Z) (c' : cert),
    cissuer req <> IssSelf ->
    issue hash8 req i nd nt ns = RCert c' true -> contained c' i.
Proof. exact issued_contained. Qed.
Print Assumptions C09_issued_permissions_contained.

(* ... and each of its own issuing entries carries a chain length one below an entry
   of the issuer, still at least one: the budget strictly decreases along a chain *)
Theorem C09_issued_chain_budget_decreases :
  forall (req i : cert) (il ip : list perm_entry) (pe' : perm_entry),
    cissue i = Some il -> set_chain req i = Some (Some ip) -> In pe' ip ->
    1 <= pe_chain pe' /\
    exists pe, In pe il /\ pe_chain pe' = pe_chain pe - 1 /\
      (has_all i = false -> pe_sub pe' = pe_sub pe /\ exists ps, pe_sub pe = PExplicit ps).
Proof. exact set_chain_entries. Qed.
Print Assumptions C09_issued_chain_budget_decreases.

(* ---- non-vacuity: a concrete root / AA / AT history under a table oracle ---- *)
Definition ex_sig (k t s : Z) : bool :=
  table_sig_ok [(1, 101, 201); (1, 102, 202); (2, 103, 203); (3, 900, 950)] k t s.
Definition ex_root := mkCert 1 11 IssSelf false (Some [36]) (Some [mkPE PAll 2]) 0 1000 1 201 101 true true.
Definition ex_aa := mkCert 2 12 (IssDigest 11) false (Some [36]) (Some [mkPE (PExplicit [36; 37]) 1]) 0 1000 2 202 102 true true.
Definition ex_at := mkCert 3 13 (IssDigest 12) true (Some [36; 37]) None 100 900 3 203 103 true true.
Definition ex_ops := [OAddRoot ex_root None; OAddAA ex_aa (Some ex_root); OAddAT ex_at (Some ex_aa)].
Definition ex_msg (psid g : Z) :=
  mkMsg true (SDigest 13) (mkTbs psid (Some g) false false false false false None None 7) 900 950.

Example C09_example_store :
  let st := st_store (final model_hash8 ex_sig model_sign model_enc init_station ex_ops) in
  map e_cert (roots st) = [ex_root] /\ map e_cert (aas st) = [ex_aa] /\ map e_cert (ats st) = [ex_at].
Proof. vm_compute. repeat split. Qed.

Example C09_example_verify :
  let sn := final model_hash8 ex_sig model_sign model_enc init_station ex_ops in
  snd (verify_msg model_hash8 ex_sig sn (ex_msg 36 500)) = RVerify R_SUCCESS 13 7 /\
  snd (verify_msg model_hash8 ex_sig sn (ex_msg 638 500)) = RVerify R_INVALID_CERTIFICATE 13 0 /\
  snd (verify_msg model_hash8 ex_sig sn (ex_msg 36 99)) = RVerify R_INVALID_TIMESTAMP 13 0 /\
  snd (verify_msg model_hash8 ex_sig sn (ex_msg 36 901)) = RVerify R_INVALID_TIMESTAMP 13 0.
Proof. vm_compute. repeat split. Qed.

(* an escalated authority ('all' under an explicit issuer, genuinely signed) stays out *)
Example C09_example_escalation :
  let bad := mkCert 4 14 (IssDigest 12) false (Some [36]) (Some [mkPE PAll 1]) 0 1000 4 204 104 true true in
  let sg := table_sig_ok [(1, 101, 201); (1, 102, 202); (2, 104, 204)] in
  map e_cert (aas (st_store (final model_hash8 sg model_sign model_enc init_station
     [OAddRoot ex_root None; OAddAA ex_aa (Some ex_root); OAddAA bad (Some ex_aa)]))) = [ex_aa].
Proof. vm_compute. reflexivity. Qed.
