(* C20 - Packet lifetime and hop budget on the wire honour the request.
   This file holds only the audited statements; proofs are in Proofs/LifetimeProofs.v. *)
From FlexVerif Require Import Base.Prelude Model.Lifetime Proofs.LifetimeProofs Gen.SrcGeonet Proofs.SrcLifetimeEquiv.

(* Full statement of the "largest representable" clause. It is FALSE of the model
   (and of the code) from 1 000 000 ms upwards: see C20_lt_max_refuted. *)
Definition C20_lt_max_full : Prop :=
  forall v m b, 0 <= v -> 0 <= m <= 63 -> 0 <= b <= 3 ->
    lt_value m b <= v -> lt_value m b <= lt_enc_value v.

Theorem C20_lt_never_exceeds : forall v, 0 <= v -> lt_enc_value v <= v.
Proof. exact lt_le. Qed.
Print Assumptions C20_lt_never_exceeds.

Theorem C20_lt_max_partial : forall v m b, 0 <= v < 1000000 -> 0 <= m <= 63 -> 0 <= b <= 3 ->
  lt_value m b <= v -> lt_value m b <= lt_enc_value v.
Proof. exact lt_max_partial. Qed.
Print Assumptions C20_lt_max_partial.

Theorem C20_lt_max_refuted : ~ C20_lt_max_full.
Proof.
  intros H. specialize (H 1000000 10 3 ltac:(lia) ltac:(lia) ltac:(lia)).
  destruct lt_refuted_1e6 as [E1 E2]. rewrite E1, E2 in H. lia.
Qed.
Print Assumptions C20_lt_max_refuted.

Theorem C20_lt_nonzero_partial : forall v, 50 <= v < 1000000 -> 0 < lt_enc_value v.
Proof. exact lt_nonzero_partial. Qed.
Print Assumptions C20_lt_nonzero_partial.

Theorem C20_lt_fields_in_range : forall v, let '(m, b) := lt_encode v in 0 <= m <= 63 /\ 0 <= b <= 3.
Proof. exact lt_encode_fields. Qed.
Print Assumptions C20_lt_fields_in_range.

Theorem C20_lt_decode_is_encoded : forall v, let '(m, b) := lt_encode v in lt_of_code (lt_code m b) = (m, b).
Proof. exact lt_wire_roundtrip. Qed.
Print Assumptions C20_lt_decode_is_encoded.

Theorem C20_lt_code_roundtrip : forall c, 0 <= c < 256 -> let '(m, b) := lt_of_code c in lt_code m b = c.
Proof. exact lt_code_roundtrip. Qed.
Print Assumptions C20_lt_code_roundtrip.

Theorem C20_indicated_lifetime_le : forall m b, 0 <= m -> 0 <= b <= 3 ->
  ind_lifetime_s m b * 1000 <= lt_value m b.
Proof. exact ind_lifetime_le. Qed.
Print Assumptions C20_indicated_lifetime_le.

Theorem C20_single_hop_limits : forall kind req def, kind = 0 \/ kind = 1 -> src_hops kind req def = (1, 1).
Proof. exact src_hops_single. Qed.
Print Assumptions C20_single_hop_limits.

Theorem C20_multi_hop_limits : forall req def,
  src_hops 2 req def = if req <=? 1 then (def, def) else (req, req).
Proof. exact src_hops_multi. Qed.
Print Assumptions C20_multi_hop_limits.

Theorem C20_rx_discards_rhl_gt_mhl : forall rhl mhl, mhl < rhl -> rx_hops_ok rhl mhl = false.
Proof. exact rx_hops_discard. Qed.
Print Assumptions C20_rx_discards_rhl_gt_mhl.

(* ---- the same clauses on the functions REGENERATED FROM THE SOURCE on every run (Gen/SrcGeonet.v, tools/pyz.py):
   LT.set_value_in_millis, LT.get_value_in_millis, LT.encode_to_int, BasicHeader.encode_to_int, BasicHeader.set_rhl.
   For these functions the tie between model and code is the following equalities, for all arguments. *)
Theorem C20_source_lifetime_encoder_is_the_model : forall v, LT_set_value_in_millis v = lt_encode v.
Proof. exact src_lt_encode. Qed.
Print Assumptions C20_source_lifetime_encoder_is_the_model.

Theorem C20_source_lifetime_value_is_the_model : forall m b, 0 <= b <= 3 -> LT_get_value_in_millis m b = lt_value m b.
Proof. exact src_lt_value. Qed.
Print Assumptions C20_source_lifetime_value_is_the_model.

Theorem C20_source_basic_header_word_is_the_model : forall ver nh res m b rhl,
  BasicHeader_encode_to_int ver nh res m b rhl = bh_word ver nh res m b rhl /\ LT_encode_to_int m b = lt_code m b.
Proof. exact src_bh_word_code. Qed.
Print Assumptions C20_source_basic_header_word_is_the_model.

Theorem C20_source_decoder_reads_the_lifetime_octet : forall x, 0 <= x ->
  match BasicHeader_decode_from_int x with
  | Some (_, _, _, (m, b), _) => (m, b) = lt_of_code (Z.land (Z.shiftr x 8) 255)
  | None => True
  end.
Proof. exact src_bh_decode_lt. Qed.
Print Assumptions C20_source_decoder_reads_the_lifetime_octet.

(* the lifetime the source puts on the wire for a request of v ms: get_value_in_millis (set_value_in_millis v) *)
Theorem C20_source_lt_never_exceeds : forall v, 0 <= v -> src_wire_lifetime v <= v.
Proof. exact src_lt_le. Qed.
Print Assumptions C20_source_lt_never_exceeds.

Theorem C20_source_lt_max_partial : forall v m b, 0 <= v < 1000000 -> 0 <= m <= 63 -> 0 <= b <= 3 ->
  LT_get_value_in_millis m b <= v -> LT_get_value_in_millis m b <= src_wire_lifetime v.
Proof. exact src_lt_max_partial. Qed.
Print Assumptions C20_source_lt_max_partial.

Theorem C20_source_lt_max_refuted : src_wire_lifetime 1000000 = 0 /\ LT_get_value_in_millis 10 3 = 1000000.
Proof. exact src_lt_refuted_1e6. Qed.
Print Assumptions C20_source_lt_max_refuted.

Theorem C20_source_lt_nonzero_partial : forall v, 50 <= v < 1000000 -> 0 < src_wire_lifetime v.
Proof. exact src_lt_nonzero_partial. Qed.
Print Assumptions C20_source_lt_nonzero_partial.

Theorem C20_source_lt_fields_in_range : forall v, let '(m, b) := LT_set_value_in_millis v in 0 <= m <= 63 /\ 0 <= b <= 3.
Proof. exact src_lt_fields. Qed.
Print Assumptions C20_source_lt_fields_in_range.

Theorem C20_source_forwarded_hop_limit_is_an_octet : forall ver nh res lt rhl,
  BasicHeader_set_rhl ver nh res lt rhl = (ver, nh, res, lt, rhl mod 256).
Proof. exact src_set_rhl. Qed.
Print Assumptions C20_source_forwarded_hop_limit_is_an_octet.

Theorem C20_source_default_basic_header : forall s pv hl rhl,
  BasicHeader_initialize_with_mib_and_rhl s pv hl rhl = (1, 1, 0, req_lt s None, rhl) /\
  BasicHeader_initialize_with_mib s pv hl rhl = (pv, 1, 0, req_lt s None, hl).
Proof. exact src_bh_default_lifetime. Qed.
Print Assumptions C20_source_default_basic_header.

Theorem C20_source_default_lifetime_never_exceeds : forall s pv hl rhl, 0 <= s ->
  let '(_, _, _, (m, b), _) := BasicHeader_initialize_with_mib_and_rhl s pv hl rhl in
  LT_get_value_in_millis m b <= s * 1000.
Proof. exact src_bh_default_lifetime_le. Qed.
Print Assumptions C20_source_default_lifetime_never_exceeds.

(* Non-vacuity: concrete inputs meeting the hypotheses. *)
Example C20_example : lt_encode 1050 = (21, 0) /\ lt_encode 15000 = (15, 1) /\
  lt_encode 1000 = (1, 1) /\ lt_encode 999 = (19, 0) /\ lt_encode 600000 = (6, 3).
Proof. vm_compute. repeat split. Qed.
