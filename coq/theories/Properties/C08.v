(* C08 - the location table reflects the newest valid information about each station.
   Audited statements only; proofs in Proofs/LocTProofs.v and Proofs/RouterProofs.v. *)
From FlexVerif Require Import Base.Prelude Model.LocT Model.Wire Model.Router Proofs.LocTProofs Proofs.RouterProofs Gen.SrcGeonet Proofs.SrcLifetimeEquiv.

(* -- timestamp comparison is a consistent wrap-around aware order (all pairs, no bound) -- *)
Theorem C08_tst_irreflexive : forall a, tst_gt a a = false.
Proof. exact tst_gt_irrefl. Qed.
Print Assumptions C08_tst_irreflexive.

Theorem C08_tst_antisymmetric : forall a b, tst_gt a b = true -> tst_gt b a = false.
Proof. exact tst_gt_asym. Qed.
Print Assumptions C08_tst_antisymmetric.

Theorem C08_tst_total : forall a b, 0 <= a < 2 ^ 32 -> 0 <= b < 2 ^ 32 -> a <> b ->
  tst_gt a b = true \/ tst_gt b a = true.
Proof. exact tst_gt_total. Qed.
Print Assumptions C08_tst_total.

Theorem C08_tst_agrees_with_real_time_newer : forall t d, 0 < d < 2 ^ 31 ->
  tst_gt ((t + d) mod 2 ^ 32) (t mod 2 ^ 32) = true.
Proof. exact tst_gt_real. Qed.
Print Assumptions C08_tst_agrees_with_real_time_newer.

Theorem C08_tst_agrees_with_real_time_older : forall t d, 0 <= d < 2 ^ 31 ->
  tst_gt (t mod 2 ^ 32) ((t + d) mod 2 ^ 32) = false.
Proof. exact tst_gt_old. Qed.
Print Assumptions C08_tst_agrees_with_real_time_older.

(* -- the stored position vector is the most recent one by timestamp -- *)
Theorem C08_older_or_equal_never_replaces : forall e pv t d, e_set e = true -> 0 <= d < 2 ^ 31 ->
  pv_tst pv = t mod 2 ^ 32 -> pv_tst (e_pv e) = (t + d) mod 2 ^ 32 -> update_pv e pv = e.
Proof. exact update_never_older. Qed.
Print Assumptions C08_older_or_equal_never_replaces.

(* any history of received position vectors with real times in one window shorter than 2^31 ms:
   the stored one has the greatest time *)
Theorem C08_stored_pv_is_newest : forall e l T1 pv1 lo, e_set e = false ->
  Forall (fun p => stamped (fst p) (snd p) /\ lo <= fst p < lo + 2 ^ 31) ((T1, pv1) :: l) ->
  exists T, stamped T (e_pv (upd_all e ((T1, pv1) :: l))) /\ In T (map fst ((T1, pv1) :: l)) /\
            Forall (fun p => fst p <= T) ((T1, pv1) :: l).
Proof. exact pv_is_newest. Qed.
Print Assumptions C08_stored_pv_is_newest.

(* -- expiry: kept exactly while the age does not exceed the lifetime; a timestamp ahead of the
      receiver's clock (sender runs fast) has age 0 -- *)
Theorem C08_expiry_in_real_time : forall e N T life, e_set e = true -> 0 <= life < 2 ^ 31 ->
  - 2 ^ 31 < N - T < 2 ^ 31 -> pv_tst (e_pv e) = T mod 2 ^ 32 ->
  keep (N mod 2 ^ 32) life e = (N - T <=? life).
Proof. exact keep_real. Qed.
Print Assumptions C08_expiry_in_real_time.

Theorem C08_refresh_exact : forall t now life a, uniq t ->
  find (refresh t now life) a =
  match find t a with Some e => if keep now life e then Some e else None | None => None end.
Proof. exact find_refresh. Qed.
Print Assumptions C08_refresh_exact.

(* -- S is present after one of its packets is processed (unless already expired) -- *)
Theorem C08_source_present_after_shb : forall t pv now life, uniq t ->
  exists e, e_addr e = pv_addr pv /\ e_set e = true /\
    find (rx_shb t pv now life) (pv_addr pv) = if keep now life e then Some e else None.
Proof. exact rx_shb_present. Qed.
Print Assumptions C08_source_present_after_shb.

Theorem C08_source_present_after_multihop : forall t pv sn now life len t', uniq t ->
  rx_mh t pv sn now life len = Some t' ->
  exists d, check_dup (e_dpl (fst (get_or_new t (pv_addr pv) now life))) sn len = Some d /\
    find t' (pv_addr pv) = (if keep now life (mh_entry t pv d now life) then Some (mh_entry t pv d now life) else None).
Proof. exact rx_mh_spec. Qed.
Print Assumptions C08_source_present_after_multihop.

(* -- neighbour flag -- *)
Theorem C08_shb_makes_neighbour : forall t pv now life e, uniq t ->
  find (rx_shb t pv now life) (pv_addr pv) = Some e -> e_nb e = true /\ e_set e = true.
Proof. exact rx_shb_neighbour. Qed.
Print Assumptions C08_shb_makes_neighbour.

(* `live t a now life` is the entry of a unless its lifetime has run out at `now` (whether or not a purge has removed
   it yet): the flag survives multi-hop packets exactly while the entry has not expired *)
Theorem C08_multihop_keeps_neighbour_flag : forall t pv sn now life len t' e', uniq t ->
  rx_mh t pv sn now life len = Some t' -> find t' (pv_addr pv) = Some e' ->
  e_nb e' = match live t (pv_addr pv) now life with Some e => e_nb e | None => false end.
Proof. exact rx_mh_neighbour. Qed.
Print Assumptions C08_multihop_keeps_neighbour_flag.

(* an entry whose lifetime has run out is gone even when no purge has run since: the next multi-hop packet of its
   station does not find it - the station is not a neighbour and its duplicate packet list starts afresh *)
Theorem C08_expired_entry_is_not_reused : forall t pv sn now life len t' e e', uniq t ->
  find t (pv_addr pv) = Some e -> keep now life e = false ->
  rx_mh t pv sn now life len = Some t' -> find t' (pv_addr pv) = Some e' ->
  e_nb e' = false /\ e_dpl e' = [sn].
Proof. exact rx_mh_expired_entry_not_reused. Qed.
Print Assumptions C08_expired_entry_is_not_reused.

Theorem C08_neighbour_until_expiry : forall life len ops t a e,
  uniq t -> (forall e0, find t a = Some e0 -> e_nb e0 = true) -> find t a <> None ->
  present_throughout life len t a ops ->
  find (lrun life len t ops) a = Some e -> e_nb e = true.
Proof. exact neighbour_until_expiry. Qed.
Print Assumptions C08_neighbour_until_expiry.

Theorem C08_multihop_only_source_is_not_neighbour : forall life len ops t a e,
  uniq t -> (forall e0, find t a = Some e0 -> e_nb e0 = false) ->
  (forall o, In o ops -> op_addr o = a -> is_shb o = false) ->
  find (lrun life len t ops) a = Some e -> e_nb e = false.
Proof. exact multihop_only_not_neighbour. Qed.
Print Assumptions C08_multihop_only_source_is_not_neighbour.

Theorem C08_other_entries_untouched : forall t pv sn now life len t' a e, uniq t -> a <> pv_addr pv ->
  rx_mh t pv sn now life len = Some t' -> find t' a = Some e -> find t a = Some e.
Proof. exact rx_mh_frame. Qed.
Print Assumptions C08_other_entries_untouched.

(* -- the station's own address is never entered, whatever frame is received -- *)
Theorem C08_own_address_never_entered : forall m s now g pkt,
  no_own m (s_loct s) -> no_own m (s_loct (fst (rx m s now g pkt))).
Proof. exact own_address_never_entered. Qed.
Print Assumptions C08_own_address_never_entered.

(* non-vacuity *)
Example C08_example :
  tst_gt 5 (2 ^ 32 - 5) = true /\ tst_gt (2 ^ 32 - 5) 5 = false /\
  keep 1000 20000 (mkEntry [0; 5; 1] [0; 5; 1; 1500; 0; 0; 1; 0; 0] true true false []) = true /\
  keep 30000 20000 (mkEntry [0; 5; 1] [0; 5; 1; 1500; 0; 0; 1; 0; 0] true true false []) = false.
Proof. vm_compute. repeat split. Qed.

(* ---- the timestamp operators REGENERATED FROM THE SOURCE on every run (Gen/SrcGeonet.v, tools/pyz.py: TST.__gt__, __ge__,
   __lt__, __le__, __eq__, __sub__, __add__, encode, decode) are the model's, for all arguments; hence every theorem above
   about tst_gt / tst_sub is a theorem about the code's operators. *)
Theorem C08_source_timestamp_order_is_the_model : forall a b,
  TST_gt a b = tst_gt a b /\ TST_ge a b = ((a =? b) || tst_gt a b) /\ TST_lt a b = negb ((a =? b) || tst_gt a b)
  /\ TST_le a b = negb (tst_gt a b) /\ TST_eq a b = (a =? b).
Proof. exact src_tst_order. Qed.
Print Assumptions C08_source_timestamp_order_is_the_model.

Theorem C08_source_timestamp_arithmetic_is_the_model : forall a b,
  TST_sub a b = tst_sub a b /\ TST_add a b = (a + b) mod 2 ^ 32 /\ TST_encode a = a mod 2 ^ 32 /\ TST_decode a = a mod 2 ^ 32.
Proof. exact src_tst_arith. Qed.
Print Assumptions C08_source_timestamp_arithmetic_is_the_model.

Theorem C08_source_order_agrees_with_real_time : forall t d, 0 < d < 2 ^ 31 ->
  TST_gt ((t + d) mod 2 ^ 32) (t mod 2 ^ 32) = true /\ TST_gt (t mod 2 ^ 32) ((t + d) mod 2 ^ 32) = false.
Proof. exact src_tst_real. Qed.
Print Assumptions C08_source_order_agrees_with_real_time.

(* ---- the update rule (LocationTableEntry.update_position_vector) and the expiry rule (LocationTable._is_current with an
   explicit time) REGENERATED FROM THE SOURCE are the model's update_pv / keep, and satisfy the clauses directly -- *)
Theorem C08_source_update_rule_is_the_model : forall e pv,
  LocTE_update_position_vector pv (e_pv e) (e_set e) = (e_pv (update_pv e pv), e_set (update_pv e pv)).
Proof. exact src_update_pv. Qed.
Print Assumptions C08_source_update_rule_is_the_model.

Theorem C08_source_expiry_rule_is_the_model : forall e now life_s,
  LocT_is_current (e_set e) (e_ls e) (pv_tst (e_pv e)) now life_s = keep now (life_s * 1000) e.
Proof. exact src_is_current. Qed.
Print Assumptions C08_source_expiry_rule_is_the_model.

Theorem C08_source_older_or_equal_never_replaces : forall stored pv t d, 0 <= d < 2 ^ 31 ->
  nth 3 pv 0 = t mod 2 ^ 32 -> nth 3 stored 0 = (t + d) mod 2 ^ 32 ->
  LocTE_update_position_vector pv stored true = (stored, true).
Proof. exact src_update_never_older. Qed.
Print Assumptions C08_source_older_or_equal_never_replaces.

Theorem C08_source_newer_replaces : forall stored pv t d received, 0 < d < 2 ^ 31 ->
  nth 3 pv 0 = (t + d) mod 2 ^ 32 -> nth 3 stored 0 = t mod 2 ^ 32 ->
  LocTE_update_position_vector pv stored received = (pv, true).
Proof. exact src_update_newer. Qed.
Print Assumptions C08_source_newer_replaces.

Theorem C08_source_expiry_in_real_time : forall ls N T life_s, 0 <= life_s * 1000 < 2 ^ 31 -> - 2 ^ 31 < N - T < 2 ^ 31 ->
  LocT_is_current true ls (T mod 2 ^ 32) (N mod 2 ^ 32) life_s = (N - T <=? life_s * 1000).
Proof. exact src_expiry_real. Qed.
Print Assumptions C08_source_expiry_in_real_time.
