(* C01 - end-to-end payload delivery between stations through BTP and GeoNetworking.
   Audited statements only; proofs in Proofs/C01Proofs.v (built on the wire theorems of C02 and the
   router theorems of C06/C07).  A and B are two stations (any states) with different addresses; the
   packet is exactly what the request of A emits (the req_ functions build it with the mk_ functions), the statement is about what the
   receive function does with it. Positions are any signed 32-bit pair (wf_lpv), payload any octets. *)
From FlexVerif Require Import Base.Prelude Base.Bits Model.Lifetime Model.Wire Model.LocT Model.Router Model.Btp
  Proofs.WireProofs Proofs.LocTProofs Proofs.RouterProofs Proofs.C01Proofs.

(* -- BTP: the destination port (and only it) gets the payload, with the second header field intact -- *)
Theorem C01_btp_roundtrip : forall ports nh rest p1 p2 payload, nh = 1 \/ nh = 2 ->
  fits 16 p1 = true -> fits 16 p2 = true ->
  btp_indicate ports (nh :: rest) (snd (btp_request nh p1 p2 payload)) =
  if existsb (Z.eqb p1) ports then Some (p1, p2, payload) else None.
Proof. exact btp_roundtrip. Qed.
Print Assumptions C01_btp_roundtrip.

Theorem C01_btp_never_wrong_port : forall ports hdr data p1 p2 payload,
  btp_indicate ports hdr data = Some (p1, p2, payload) -> In p1 ports.
Proof. exact btp_only_registered_port. Qed.
Print Assumptions C01_btp_never_wrong_port.

(* -- single-hop broadcast: exactly one indication at B, byte-identical payload, A's position vector -- *)
Theorem C01_shb_delivery : forall (mA mB : mib) (sA sB : state) (now : Z) (g : geo),
  fits 1 (m_mobile mA) = true -> wf_lpv (s_ego sA) = true ->
  mid_eqb (pv_addr (s_ego sA)) (m_addr mB) = false ->
  forall (req_ms nh scf off tcid : Z) (payload : list Z),
  0 <= nh <= 3 -> fits 1 scf = true -> fits 1 off = true -> fits 6 tcid = true ->
  Z.of_nat (length payload) < 65536 ->
  exists hdr : list Z,
    rx mB sB now g (mk_shb (m_mobile mA) (m_default_s mA) req_ms nh scf off tcid (s_ego sA) payload) =
    (set_loct sB (rx_shb (s_loct sB) (s_ego sA) now (m_life_ms mB)), [OInd hdr payload]) /\
    arg 0 hdr = nh /\ arg 1 hdr = 5 /\ arg 2 hdr = 0 /\ firstn 9 (skipn 3 hdr) = s_ego sA.
Proof. exact shb_end_to_end. Qed.
Print Assumptions C01_shb_delivery.

Theorem C01_request_emits_that_packet : forall (mA : mib) (sA : state) (req_ms nh scf off tcid : Z) (payload : list Z),
  req_shb mA sA ([req_ms; nh; scf; off; tcid] ++ payload) =
  (sA, [OOrig (mk_shb (m_mobile mA) (m_default_s mA) req_ms nh scf off tcid (s_ego sA) payload)]).
Proof. exact req_shb_sends. Qed.
Print Assumptions C01_request_emits_that_packet.

(* -- never to the sender itself -- *)
Theorem C01_sender_ignores_own_frame : forall (mA : mib) (sA : state) (now : Z) (g : geo),
  fits 1 (m_mobile mA) = true -> wf_lpv (s_ego sA) = true -> pv_addr (s_ego sA) = m_addr mA ->
  forall (req_ms nh scf off tcid : Z) (payload : list Z),
  0 <= nh <= 3 -> fits 1 scf = true -> fits 1 off = true -> fits 6 tcid = true ->
  Z.of_nat (length payload) < 65536 ->
  fst (rx mA sA now g (mk_shb (m_mobile mA) (m_default_s mA) req_ms nh scf off tcid (s_ego sA) payload)) = sA /\
  quiet (snd (rx mA sA now g (mk_shb (m_mobile mA) (m_default_s mA) req_ms nh scf off tcid (s_ego sA) payload))).
Proof. exact shb_sender_ignores_own. Qed.
Print Assumptions C01_sender_ignores_own_frame.

(* -- geo-broadcast / geo-anycast: delivered (payload identical, A's position vector) iff B is inside the
      area; never outside; B must not have seen (A, sn) before (fresh duplicate window) -- *)
Theorem C01_geo_delivery : forall (mA mB : mib) (sA sB : state) (now : Z) (g : geo),
  fits 1 (m_mobile mA) = true -> wf_lpv (s_ego sA) = true ->
  mid_eqb (pv_addr (s_ego sA)) (m_addr mB) = false -> fits 8 (m_default_hl mA) = true ->
  forall (req_ms req_hl nh ht hst scf off tcid sn : Z) (area payload : list Z),
  0 <= nh <= 3 -> fits 1 scf = true -> fits 1 off = true -> fits 6 tcid = true ->
  Z.of_nat (length payload) < 65536 -> fits 16 sn = true -> fits 8 req_hl = true ->
  ht = 3 \/ ht = 4 -> 0 <= hst <= 2 -> wf_area (area ++ [0]) = true ->
  zero_area hst ([sn; 0] ++ s_ego sA ++ area ++ [0]) = false ->
  forall inside : bool,
  lookup_ins (g_ins g) (pv_lat (s_ego sB)) (pv_lon (s_ego sB)) = Some inside ->
  forall t : list entry,
  rx_mh (s_loct sB) (s_ego sA) sn now (m_life_ms mB) (m_dpl_len mB) = Some t ->
  let pkt := mk_gbc (m_mobile mA) (m_default_s mA) (m_default_hl mA) req_ms req_hl nh ht hst scf off tcid sn
                    (s_ego sA) area payload in
  ~ In OGeoMissing (snd (rx mB sB now g pkt)) ->
  ((exists o : output, In o (snd (rx mB sB now g pkt)) /\ is_ind o = true) <-> inside = true) /\
  (forall hd d : list Z, In (OInd hd d) (snd (rx mB sB now g pkt)) ->
     d = payload /\ arg 0 hd = nh /\ arg 1 hd = ht /\ firstn 9 (skipn 3 hd) = s_ego sA).
Proof. exact geo_end_to_end. Qed.
Print Assumptions C01_geo_delivery.

(* -- geo-unicast to a station whose position A knows: exactly one indication at the destination -- *)
Theorem C01_guc_delivery : forall (mA mB : mib) (sA sB : state) (now : Z) (g : geo),
  fits 1 (m_mobile mA) = true -> wf_lpv (s_ego sA) = true ->
  mid_eqb (pv_addr (s_ego sA)) (m_addr mB) = false -> fits 8 (m_default_hl mA) = true ->
  forall (req_ms req_hl nh scf off tcid sn : Z) (de payload : list Z),
  0 <= nh <= 3 -> fits 1 scf = true -> fits 1 off = true -> fits 6 tcid = true ->
  Z.of_nat (length payload) < 65536 -> fits 16 sn = true -> fits 8 req_hl = true ->
  wf_spv de = true -> mid_eqb (firstn 3 de) (m_addr mB) = true ->
  forall t : list entry,
  rx_mh (s_loct sB) (s_ego sA) sn now (m_life_ms mB) (m_dpl_len mB) = Some t ->
  exists hdr : list Z,
    rx mB sB now g (mk_guc (m_mobile mA) (m_default_s mA) (m_default_hl mA) req_ms req_hl nh scf off tcid sn
                           (s_ego sA) de payload) = (set_loct sB t, [OInd hdr payload]) /\
    arg 0 hdr = nh /\ arg 1 hdr = 2 /\ firstn 9 (skipn 3 hdr) = s_ego sA.
Proof. exact guc_end_to_end. Qed.
Print Assumptions C01_guc_delivery.

(* -- location service: an unknown destination starts a lookup and buffers the request; requests issued while
      the lookup is pending are queued behind it (nothing sent, no sequence number consumed); the buffered
      requests are flushed in request order -- *)
Theorem C01_unknown_destination_starts_lookup : forall m s g dest r, find (s_loct s) dest = None ->
  exists s', req_guc m s g dest r =
    (s', [OOrig (mk_lsreq (m_mobile m) (m_default_s m) (m_default_hl m) (next_sn (s_sn s)) (s_ego s) dest);
          OTimerStart 2 dest]) /\
    (exists x, ls_find (s_ls s') dest = Some x /\ ls_buf x = [r] /\ ls_count x = 0) /\
    (exists e, find (s_loct s') dest = Some e /\ e_ls e = true /\ e_set e = false).
Proof. exact guc_unknown_destination_starts_lookup. Qed.
Print Assumptions C01_unknown_destination_starts_lookup.

Theorem C01_request_while_pending_is_queued : forall m s g dest r x e,
  find (s_loct s) dest = Some e -> e_ls e = true -> ls_find (s_ls s) dest = Some x ->
  exists s', req_guc m s g dest r = (s', []) /\
    exists x', ls_find (s_ls s') dest = Some x' /\ ls_buf x' = ls_buf x ++ [r] /\
               s_loct s' = s_loct s /\ s_sn s' = s_sn s.
Proof. exact guc_while_pending_is_queued. Qed.
Print Assumptions C01_request_while_pending_is_queued.

Theorem C01_flush_in_request_order : forall m g dest rs1 rs2 s,
  flush_guc m s g dest (rs1 ++ rs2) =
  let '(s1, o1) := flush_guc m s g dest rs1 in let '(s2, o2) := flush_guc m s1 g dest rs2 in (s2, o1 ++ o2).
Proof. exact flush_guc_app. Qed.
Print Assumptions C01_flush_in_request_order.

(* non-vacuity: a complete SHB hand-over between two concrete stations in the southern / western hemisphere *)
Example C01_example :
  let mA := mkMib [0; 5; 11] 1 60 10 8 20000 2 10 in
  let mB := mkMib [0; 5; 22] 1 60 10 8 20000 2 10 in
  let sA := init [0; 5; 11; 1000; -338688000; -1512093000; 1; 0; 0] in
  let sB := init [0; 5; 22; 1000; -338688100; -1512093100; 1; 0; 0] in
  let '(nh, gnp) := btp_request 2 2001 7 [104; 105] in
  match snd (rx mB sB 2000 (mkGeo false [] []) (mk_shb 1 60 (-1) nh 0 0 0 (s_ego sA) gnp)) with
  | [OInd hdr data] => btp_indicate [2001; 2002] hdr data = Some (2001, 7, [104; 105])
  | _ => False
  end.
Proof. vm_compute. reflexivity. Qed.
