(* C19 - DCC algorithms respect TS 102 687 state, rate and duty-cycle limits.
   This file holds only the audited statements; proofs are in Proofs/Dcc*.v.
   Model: Model/Dcc.v (the code: DccReactive, DccAdaptive, GateKeeper over exact rationals);
   specification: Model/DccSpec.v (Annex A tables, clause 5.4 equations, B.1 / B.2, written by hand);
   Gen/C19Consts.v is regenerated from the source tree on every run. *)
From Coq Require Import ZArith QArith List Bool.
From FlexVerif Require Import Gen.C19Consts Model.Dcc Model.DccSpec
  Proofs.DccProofs Proofs.DccAdaptiveProofs Proofs.DccGateProofs.
Import ListNotations.
Open Scope Q_scope.

(* ===================== tables and constants of the source ===================== *)

(* The tables found in the source are the Annex A tables written by hand in DccSpec.v, in the state
   order Relaxed .. Restrictive. A changed entry in the code breaks this theorem. *)
Theorem C19_tables_match_annex_A :
  gen_table_A1 = annexA_table_1 /\ gen_table_A2 = annexA_table_2 /\ gen_state_order = [0; 1; 2; 3; 4]%Z.
Proof. exact tables_match. Qed.
Print Assumptions C19_tables_match_annex_A.

(* ... whose thresholds are the doubles nearest to 30 %, 40 %, 50 %, 60 % / 65 % and whose rates and
   T_off values are exactly the decimal ones. *)
Theorem C19_annex_doubles_are_the_decimals :
  rows_agree annexA_table_1 annexA1_decimal = true /\ rows_agree annexA_table_2 annexA2_decimal = true.
Proof. exact annex_doubles_are_the_decimals. Qed.
Print Assumptions C19_annex_doubles_are_the_decimals.

Theorem C19_defaults_match_table_3 :
  near_rel gen_alpha table3_alpha = true /\ near_rel gen_beta table3_beta = true /\
  near_rel gen_cbr_target table3_cbr_target = true /\ near_rel gen_delta_max table3_delta_max = true /\
  near_rel gen_delta_min table3_delta_min = true /\ near_rel gen_delta_up_max table3_delta_up_max = true /\
  near_rel gen_delta_down_max table3_delta_down_max = true.
Proof. exact defaults_match_table_3. Qed.
Print Assumptions C19_defaults_match_table_3.

(* gate constants: minimum interval = the double 0.025 (between 25 ms and 25 ms + 2^-58 s),
   maximum 1 s, opening tolerance epsilon in (0, 1.000000001 ns] *)
Theorem C19_gate_constants :
  ms25 <= gmin /\ gmin <= ms25 + (1 # 288230376151711744) /\ gmax == s1 /\
  0 < geps /\ geps <= 1000000001 # 1000000000000000000.
Proof. exact gate_constants. Qed.
Print Assumptions C19_gate_constants.

(* ================================ reactive approach ============================ *)

(* at most one state per evaluation: every table, every state, every CBR (accepted or rejected) *)
Theorem C19_reactive_adjacent : forall tbl idx cbr,
  (Z.abs (r_state (reactive_update tbl idx cbr) - idx) <= 1)%Z.
Proof. exact reactive_adjacent_step. Qed.
Print Assumptions C19_reactive_adjacent.

(* ... hence along every sequence of measurements *)
Theorem C19_reactive_adjacent_run : forall tbl l idx,
  adjacent_chain idx (map r_state (reactive_run tbl idx l)).
Proof. exact reactive_adjacent_run. Qed.
Print Assumptions C19_reactive_adjacent_run.

(* the state the code steers to is the band of the Annex A table that contains the CBR *)
Theorem C19_reactive_target_is_band : forall ton cbr, 0 <= cbr <= 1 ->
  target_state (table_of ton) cbr = band (lower_bounds (annex_table ton)) cbr.
Proof. exact target_is_band. Qed.
Print Assumptions C19_reactive_target_is_band.

(* constant input: from any state, after n >= 4 evaluations the state is the band of the input
   (reached within four evaluations, and kept afterwards) *)
Theorem C19_reactive_converges_4 : forall ton idx cbr n,
  (0 <= idx <= 4)%Z -> 0 <= cbr <= 1 -> (4 <= n)%nat ->
  reactive_final (table_of ton) idx (repeat cbr n) = band (lower_bounds (annex_table ton)) cbr.
Proof. exact reactive_converges_const. Qed.
Print Assumptions C19_reactive_converges_4.

(* more generally: any sequence of at least four measurements that stay within one band *)
Theorem C19_reactive_converges_within_band : forall ton g l idx,
  (0 <= idx <= 4)%Z -> (4 <= length l)%nat ->
  (forall c, In c l -> 0 <= c <= 1 /\ band (lower_bounds (annex_table ton)) c = g) ->
  reactive_final (table_of ton) idx l = g.
Proof. exact reactive_converges_band. Qed.
Print Assumptions C19_reactive_converges_within_band.

(* four is tight: Relaxed -> Restrictive needs four evaluations *)
Theorem C19_reactive_four_needed :
  reactive_final (table_of 1000) 0 (repeat 1 3) = 3%Z /\ band (lower_bounds (annex_table 1000)) 1 = 4%Z.
Proof. exact reactive_three_not_enough. Qed.
Print Assumptions C19_reactive_four_needed.

(* an accepted evaluation outputs the Annex A packet rate and T_off of the state it ends in *)
Theorem C19_reactive_outputs_of_state : forall ton idx cbr, (0 <= idx <= 4)%Z -> 0 <= cbr <= 1 ->
  let o := reactive_update (table_of ton) idx cbr in
  r_status o = 0%Z /\
  r_rate o = annex_rate (annex_table ton) (r_state o) /\
  r_toff o = annex_toff (annex_table ton) (r_state o).
Proof. exact reactive_outputs. Qed.
Print Assumptions C19_reactive_outputs_of_state.

Theorem C19_reactive_state_in_range : forall ton idx cbr, (0 <= idx <= 4)%Z ->
  (0 <= r_state (reactive_update (table_of ton) idx cbr) <= 4)%Z.
Proof. exact reactive_state_range. Qed.
Print Assumptions C19_reactive_state_in_range.

(* a CBR outside [0,1] is rejected (ValueError) and leaves the state unchanged *)
Theorem C19_reactive_rejects_out_of_range : forall tbl idx cbr, (cbr < 0 \/ 1 < cbr) ->
  reactive_update tbl idx cbr = (1%Z, idx, 0, 0).
Proof. exact reactive_rejects. Qed.
Print Assumptions C19_reactive_rejects_out_of_range.

(* ================================ adaptive approach ============================ *)

(* one evaluation computes CBR_ITS-S and delta exactly as equations (1)-(6) of clause 5.4 *)
Theorem C19_adaptive_formula : forall p st cl clp g gp st',
  adaptive_update p st cl clp g gp = Some st' ->
  a_cbr_its st' == fst (adaptive_spec (p_alpha p) (p_beta p) (p_cbr_target p) (p_delta_max p) (p_delta_min p)
                          (p_delta_up_max p) (p_delta_down_max p) (a_cbr_its st) (a_delta st) cl clp g gp) /\
  a_delta st' == snd (adaptive_spec (p_alpha p) (p_beta p) (p_cbr_target p) (p_delta_max p) (p_delta_min p)
                        (p_delta_up_max p) (p_delta_down_max p) (a_cbr_its st) (a_delta st) cl clp g gp).
Proof. exact adaptive_formula. Qed.
Print Assumptions C19_adaptive_formula.

(* every parameter set with delta_min <= delta_max, every previous state, every input *)
Theorem C19_adaptive_in_range : forall p st cl clp g gp st',
  p_delta_min p <= p_delta_max p ->
  adaptive_update p st cl clp g gp = Some st' ->
  p_delta_min p <= a_delta st' <= p_delta_max p.
Proof. exact adaptive_in_range. Qed.
Print Assumptions C19_adaptive_in_range.

(* along every sequence of evaluations from the constructor's state, accepted or rejected *)
Theorem C19_adaptive_run_in_range : forall p l, p_delta_min p <= p_delta_max p ->
  Forall (fun o => p_delta_min p <= a_delta (snd o) <= p_delta_max p) (adaptive_run p (adaptive_init p) l).
Proof. exact adaptive_run_from_init. Qed.
Print Assumptions C19_adaptive_run_in_range.

Theorem C19_adaptive_rejects_out_of_range : forall p st cl clp g gp,
  (cl < 0 \/ 1 < cl) \/ (clp < 0 \/ 1 < clp) -> adaptive_update p st cl clp g gp = None.
Proof. exact adaptive_rejects. Qed.
Print Assumptions C19_adaptive_rejects_out_of_range.

Theorem C19_adaptive_accepts_in_range : forall p st cl clp g gp, 0 <= cl <= 1 -> 0 <= clp <= 1 ->
  exists st', adaptive_update p st cl clp g gp = Some st'.
Proof. exact adaptive_accepts. Qed.
Print Assumptions C19_adaptive_accepts_in_range.

(* a rejected evaluation leaves the state as it was *)
Theorem C19_adaptive_reject_keeps_state : forall p st i,
  snd (adaptive_step p st i) = false -> fst (adaptive_step p st i) = st.
Proof. exact adaptive_step_state. Qed.
Print Assumptions C19_adaptive_reject_keeps_state.

(* ================================== gate keeper ================================ *)

(* B.1: an admission at t schedules t_go = t + min(max(T_on / delta, 25 ms), 1 s) *)
Theorem C19_gate_B1 : forall st t ton, 0 < ton -> is_open st t = true ->
  exists go, gate_step st (GAdmit t ton) = ({| g_delta := g_delta st; g_sched := Some (t, go) |}, 1%Z) /\
             go == B1 gmin gmax t ton (g_delta st).
Proof. exact gate_admit_open. Qed.
Print Assumptions C19_gate_B1.

Theorem C19_gate_rejects_when_closed : forall st t ton, 0 < ton -> is_open st t = false ->
  gate_step st (GAdmit t ton) = (st, 0%Z).
Proof. exact gate_admit_closed. Qed.
Print Assumptions C19_gate_rejects_when_closed.

(* B.2: a delta update while the gate is closed reschedules t_go; otherwise only delta changes *)
Theorem C19_gate_B2 : forall st t dnew pg go, 0 < dnew -> g_sched st = Some (pg, go) -> is_open st t = false ->
  exists go', gate_step st (GUpdate t dnew) = ({| g_delta := dnew; g_sched := Some (pg, go') |}, 0%Z) /\
              go' == B2 gmin gmax pg go (g_delta st) dnew.
Proof. exact gate_update_closed. Qed.
Print Assumptions C19_gate_B2.

Theorem C19_gate_update_when_open : forall st t dnew, 0 < dnew -> is_open st t = true ->
  gate_step st (GUpdate t dnew) = ({| g_delta := dnew; g_sched := g_sched st |}, 0%Z).
Proof. exact gate_update_open. Qed.
Print Assumptions C19_gate_update_when_open.

(* "opens exactly at t_go": false of the code, which opens epsilon (1 ns) early: finding KF-C19-1 *)
Definition C19_gate_opens_exactly_full : Prop := gate_opens_exactly_full.

Theorem C19_gate_opens_exactly_partial : forall d0 ops pg go t,
  g_sched (gate_final (gate_init d0) ops) = Some (pg, go) ->
  (is_open (gate_final (gate_init d0) ops) t = true <-> go - geps <= t).
Proof. exact gate_opens_exactly_partial. Qed.
Print Assumptions C19_gate_opens_exactly_partial.

Theorem C19_gate_opens_exactly_refuted : ~ C19_gate_opens_exactly_full.
Proof. exact gate_opens_exactly_refuted. Qed.
Print Assumptions C19_gate_opens_exactly_refuted.

Theorem C19_gate_open_before_first_admission : forall d0 ops t,
  g_sched (gate_final (gate_init d0) ops) = None -> is_open (gate_final (gate_init d0) ops) t = true.
Proof. exact gate_open_before_first_admission. Qed.
Print Assumptions C19_gate_open_before_first_admission.

(* in every reachable state t_go lies between 25 ms and 1 s after the last admission *)
Theorem C19_gate_tgo_within_bounds : forall d0 ops pg go, 0 < d0 ->
  g_sched (gate_final (gate_init d0) ops) = Some (pg, go) -> pg + ms25 <= go /\ go <= pg + 1.
Proof. exact gate_tgo_within_bounds. Qed.
Print Assumptions C19_gate_tgo_within_bounds.

(* ... where t_pg is the time of the last admitted packet *)
Theorem C19_gate_tpg_is_last_admission : forall d0 ops pg go,
  g_sched (gate_final (gate_init d0) ops) = Some (pg, go) ->
  exists l, admitted (gate_init d0) ops = l ++ [pg].
Proof. exact gate_last_admission. Qed.
Print Assumptions C19_gate_tpg_is_last_admission.

(* never closed longer than 1 s after an admission, whatever arrivals and delta updates follow *)
Theorem C19_gate_closed_at_most_1s : forall d0 ops pg go t, 0 < d0 ->
  g_sched (gate_final (gate_init d0) ops) = Some (pg, go) -> pg + 1 <= t ->
  is_open (gate_final (gate_init d0) ops) t = true.
Proof. exact gate_closed_at_most_1s. Qed.
Print Assumptions C19_gate_closed_at_most_1s.

(* one packet per opening: the admission closes the gate at once, and whatever operations follow
   (arrivals, delta updates), nothing is admitted before t + 25 ms - epsilon *)
Theorem C19_gate_one_per_opening : forall d0 ops0 t ton st' ops, 0 < d0 ->
  gate_step (gate_final (gate_init d0) ops0) (GAdmit t ton) = (st', 1%Z) ->
  is_open st' t = false /\ Forall (fun t' => t + (gmin - geps) <= t') (admitted st' ops).
Proof. exact gate_one_per_opening. Qed.
Print Assumptions C19_gate_one_per_opening.

(* spacing of admitted packets. Full statement (25 ms): false because of the early opening. *)
Definition C19_gate_spacing_full : Prop := gate_spacing_full.

Theorem C19_gate_spacing_partial : forall d0 ops i j, 0 < d0 ->
  (i < j < length (admitted (gate_init d0) ops))%nat ->
  nth i (admitted (gate_init d0) ops) 0 + (ms25 - geps) <= nth j (admitted (gate_init d0) ops) 0.
Proof. exact gate_spacing. Qed.
Print Assumptions C19_gate_spacing_partial.

Theorem C19_gate_spacing_refuted : ~ C19_gate_spacing_full.
Proof. exact gate_spacing_refuted. Qed.
Print Assumptions C19_gate_spacing_refuted.

(* ================================= non-vacuity ================================= *)
Example C19_adaptive_example :
  exists st', adaptive_update default_params (adaptive_init default_params) (1 # 2) (1 # 2) None None = Some st' /\
              a_cbr_its st' == 1 # 4 /\ p_delta_min default_params < a_delta st' /\
              a_delta st' < p_delta_max default_params.
Proof. exact adaptive_example. Qed.

Example C19_gate_example :
  let ops := [GAdmit 0 (1 # 1000); GAdmit (1 # 100) (1 # 1000); GUpdate (2 # 100) (2 # 100);
              GAdmit (5 # 100) (1 # 1000); GAdmit (1 # 1) (1 # 1000)] in
  admitted (gate_init (1 # 100)) ops = [0; 5 # 100; 1 # 1] /\
  map fst (gate_run (gate_init (1 # 100)) ops) = [1; 0; 0; 1; 1]%Z.
Proof. exact gate_example. Qed.

Example C19_early_witness :
  admitted (gate_init 1) early_ops = [0; early_t2] /\ early_t2 < 0 + ms25.
Proof. exact early_admitted. Qed.

Example C19_reactive_example :
  map r_state (reactive_run (table_of 1000) 0 [7 # 10; 7 # 10; 1 # 10; 35 # 100; 35 # 100]) = [1; 2; 1; 1; 1]%Z.
Proof. vm_compute. reflexivity. Qed.
