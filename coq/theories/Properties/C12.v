(* C12 - the LDM behaves as a store of objects with registration gating and expiry.
   This file holds only the audited statements; proofs are in Proofs/LdmProofs.v.
   Vocabulary (Model/Ldm.v): `state_after c t0 ops` is the concrete LDM state after the operation
   sequence ops on an LDM with own location c created at ITS time t0; `lookup i (store s)` the
   container stored under identifier i; `a_run` the run of the abstract finite-map specification. *)
From FlexVerif Require Import Base.Prelude Model.Ldm Proofs.LdmProofs.
From Coq Require Import Sorted.

(* The concrete store (insertion-ordered association list, deletion by value in the garbage
   collector, registries as lists) answers every operation sequence exactly like the finite map
   id -> container, and its state is the ascending enumeration of that map. *)
Theorem C12_ldm_refines_map : forall c t0 ops,
  snd (run c (init t0) ops) = snd (a_run c (a_init t0) ops) /\
  refines (fst (run c (init t0) ops)) (fst (a_run c (a_init t0) ops)).
Proof. exact ldm_refines_map. Qed.
Print Assumptions C12_ldm_refines_map.

(* An unfiltered request of a registered consumer returns exactly the stored containers of the
   selected types. *)
Theorem C12_request_exact : forall c t0 ops aid prio types,
  let s := state_after c t0 ops in
  mem aid (conss s) = true -> forallb valid_type types = true -> prio_ok prio = true ->
  step c s (Request aid prio types) = (s, 0 :: flat_map flat_rec (select types (store s))) /\
  (forall r, In r (select types (store s)) <->
             exists i, lookup i (store s) = Some r /\ mem (r_typ r) types = true).
Proof. exact request_exact. Qed.
Print Assumptions C12_request_exact.

(* Full statement of "an added object is returned, with what it was added with, until it is
   deleted or its validity lapses": FALSE of the code (known finding KF-C12-1). *)
Definition C12_added_is_returned_until_gone_full : Prop := added_returned_stmt false.

(* ... it holds when, in addition, the object is outside the collector's deletion zone whenever
   maintenance runs (`undisturbed true`); the content is that of the last successful update. *)
Theorem C12_added_is_returned_until_gone_partial : added_returned_stmt true.
Proof. exact added_is_returned_until_gone. Qed.
Print Assumptions C12_added_is_returned_until_gone_partial.

Theorem C12_added_is_returned_until_gone_refuted : ~ C12_added_is_returned_until_gone_full.
Proof. exact added_is_returned_refuted. Qed.
Print Assumptions C12_added_is_returned_until_gone_refuted.

Theorem C12_update_changes_only_content : forall c s aid i typ tok,
  let s' := fst (step c s (Update aid i typ tok)) in
  let out := snd (step c s (Update aid i typ tok)) in
  (out = [0] ->
     (exists r, lookup i (store s) = Some r /\ lookup i (store s') = Some (set_content r typ tok)) /\
     (forall j, j <> i -> lookup j (store s') = lookup j (store s)) /\
     provs s' = provs s /\ conss s' = conss s /\ next_id s' = next_id s /\ now s' = now s) /\
  (out <> [0] -> s' = s).
Proof. exact update_changes_only_content. Qed.
Print Assumptions C12_update_changes_only_content.

Theorem C12_deleted_never_returned : forall c t0 ops1 aid i ops2,
  snd (step c (state_after c t0 ops1) (Delete aid i)) = [0] ->
  lookup i (store (state_after c t0 (ops1 ++ Delete aid i :: ops2))) = None.
Proof. exact deleted_never_returned. Qed.
Print Assumptions C12_deleted_never_returned.

Theorem C12_expired_never_returned : forall c t0 ops1 o i r ops2,
  let s := state_after c t0 ops1 in
  runs_gc s o = true -> lookup i (store s) = Some r -> expired (now s) r = true ->
  lookup i (store (state_after c t0 (ops1 ++ o :: ops2))) = None.
Proof. exact expired_never_returned. Qed.
Print Assumptions C12_expired_never_returned.

(* Full statement of "requests of unregistered providers or consumers are refused without
   effect": FALSE of the code for update and delete (known finding KF-C12-2). *)
Definition C12_unregistered_refused_without_effect_full : Prop := unregistered_refused_stmt false.

Theorem C12_unregistered_refused_without_effect_partial : forall c s o,
  gated o = true -> by_unregistered s o = true ->
  fst (step c s o) = s /\ snd (step c s o) = match o with Add _ => [-1] | _ => [1] end.
Proof. exact unregistered_refused_partial. Qed.
Print Assumptions C12_unregistered_refused_without_effect_partial.

(* the same shape as the full statement, restricted to add and request *)
Theorem C12_unregistered_refused_without_effect_gated : unregistered_refused_stmt true.
Proof. exact unregistered_refused_gated. Qed.
Print Assumptions C12_unregistered_refused_without_effect_gated.

Theorem C12_unregistered_refused_without_effect_refuted : ~ C12_unregistered_refused_without_effect_full.
Proof. exact unregistered_refused_refuted. Qed.
Print Assumptions C12_unregistered_refused_without_effect_refuted.

Theorem C12_invalid_registration_refused : forall c s aid perms,
  (reg_prov_ok aid perms = false -> step c s (RegProv aid perms) = (s, [1])) /\
  (reg_cons_ok aid perms = false -> step c s (RegCons aid perms) = (s, [2])).
Proof. exact invalid_registration_refused. Qed.
Print Assumptions C12_invalid_registration_refused.

(* identifiers handed out by successful additions are strictly increasing, hence never reused *)
Theorem C12_ids_never_reused : forall c t0 ops, StronglySorted Z.lt (added_ids c (init t0) ops).
Proof. exact ids_never_reused. Qed.
Print Assumptions C12_ids_never_reused.

Theorem C12_frame : forall c t0 ops o, frame_stmt c (state_after c t0 ops) o.
Proof. exact frame. Qed.
Print Assumptions C12_frame.

(* Non-vacuity: a history in which the premises of the theorems above hold. *)
Example C12_example :
  let c := mkCfg 413800000 21100000 1000 4 in
  let r := mkRec 2 5000 418800000 21100000 1000 0 50 2 7 in
  let ops := [RegProv 2 [2]; RegCons 2 [2]; Add r; Advance 1500; Update 2 0 2 8; Add r] in
  undisturbed true c 0 r (state_after c 5000 [RegProv 2 [2]; RegCons 2 [2]])
              [Add r; Advance 1500; Update 2 0 2 8; Add r] /\
  outputs c 5000 (ops ++ [Request 2 (-1) [2]; Delete 2 0; Request 2 (-1) [2]; Advance 60000; Maintain; Request 2 (-1) [2]])
  = [[0]; [0]; [0]; []; [0]; [1];
     [0; 2; 5000; 418800000; 21100000; 1000; 0; 50; 2; 8; 2; 5000; 418800000; 21100000; 1000; 0; 50; 2; 7];
     [0]; [0; 2; 5000; 418800000; 21100000; 1000; 0; 50; 2; 7]; []; []; [0]] /\
  added_ids c (init 5000) ops = [0; 1].
Proof.
  cbn zeta. split; [|split; vm_compute; reflexivity].
  cbn [undisturbed]. repeat split; try (intros E; vm_compute in E; discriminate);
    try (intros E; discriminate); try (vm_compute; reflexivity).
Qed.
