(* C18 - VRU clustering state machine stays consistent and never silences a VRU for good.
   Audited statements only; proofs are in Proofs/ClusterInv.v, ClusterRx.v, ClusterProofs.v.
   Model: Model/Cluster.v (VBSClusteringManager after the fix: commits of known_findings/C18.json).
   `reachable s`: s is the state after ANY finite sequence of events from the initial state of
   ANY station (own id, profile, start time), where clock steps are >= 0 and drawn cluster
   identifiers are within random.randint(1, 255). Time constants are those of vam_constants.py
   (Gen/C18Consts.v, ticks of 1/1024 s). *)
From FlexVerif Require Import Base.Prelude Gen.C18Consts Model.Cluster Proofs.ClusterInv Proofs.ClusterProofs.

(* --- consistency ---------------------------------------------------------------------- *)
(* leader exactly when it owns a cluster with identifier 1..255 and cardinality >= 1; passive exactly
   when joined id, leader id and leader-heard time are all present (and none of them otherwise) *)
Theorem C18_cluster_inv : forall s, reachable s ->
  (vst s = Leader <-> exists c, cluster s = Some c /\ 1 <= c_id c <= 255 /\ 1 <= c_card c) /\
  (vst s = Passive <-> exists j l t, joined s = Some j /\ leader s = Some l /\ last_leader s = Some t) /\
  (vst s <> Passive -> joined s = None /\ leader s = None /\ last_leader s = None) /\
  (vst s <> Leader -> cluster s = None).
Proof. exact cluster_inv. Qed.
Print Assumptions C18_cluster_inv.

Theorem C18_transmit_gate : forall s,
  should_transmit s = false <-> vst s = Idle \/ (vst s = Passive /\ ls s <> LNotify).
Proof. exact transmit_gate. Qed.
Print Assumptions C18_transmit_gate.

(* a passive station is never in its leave notification, so suppression is exactly idle-or-passive *)
Theorem C18_suppressed_iff_idle_or_passive : forall s, reachable s ->
  (should_transmit s = false <-> vst s = Idle \/ vst s = Passive).
Proof. exact suppressed_iff_idle_or_passive. Qed.
Print Assumptions C18_suppressed_iff_idle_or_passive.

(* the assert statements of _update_standalone / _update_passive cannot fail, and every phase runs
   in the stand-alone state *)
Theorem C18_no_assert_fails : forall s, reachable s ->
  (js s = JNotify \/ js s = JWaiting -> vst s = Standalone /\ exists t, j_started s = Some t) /\
  (js s = JCancelled \/ js s = JFailed -> vst s = Standalone /\ exists t, jl_started s = Some t) /\
  (ls s = LNotify -> vst s = Standalone /\ exists t, l_started s = Some t).
Proof. exact no_assert_fails. Qed.
Print Assumptions C18_no_assert_fails.

(* --- recovery of a passive station ------------------------------------------------------ *)
Theorem C18_leader_lost_recovers : forall s, reachable s -> vst s = Passive ->
  exists c l t, joined s = Some c /\ leader s = Some l /\ last_leader s = Some t /\
    (time_cluster_continuity <= now s - t ->
       vst (update s) = Standalone /\ should_transmit (update s) = true /\
       op_container (update s) = OpLeave c lr_leader_lost /\ joined (update s) = None).
Proof. exact leader_lost_recovers. Qed.
Print Assumptions C18_leader_lost_recovers.

Theorem C18_leader_lost_recovers_after_tick : forall s dt, reachable s -> vst s = Passive -> 0 <= dt ->
  exists c t, joined s = Some c /\ last_leader s = Some t /\
    (time_cluster_continuity <= now s + dt - t ->
       let s' := step (step s (Tick dt)) Update in
       vst s' = Standalone /\ should_transmit s' = true /\ op_container s' = OpLeave c lr_leader_lost).
Proof. exact leader_lost_recovers_after_tick. Qed.
Print Assumptions C18_leader_lost_recovers_after_tick.

(* while the station stays passive, only a VAM of the leader's station re-arms the timer *)
Theorem C18_leader_timer_only_rearmed_by_leader : forall s e, reachable s -> vst s = Passive -> wf_event e ->
  (forall v, e = Rx v -> leader s <> Some (sender v)) ->
  vst (step s e) = Passive -> last_leader (step s e) = last_leader s /\ leader (step s e) = leader s.
Proof. exact leader_timer_only_rearmed_by_leader. Qed.
Print Assumptions C18_leader_timer_only_rearmed_by_leader.

(* Full statement of the break-up clause. It is FALSE of the model and of the code for the reason
   receptionOfCpmContainingCluster (known finding KF-C18-1): see C18_breakup_recovers_refuted. *)
Definition C18_breakup_recovers_full : Prop :=
  forall s v r, reachable s -> vst s = Passive -> leader s = Some (sender v) -> op_breakup v = Some r ->
    forall dt, 0 <= dt ->
      let s' := step (step (rx v s) (Tick dt)) Update in vst s' = Standalone /\ should_transmit s' = true.

Theorem C18_breakup_recovers_partial : forall s v r, reachable s -> vst s = Passive ->
  leader s = Some (sender v) -> op_breakup v = Some r -> r <> br_cpm ->
  vst (rx v s) = Standalone /\ should_transmit (rx v s) = true /\
  (exists c, joined s = Some c /\ op_container (rx v s) = OpLeave c lr_disbanded) /\
  (forall dt, 0 <= dt -> let s' := step (step (rx v s) (Tick dt)) Update in
                         vst s' = Standalone /\ should_transmit s' = true).
Proof. exact breakup_recovers_partial. Qed.
Print Assumptions C18_breakup_recovers_partial.

Theorem C18_breakup_recovers_refuted : ~ C18_breakup_recovers_full.
Proof.
  intros H. destruct ex_passive_facts as (P & L & B & _ & _ & X).
  destruct (H ex_passive ex_cpm_vam br_cpm ex_passive_reachable P L B 103 ltac:(lia)) as (Y & _).
  rewrite X in Y. discriminate.
Qed.
Print Assumptions C18_breakup_recovers_refuted.

(* ... and that silence is not bounded: the member stays passive while the former leader's station sends
   any VAM at least every timeClusterContinuity (here one plain VAM per second, n times) *)
Theorem C18_cpm_breakup_silence_unbounded : forall n,
  let s := run (rx ex_cpm_vam ex_passive) (cpm_cycle n) in vst s = Passive /\ should_transmit s = false.
Proof. exact cpm_breakup_silence_unbounded. Qed.
Print Assumptions C18_cpm_breakup_silence_unbounded.

(* --- notifications last their specified durations --------------------------------------- *)
(* join notification: from any reachable state in the phase, through every event sequence that does not
   cancel it on purpose (cancel_join, trigger_leave_cluster, VRU_ROLE_OFF) and whose updates run before
   t0 + timeClusterJoinNotification, the station is stand-alone, transmits, and offers clusterJoinInfo with
   a joinTime within 1..127; the first update at or after the deadline ends it (waiting phase). *)
Theorem C18_join_notify_duration : forall s t0 cid, reachable s ->
  js s = JNotify -> j_started s = Some t0 -> j_target s = Some cid ->
  forall mid, quiet (join_undisturbed t0) s mid ->
  let s2 := run s mid in
  vst s2 = Standalone /\ should_transmit s2 = true /\
  (exists q, op_container s2 = OpJoin cid q /\ 1 <= q <= delta_time_cap) /\
  (time_cluster_join_notification <= now s2 - t0 ->
     let s3 := update s2 in
     vst s3 = Standalone /\ js s3 = JWaiting /\ j_target s3 = Some cid /\ j_started s3 = Some (now s2) /\
     op_container s3 = OpNone /\ should_transmit s3 = true).
Proof. exact join_notify_duration. Qed.
Print Assumptions C18_join_notify_duration.

Theorem C18_join_notify_starts : forall s cid, reachable s ->
  (snd (initiate_join cid s) = true <-> vst s = Standalone /\ js s = JNone /\ ls s = LNone) /\
  (snd (initiate_join cid s) = true ->
     let s1 := fst (initiate_join cid s) in
     js s1 = JNotify /\ j_started s1 = Some (now s) /\ j_target s1 = Some cid /\ now s1 = now s).
Proof. exact join_notify_starts. Qed.
Print Assumptions C18_join_notify_starts.

(* leave notification after leaving a cluster (only VRU_ROLE_OFF ends it early) *)
Theorem C18_leave_notify_duration : forall s t0, reachable s -> ls s = LNotify -> l_started s = Some t0 ->
  forall mid, quiet (leave_undisturbed t0) s mid ->
  let s2 := run s mid in
  vst s2 = Standalone /\ should_transmit s2 = true /\
  op_container s2 = OpLeave (or0 (l_cluster s)) (or0 (l_reason s)) /\
  (time_cluster_leave_notification <= now s2 - t0 ->
     let s3 := update s2 in vst s3 = Standalone /\ ls s3 = LNone /\ op_container s3 = OpNone /\ should_transmit s3 = true).
Proof. exact leave_notify_duration. Qed.
Print Assumptions C18_leave_notify_duration.

(* every way out of a cluster starts it: command, leader lost, break-up announced by the leader *)
Theorem C18_leave_notify_starts : forall s c, reachable s -> vst s = Passive -> joined s = Some c ->
  (forall r, let s1 := step s (Leave r) in
     ls s1 = LNotify /\ l_started s1 = Some (now s) /\ l_cluster s1 = Some c /\ l_reason s1 = Some r) /\
  (forall t, last_leader s = Some t -> time_cluster_continuity <= now s - t ->
     let s1 := step s Update in
     ls s1 = LNotify /\ l_started s1 = Some (now s) /\ l_cluster s1 = Some c /\ l_reason s1 = Some lr_leader_lost) /\
  (forall v r, leader s = Some (sender v) -> op_breakup v = Some r -> r <> br_cpm ->
     let s1 := step s (Rx v) in
     ls s1 = LNotify /\ l_started s1 = Some (now s) /\ l_cluster s1 = Some c /\ l_reason s1 = Some lr_disbanded).
Proof. exact leave_notify_starts. Qed.
Print Assumptions C18_leave_notify_starts.

(* leave notification after a cancelled or failed join *)
Theorem C18_join_leave_notify_duration : forall s t0, reachable s -> js s = JCancelled \/ js s = JFailed ->
  jl_started s = Some t0 ->
  forall mid, quiet (leave_undisturbed t0) s mid ->
  let s2 := run s mid in
  vst s2 = Standalone /\ should_transmit s2 = true /\
  op_container s2 = OpLeave (or0 (j_target s)) (or0 (jl_reason s)) /\
  (time_cluster_leave_notification <= now s2 - t0 ->
     let s3 := update s2 in vst s3 = Standalone /\ js s3 = JNone /\ op_container s3 = OpNone /\ should_transmit s3 = true).
Proof. exact join_leave_notify_duration. Qed.
Print Assumptions C18_join_leave_notify_duration.

Theorem C18_join_leave_notify_starts : forall s, reachable s -> js s = JNotify \/ js s = JWaiting ->
  (let s1 := step s CancelJoin in
   js s1 = JCancelled /\ jl_started s1 = Some (now s) /\ j_target s1 = j_target s /\ jl_reason s1 = Some lr_cancelled_join) /\
  (js s = JWaiting -> forall t, j_started s = Some t -> time_cluster_join_success <= now s - t ->
   let s1 := step s Update in
   js s1 = JFailed /\ jl_started s1 = Some (now s) /\ j_target s1 = j_target s /\ jl_reason s1 = Some lr_failed_join).
Proof. exact join_leave_notify_starts. Qed.
Print Assumptions C18_join_leave_notify_starts.

(* break-up warning of a leader (only VRU_ROLE_OFF ends it early) *)
Theorem C18_breakup_warning_duration : forall s c t0, reachable s -> cluster s = Some c -> c_bk_started c = Some t0 ->
  forall mid, quiet (breakup_undisturbed t0) s mid ->
  let s2 := run s mid in
  vst s2 = Leader /\ should_transmit s2 = true /\ info_container s2 <> None /\
  (exists q, op_container s2 = OpBreakup (or0 (c_bk_reason c)) q /\ 1 <= q <= delta_time_cap) /\
  (time_cluster_breakup_warning <= now s2 - t0 ->
     let s3 := update s2 in
     vst s3 = Standalone /\ cluster s3 = None /\ should_transmit s3 = true /\ info_container s3 = None).
Proof. exact breakup_warning_duration. Qed.
Print Assumptions C18_breakup_warning_duration.

Theorem C18_breakup_warning_starts : forall s r, reachable s ->
  (snd (breakup r s) = true <-> vst s = Leader /\ exists c, cluster s = Some c /\ c_bk_started c = None) /\
  (snd (breakup r s) = true ->
     let s1 := fst (breakup r s) in
     now s1 = now s /\ exists c, cluster s1 = Some c /\ c_bk_started c = Some (now s) /\ c_bk_reason c = Some r).
Proof. exact breakup_warning_starts. Qed.
Print Assumptions C18_breakup_warning_starts.

(* --- a join towards an advertised cluster completes -------------------------------------- *)
Theorem C18_join_completes : forall s, reachable s -> js s = JWaiting ->
  vst s = Standalone /\ exists c, j_target s = Some c /\
    forall v oc card, info v = Some (oc, card) -> or0 oc = c -> op_breakup v = None ->
      let s' := rx v s in
      vst s' = Passive /\ joined s' = Some c /\ leader s' = Some (sender v) /\
      last_leader s' = Some (now s) /\ should_transmit s' = false /\ get_cluster_id s' = Some c.
Proof. exact join_completes. Qed.
Print Assumptions C18_join_completes.

(* --- the timing constants of the working tree meet what the proofs need ------------------ *)
Theorem C18_constants_sane :
  0 < time_cluster_join_notification /\ 0 < time_cluster_join_success /\
  0 < time_cluster_leave_notification /\ 0 < time_cluster_breakup_warning /\
  0 < time_cluster_continuity /\ 1 <= min_cluster_size /\ 0 < quarter_second /\ 1 <= delta_time_cap.
Proof. exact consts_facts. Qed.
Print Assumptions C18_constants_sane.

(* "specified durations": the constants of the working tree are those of TS 103 300-3 Table 15 *)
Theorem C18_constants_match_standard :
  time_cluster_uniqueness_threshold = 30 * ticks_per_second /\
  time_cluster_breakup_warning = 3 * ticks_per_second /\
  time_cluster_join_notification = 3 * ticks_per_second /\
  2 * time_cluster_join_success = ticks_per_second /\
  time_cluster_continuity = 2 * ticks_per_second /\
  time_cluster_leave_notification = ticks_per_second /\
  4 * quarter_second = ticks_per_second.
Proof. exact consts_standard. Qed.
Print Assumptions C18_constants_match_standard.

(* Non-vacuity: the hypotheses of the theorems above are met by concrete reachable states. *)
Example C18_example_passive :
  reachable ex_passive /\ vst ex_passive = Passive /\ leader ex_passive = Some (sender ex_cpm_vam).
Proof. split; [exact ex_passive_reachable|]. destruct ex_passive_facts as (A & B & _). auto. Qed.

Example C18_example_leader :
  reachable ex_leader /\ vst ex_leader = Leader /\ info_container ex_leader = Some (7, 5, 1, 128) /\
  snd (breakup 1 ex_leader) = true /\ should_transmit ex_leader = true.
Proof. split; [exact ex_leader_reachable|exact ex_leader_facts]. Qed.

Example C18_example_phases :
  (let s := run (init 1 0 1024) [InitiateJoin 7; Tick 1000] in
   js s = JNotify /\ op_container s = OpJoin 7 8) /\
  (let s := run (init 1 0 1024) [InitiateJoin 7; Tick 3072; Update] in js s = JWaiting /\ should_transmit s = true) /\
  (let s := run ex_passive [Leave 8; Tick 500] in ls s = LNotify /\ op_container s = OpLeave 7 8) /\
  (let s := run ex_passive [Tick 2048; Update] in vst s = Standalone /\ op_container s = OpLeave 7 lr_leader_lost) /\
  (let s := run ex_leader [Breakup 1; Tick 3000] in op_container s = OpBreakup 1 1) /\
  (let s := run ex_leader [Breakup 1; Tick 3072; Update] in vst s = Standalone /\ cluster s = None) /\
  (let s := run (init 1 0 1024) [InitiateJoin 7; CancelJoin] in op_container s = OpLeave 7 lr_cancelled_join).
Proof. exact ex_phases. Qed.
