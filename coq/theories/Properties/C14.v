(* C14 - LDM subscriptions notify exactly the matching data, at the requested cadence.
   This file holds only the audited statements; proofs are in Proofs/LdmSubProofs.v.
   Vocabulary (Model/LdmSub.v): `step s o` = (state, response, callback invocations) of one
   operation; `attends s o` says whether o attends the subscriptions (explicit attendance, or an
   addition at least 500 ms after the last reactive attendance) and `attend_view s o` is the state
   the attendance looks at; `due v u` = consumer registered, data non-empty, at least
   `multiplicity` objects, and `u_last u + notify_time <= now truncated to the second`;
   the data of a subscription is LdmFilter.query (property C13). *)
From FlexVerif Require Import Base.Prelude Model.LdmFilter Model.LdmSub Proofs.LdmSubProofs.
From FlexVerif Require Import Model.LdmSubReact Proofs.LdmSubReactProofs.

(* each attendance invokes exactly the callbacks of the due subscriptions, once each, in subscription
   order, with exactly the C13 query result; an operation that does not attend invokes none *)
Theorem C14_notify_exact : forall s o,
  calls_of (step s o) =
  if attends s o
  then map (fun u => (u_cb u, map o_idx (query (store (attend_view s o)) (u_req u))))
           (filter (due (attend_view s o)) (subs (attend_view s o)))
  else [].
Proof. exact notify_exact. Qed.
Print Assumptions C14_notify_exact.

(* ... and that result is exactly the stored objects of the subscribed types that match the filter *)
Theorem C14_notified_objects_exact : forall s u ob,
  In ob (data_of s u) <->
  In ob (store s) /\ type_ok (q_types (u_req u)) ob = true /\ eval_flt (q_flt (u_req u)) ob = true.
Proof. exact notified_objects_exact. Qed.
Print Assumptions C14_notified_objects_exact.

(* matching data is notified by the first attendance at which the subscription is due *)
Theorem C14_notify_by_first_attendance : forall s o u,
  attends s o = true -> In u (subs (attend_view s o)) -> due (attend_view s o) u = true ->
  In (u_cb u, map o_idx (query (store (attend_view s o)) (u_req u))) (calls_of (step s o)).
Proof. exact notify_by_first_attendance. Qed.
Print Assumptions C14_notify_by_first_attendance.

(* the time `due` measures the interval from is the second of the previous notification (of the
   subscription itself, when there was none): it changes exactly when the subscription is notified *)
Theorem C14_last_tracks_notifications : forall s o u', In u' (subs (st_of (step s o))) ->
  (exists u, In u (subs s) /\
     ((attends s o = true /\ due (attend_view s o) u = true /\ u' = set_last u (trunc_s (now s)) /\
       In (call_of (attend_view s o) u) (calls_of (step s o)))
      \/ ((attends s o = false \/ due (attend_view s o) u = false) /\ u' = u)))
  \/ (exists r, o = Subscribe r /\ validate s r = 0 /\ u' = new_sub s r).
Proof. exact last_tracks_notifications. Qed.
Print Assumptions C14_last_tracks_notifications.

Theorem C14_no_callback_after_unsubscribe : forall t0 ops1 aid key ops2 u,
  let s := state_after t0 ops1 in
  out_of (step s (Unsubscribe aid key)) = [0] -> In u (subs s) -> u_key u = key ->
  forall call, In call (all_calls (st_of (step s (Unsubscribe aid key))) ops2) -> fst call <> u_cb u.
Proof. exact no_callback_after_unsubscribe. Qed.
Print Assumptions C14_no_callback_after_unsubscribe.

(* also when the application registers again later *)
Theorem C14_no_callback_after_deregister : forall t0 ops1 aid ops2 u,
  let s := state_after t0 ops1 in
  out_of (step s (DeregCons aid)) = [0] -> In u (subs s) -> u_app u = aid ->
  forall call, In call (all_calls (st_of (step s (DeregCons aid))) ops2) -> fst call <> u_cb u.
Proof. exact no_callback_after_deregister. Qed.
Print Assumptions C14_no_callback_after_deregister.

(* other subscriptions are unaffected: they stay, unchanged, through every operation that is not
   their own unsubscription / the deregistration of their consumer; an attendance leaves a registered
   subscription unchanged or (when it is due) only moves its last-notified time *)
Theorem C14_isolation : forall s o u, In u (subs s) ->
  match o with
  | Unsubscribe _ key => u_key u <> key -> In u (subs (st_of (step s o)))
  | DeregCons aid => u_app u <> aid -> In u (subs (st_of (step s o)))
  | AddObj _ _ | Attend =>
      if attends s o
      then registered (attend_view s o) u = true ->
           In (if due (attend_view s o) u then set_last u (trunc_s (now s)) else u) (subs (st_of (step s o)))
      else In u (subs (st_of (step s o)))
  | _ => In u (subs (st_of (step s o)))
  end.
Proof. exact isolation. Qed.
Print Assumptions C14_isolation.

(* Known finding KF-C14-1. The property asks that the unsubscription of one subscription leaves every subscription made
   with a DIFFERENT REQUEST alone. The code identifies a subscription by hash(request); the model takes that
   identifier as an input (r_key). What holds is the clause for subscriptions with a different IDENTIFIER (_partial,
   the Unsubscribe case of C14_isolation); the full clause is false as soon as two different requests carry one
   identifier (_refuted: the requests of the witness differ in the filter reference value -1 / -2, which CPython
   hashes alike; the harness replays it on the code). *)
Definition C14_unsubscribe_spares_other_requests_full : Prop := unsubscribe_spares_other_requests_stmt false.

Theorem C14_unsubscribe_spares_other_requests_partial : unsubscribe_spares_other_requests_stmt true.
Proof. exact unsubscribe_spares_other_requests_partial. Qed.
Print Assumptions C14_unsubscribe_spares_other_requests_partial.

Theorem C14_unsubscribe_spares_other_requests_refuted : ~ C14_unsubscribe_spares_other_requests_full.
Proof. exact unsubscribe_spares_other_requests_refuted. Qed.
Print Assumptions C14_unsubscribe_spares_other_requests_refuted.

(* invalid requests are refused without effect, with a code that names an invalid field *)
Theorem C14_invalid_refused_with_code : forall s r,
  let c := validate s r in
  (c <> 0 -> step s (Subscribe r) = (s, [c; 0], [])) /\
  (c = 0 <-> all_valid s r = true) /\
  (c = 1 -> mem (r_app r) (conss s) = false) /\
  (c = 2 -> forallb valid_type (r_types r) = false) /\
  (c = 3 -> opt_in (r_prio r) 0 255 = false) /\
  (c = 7 -> r_order_ok r = false) /\
  (c = 4 -> r_flt_ok r = false) /\
  (c = 5 -> opt_in (r_nt r) 0 4398046511103 = false) /\
  (c = 6 -> opt_in (r_mult r) 0 255 = false) /\
  (c = 0 \/ c = 1 \/ c = 2 \/ c = 3 \/ c = 4 \/ c = 5 \/ c = 6 \/ c = 7).
Proof. exact invalid_refused_with_code. Qed.
Print Assumptions C14_invalid_refused_with_code.

Theorem C14_single_invalid_field_code : forall s r,
  (mem (r_app r) (conss s) = false -> validate s r = 1) /\
  (mem (r_app r) (conss s) = true -> forallb valid_type (r_types r) = false -> validate s r = 2) /\
  (mem (r_app r) (conss s) = true -> forallb valid_type (r_types r) = true -> opt_in (r_prio r) 0 255 = false ->
   validate s r = 3) /\
  (mem (r_app r) (conss s) = true -> forallb valid_type (r_types r) = true -> opt_in (r_prio r) 0 255 = true ->
   r_order_ok r = false -> validate s r = 7) /\
  (mem (r_app r) (conss s) = true -> forallb valid_type (r_types r) = true -> opt_in (r_prio r) 0 255 = true ->
   r_order_ok r = true -> r_flt_ok r = false -> validate s r = 4) /\
  (mem (r_app r) (conss s) = true -> forallb valid_type (r_types r) = true -> opt_in (r_prio r) 0 255 = true ->
   r_order_ok r = true -> r_flt_ok r = true -> opt_in (r_nt r) 0 4398046511103 = false -> validate s r = 5) /\
  (mem (r_app r) (conss s) = true -> forallb valid_type (r_types r) = true -> opt_in (r_prio r) 0 255 = true ->
   r_order_ok r = true -> r_flt_ok r = true -> opt_in (r_nt r) 0 4398046511103 = true ->
   opt_in (r_mult r) 0 255 = false -> validate s r = 6).
Proof. exact single_invalid_field_code. Qed.
Print Assumptions C14_single_invalid_field_code.

(* ---- consumers that ACT on their notifications (seed C14-11; Model/LdmSubReact.v) --------------------------------
   From inside its callback a consumer may call back into the LDM: add data (on the reactive service that addition
   attends the subscriptions again, nested in the attendance under way), attend, subscribe, unsubscribe, (de)register.
   `history fuel tbl t0 ops` = the events (callback invocations ECall u positions second, begin / end of operations)
   of the history `ops` from an empty LDM at t0, where tbl gives, for subscribe operations of the history, what their
   consumer does from inside the 1st, 2nd, ... invocation of its callback; `mstep` is one small step of that machine
   (an operation that does not attend, or one subscription of an attendance), `mcfg n` the configuration after n small
   steps. fuel and n are arbitrary: every prefix of every such history. *)

(* cadence: between two consecutive notifications of a subscription at least its notification interval passes (at
   one-second resolution) - whatever the notified consumers do from inside their callbacks, nested attendances included *)
Theorem C14_reentrant_cadence : forall fuel tbl t0 ops l1 u1 d1 t1 l2 u2 d2 t2 l3 n,
  history fuel tbl t0 ops = l1 ++ ECall u1 d1 t1 :: l2 ++ ECall u2 d2 t2 :: l3 ->
  u_cb u1 = u_cb u2 -> (forall e, In e l2 -> ~ is_call_of (u_cb u2) e) ->
  u_nt u2 = Some n -> 0 < n -> t1 + n <= t2.
Proof. exact reentrant_cadence. Qed.
Print Assumptions C14_reentrant_cadence.

(* the reason: the notification is recorded before the callback runs - in the state in which the consumer's reaction
   is executed every subscription with that callback already carries the second of this very notification *)
Theorem C14_stamped_when_delivered : forall tbl c c' evs u d t,
  mstep tbl c = Some (c', evs) -> In (ECall u d t) evs ->
  t = trunc_s (now (c_st c)) /\ now (c_st c') = now (c_st c) /\
  forall v, In v (subs (c_st c')) -> u_cb v = u_cb u -> u_last v = t.
Proof. exact stamped_when_delivered. Qed.
Print Assumptions C14_stamped_when_delivered.

(* with consumers that only record, the machine is LdmSub.run: same final state, same callback invocations in the same
   order - so the theorems above about `step` are theorems about the machine *)
Theorem C14_passive_consumers_are_step : forall t0 ops,
  exists n c' evs,
    msteps n [] (start t0 ops) = Some (c', evs) /\
    c_st c' = state_after t0 ops /\ c_stack c' = [FOps true (Z.of_nat (length ops)) []] /\
    calls_in evs = all_calls (init t0) ops.
Proof. exact passive_is_run. Qed.
Print Assumptions C14_passive_consumers_are_step.

(* "After its cancellation the callback of a subscription is not invoked again", for histories with acting consumers.
   A small step cancels u when u is in the subscription list before it and no subscription with its callback is in the
   list after it: an unsubscription or a deregistration that is an operation of the history proper, or one made from
   inside a notification callback - then an attendance is under way that took its snapshot of the list before the
   cancellation and may still have u ahead of it. No event after that step is a call of u: the attendance looks a
   subscription up in the list when its turn comes (KF-C14-2, repaired: before the fix the clause held only for
   subscriptions that no attendance under way had ahead; its witness is C14_cancellation_example below and
   corpus/C14/cancelled_during_attendance.json). *)
Theorem C14_no_callback_after_cancellation : no_call_after_cancel_stmt.
Proof. exact no_call_after_cancel. Qed.
Print Assumptions C14_no_callback_after_cancellation.

(* Non-vacuity, on the former witness: two consumers without notification interval; from inside its notification the
   first one unsubscribes the second one's subscription. The hypotheses of the theorem hold at that step (7 small steps
   into the history), an attendance under way has the cancelled subscription ahead of it, the history comes to its end
   and its only callback invocation is the first consumer's. *)
Example C14_cancellation_example :
  In kf2_victim (subs (c_st kf2_before)) /\
  ~ In (u_cb kf2_victim) (map u_cb (subs (c_st kf2_after))) /\
  (exists f, In f (c_stack kf2_after) /\ ahead (u_cb kf2_victim) f) /\
  calls_in (fst (mrun 10 kf2_tbl (start 0 kf2_ops))) = [(0, [0])] /\
  snd (mrun 10 kf2_tbl kf2_after) = true.
Proof. exact kf2_instance. Qed.

(* Non-vacuity: two consumers, overlapping subscriptions, interval 1000 ms at second resolution,
   unsubscription, deregistration and re-registration. *)
Definition ex_rec (sid : Z) : jv :=
  JObj [(data_object_key, JObj [([104; 101; 97; 100; 101; 114], JObj [([115; 105; 100], JInt sid)])])].
Definition ex_sub (app key : Z) (nt : option Z) : sreq :=
  mkSreq app key [2] None true [] true FNone nt (Some 1).

Example C14_example :
  snd (run (init 5400)
         [RegCons 2 [2]; RegCons 16 [16]; Subscribe (ex_sub 2 0 (Some 1000)); Subscribe (ex_sub 16 1 (Some 0));
          AddObj 2 (ex_rec 7); Attend; Advance 600; Attend; Advance 999; Attend;
          Unsubscribe 2 0; DeregCons 16; RegCons 16 [16]; Attend])
  = [[]; []; []; []; []; [(1, [0])]; []; [(0, [0]); (1, [0])]; []; [(1, [0])]; []; []; []; []] /\
  validate (state_after 0 [RegCons 2 [2]]) (mkSreq 2 0 [2] (Some 256) true [] true FNone (Some (-1)) None) = 3.
Proof. vm_compute. split; reflexivity. Qed.

(* Non-vacuity of the statements about acting consumers: consumer 2 (interval 3000 ms) adds an object from inside each
   of its notifications; the nested attendance notifies consumer 16 (no interval) but not consumer 2 again; consumer 2
   is notified at 3000 and 6000, not at 4000. *)
Example C14_reentrant_example :
  flat_map flat_ev (filter (fun e => match e with ECall _ _ _ => true | _ => false end)
    (history 200 [(2, [Some (ROp (AddObj 2 (ex_rec 8))); Some (ROp (AddObj 2 (ex_rec 9)))])] 0
       [RegCons 2 [2]; RegCons 16 [16]; Subscribe (ex_sub 2 0 (Some 3000)); Subscribe (ex_sub 16 1 None);
        Advance 3000; AddObj 2 (ex_rec 7); Advance 1000; Attend; Advance 2000; Attend]))
  = [10; 0; 1; 0;   10; 1; 2; 0; 1;   10; 1; 2; 0; 1;   10; 1; 2; 0; 1;
     10; 0; 2; 0; 1;   10; 1; 3; 0; 1; 2;   10; 1; 3; 0; 1; 2].
Proof. vm_compute. reflexivity. Qed.
