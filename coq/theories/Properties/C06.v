(* C06 - multi-hop packets: at-most-once delivery and forwarding, shrinking hop budget.
   Audited statements only; proofs in Proofs/LocTProofs.v, Proofs/RouterProofs.v and Proofs/C06Moves.v. *)
From FlexVerif Require Import Base.Prelude Base.Bits Model.LocT Model.Wire Model.Router Model.RouterSecured
  Proofs.LocTProofs Proofs.RouterProofs Proofs.ForwardCopy Proofs.ForwardCopyGeo Proofs.FloodProofs Proofs.ForwardSecured
  Proofs.C06Moves.

(* -- duplicate detection: once (SO, SN) was accepted, a duplicate is rejected for as long as fewer than
      itsGnDPLLength other sequence numbers of SO have been accepted since -- *)
Theorem C06_duplicate_rejected_within_window : forall dpl0 sn sns len d0 d,
  0 < len -> Z.of_nat (length dpl0) <= len ->
  check_dup dpl0 sn len = Some d0 -> accept_all d0 sns len = Some d -> Z.of_nat (length sns) < len ->
  check_dup d sn len = None.
Proof. exact dup_rejected_within_window. Qed.
Print Assumptions C06_duplicate_rejected_within_window.

(* -- a rejected duplicate is neither delivered nor forwarded, for every multi-hop packet type -- *)
Theorem C06_duplicate_quiet_tsb : forall m s now bv cv body h, dec_tsb body = Some h ->
  rx_mh (s_loct s) (skipn 2 h) (arg 0 h) now (m_life_ms m) (m_dpl_len m) = None ->
  quiet (snd (rx_tsb m s now bv cv body)) /\ fst (rx_tsb m s now bv cv body) = s.
Proof. exact duplicate_quiet_tsb. Qed.
Print Assumptions C06_duplicate_quiet_tsb.

Theorem C06_duplicate_quiet_gbc : forall m s now g bv cv body h, dec_gbc body = Some h ->
  rx_mh (s_loct s) (firstn 9 (skipn 2 h)) (arg 0 h) now (m_life_ms m) (m_dpl_len m) = None ->
  quiet (snd (rx_gbc m s now g bv cv body)) /\ s_loct (fst (rx_gbc m s now g bv cv body)) = s_loct s.
Proof. exact duplicate_quiet_gbc. Qed.
Print Assumptions C06_duplicate_quiet_gbc.

Theorem C06_duplicate_quiet_gac : forall m s now g bv cv body h, dec_gbc body = Some h ->
  rx_mh (s_loct s) (firstn 9 (skipn 2 h)) (arg 0 h) now (m_life_ms m) (m_dpl_len m) = None ->
  quiet (snd (rx_gac m s now g bv cv body)) /\ fst (rx_gac m s now g bv cv body) = s.
Proof. exact duplicate_quiet_gac. Qed.
Print Assumptions C06_duplicate_quiet_gac.

Theorem C06_duplicate_quiet_guc : forall m s now g bv cv body h, dec_guc body = Some h ->
  rx_mh (s_loct s) (firstn 9 (skipn 2 h)) (arg 0 h) now (m_life_ms m) (m_dpl_len m) = None ->
  quiet (snd (rx_guc m s now g bv cv body)) /\ fst (rx_guc m s now g bv cv body) = s.
Proof. exact duplicate_quiet_guc. Qed.
Print Assumptions C06_duplicate_quiet_guc.

Theorem C06_duplicate_quiet_ls_request : forall m s now bv cv body h, dec_lsreq body = Some h ->
  rx_mh (s_loct s) (firstn 9 (skipn 2 h)) (arg 0 h) now (m_life_ms m) (m_dpl_len m) = None ->
  quiet (snd (rx_lsreq m s now bv cv body)) /\ fst (rx_lsreq m s now bv cv body) = s.
Proof. exact duplicate_quiet_lsreq. Qed.
Print Assumptions C06_duplicate_quiet_ls_request.

Theorem C06_duplicate_quiet_ls_reply : forall m s now g bv cv body h, dec_guc body = Some h ->
  rx_mh (s_loct s) (firstn 9 (skipn 2 h)) (arg 0 h) now (m_life_ms m) (m_dpl_len m) = None ->
  quiet (snd (rx_lsrep m s now g bv cv body)) /\ fst (rx_lsrep m s now g bv cv body) = s.
Proof. exact duplicate_quiet_lsrep. Qed.
Print Assumptions C06_duplicate_quiet_ls_reply.

(* -- packets bearing the station's own address are neither delivered nor forwarded, and change nothing -- *)
Theorem C06_own_packets_ignored : forall m s now g pkt a, so_addr pkt = Some a -> mid_eqb a (m_addr m) = true ->
  fst (rx m s now g pkt) = s /\ quiet (snd (rx m s now g pkt)).
Proof. exact own_packet_ignored. Qed.
Print Assumptions C06_own_packets_ignored.

(* -- every forwarded copy carries the received basic header with RHL exactly one lower, and none is made
      when the received RHL is 0 or 1 (any frame, any state, every packet type, SIMPLE and CBF) -- *)
Theorem C06_forwarded_copy_has_rhl_minus_1 : forall m s now g pkt bv p,
  dec_basic pkt = Some bv -> In (OFwd p) (snd (rx m s now g pkt)) ->
  1 < arg 5 bv /\ exists rest, p = enc_basic (bv_rhl bv (arg 5 bv - 1)) ++ rest.
Proof. exact forwarded_copy_has_rhl_minus_1. Qed.
Print Assumptions C06_forwarded_copy_has_rhl_minus_1.

Theorem C06_no_forward_for_rhl_0_or_1 : forall m s now g pkt bv p,
  dec_basic pkt = Some bv -> arg 5 bv <= 1 -> ~ In (OFwd p) (snd (rx m s now g pkt)).
Proof. exact no_forward_for_rhl_0_or_1. Qed.
Print Assumptions C06_no_forward_for_rhl_0_or_1.

Theorem C06_cbf_buffered_copy_has_rhl_minus_1 : forall m s now g bv cv body k p,
  In (k, p) (s_cbf (fst (rx_gbc m s now g bv cv body))) ->
  In (k, p) (s_cbf s) \/ (1 < arg 5 bv /\ exists rest, p = enc_basic (bv_rhl bv (arg 5 bv - 1)) ++ rest).
Proof. exact gbc_cbf_buffered. Qed.
Print Assumptions C06_cbf_buffered_copy_has_rhl_minus_1.

(* -- a forwarded TSB packet is, octet for octet, the received packet with RHL - 1, for every conformant
      packet (reserved bits zero; re-encoding the decoded headers is the identity).  The same is proved below for
      GeoBroadcast / GeoAnycast (incl. the copy kept in the CBF buffer) and for GeoUnicast (where the 20 octets of the
      destination position vector are the ones refresh_de chooses); LS packets: oracle and correspondence -- *)
Theorem C06_forwarded_tsb_is_octet_copy : forall m s now g pkt bv cv p,
  wf_bytes pkt = true -> (40 <= length pkt)%nat ->
  dec_basic pkt = Some bv -> dec_common (skipn 4 pkt) = Some cv -> arg 1 cv = 5 -> arg 2 cv = 1 ->
  common_conformant (skipn 4 pkt) -> lpv_conformant (skipn 16 pkt) ->
  In (OFwd p) (snd (rx m s now g pkt)) ->
  p = firstn 3 pkt ++ [arg 5 bv - 1] ++ skipn 4 pkt.
Proof. exact tsb_forward_is_copy. Qed.
Print Assumptions C06_forwarded_tsb_is_octet_copy.

Theorem C06_forwarded_geo_is_octet_copy : forall m s now g pkt bv cv p,
  wf_bytes pkt = true -> dec_basic pkt = Some bv -> dec_common (skipn 4 pkt) = Some cv -> (arg 1 cv = 4 \/ arg 1 cv = 3) ->
  common_conformant (skipn 4 pkt) -> lpv_conformant (skipn 16 pkt) ->
  In (OFwd p) (snd (rx m s now g pkt)) ->
  p = firstn 3 pkt ++ [arg 5 bv - 1] ++ skipn 4 pkt.
Proof. exact geo_forward_is_copy. Qed.
Print Assumptions C06_forwarded_geo_is_octet_copy.

Theorem C06_cbf_buffered_is_reassembly : forall m s now g bv cv body k p,
  In (k, p) (s_cbf (fst (rx_gbc m s now g bv cv body))) ->
  In (k, p) (s_cbf s) \/ exists h, dec_gbc body = Some h /\ p = gbc_packet bv cv h (skipn 44 body) (arg 5 bv - 1).
Proof. exact gbc_cbf_shape. Qed.
Print Assumptions C06_cbf_buffered_is_reassembly.

Theorem C06_reassembled_geo_is_octet_copy : forall pkt bv cv h,
  wf_bytes pkt = true -> dec_basic pkt = Some bv -> dec_common (skipn 4 pkt) = Some cv -> dec_gbc (skipn 12 pkt) = Some h ->
  common_conformant (skipn 4 pkt) -> lpv_conformant (skipn 16 pkt) -> 1 <= arg 5 bv ->
  gbc_packet bv cv h (skipn 44 (skipn 12 pkt)) (arg 5 bv - 1) = firstn 3 pkt ++ [arg 5 bv - 1] ++ skipn 4 pkt.
Proof. exact gbc_packet_is_copy. Qed.
Print Assumptions C06_reassembled_geo_is_octet_copy.

Theorem C06_forwarded_guc_octets : forall m s now g pkt bv cv p,
  wf_bytes pkt = true -> dec_basic pkt = Some bv -> dec_common (skipn 4 pkt) = Some cv -> arg 1 cv = 2 ->
  common_conformant (skipn 4 pkt) -> lpv_conformant (skipn 16 pkt) ->
  In (OFwd p) (snd (rx m s now g pkt)) ->
  exists h t, dec_guc (skipn 12 pkt) = Some h /\
    rx_mh (s_loct s) (firstn 9 (skipn 2 h)) (arg 0 h) now (m_life_ms m) (m_dpl_len m) = Some t /\
    p = firstn 3 pkt ++ [arg 5 bv - 1] ++ firstn 36 (skipn 4 pkt) ++ enc_spv (refresh_de t (skipn 11 h)) ++ skipn 60 pkt.
Proof. exact guc_forward_octets. Qed.
Print Assumptions C06_forwarded_guc_octets.

Theorem C06_forwarded_guc_is_octet_copy_without_refresh : forall m s now g pkt bv cv p h t,
  wf_bytes pkt = true -> (60 <= length pkt)%nat -> dec_basic pkt = Some bv -> dec_common (skipn 4 pkt) = Some cv -> arg 1 cv = 2 ->
  common_conformant (skipn 4 pkt) -> lpv_conformant (skipn 16 pkt) -> spv_conformant (firstn 20 (skipn 40 pkt)) ->
  In (OFwd p) (snd (rx m s now g pkt)) ->
  dec_guc (skipn 12 pkt) = Some h ->
  rx_mh (s_loct s) (firstn 9 (skipn 2 h)) (arg 0 h) now (m_life_ms m) (m_dpl_len m) = Some t ->
  refresh_de t (skipn 11 h) = skipn 11 h ->
  p = firstn 3 pkt ++ [arg 5 bv - 1] ++ skipn 4 pkt.
Proof. exact guc_forward_is_copy. Qed.
Print Assumptions C06_forwarded_guc_is_octet_copy_without_refresh.

(* -- packets received as SECURED packets (Basic Header NH = 2; rx_secured: the verify service is an oracle that
      returns the plain message).  The full clause - the forwarded copy keeps the first three octets of the received
      packet, as for unsecured packets above - is FALSE of the code (known finding KF-C06-1): the copy leaves as an
      unsecured packet.  What does hold: it carries the received Basic Header with NH rewritten to 1 and RHL - 1, and
      none is made for RHL 0 or 1.  All other clauses (duplicates, own address, at most one copy, CBF) are inherited
      from rx, which rx_secured calls on the plain message. -- *)
Definition C06_secured_forward_full : Prop := secured_forward_keeps_basic_header.

Theorem C06_secured_forward_refuted : ~ C06_secured_forward_full.
Proof. exact secured_forward_refuted. Qed.
Print Assumptions C06_secured_forward_refuted.

Theorem C06_secured_forward_actual : forall m s now g pkt plain bv p,
  dec_basic pkt = Some bv -> arg 0 bv = 1 -> arg 1 bv = 2 -> wf_basic (bv_nh bv 1) = true ->
  In (OFwd p) (snd (rx_secured m s now g pkt plain)) ->
  1 < arg 5 bv /\ exists rest, p = enc_basic (bv_rhl (bv_nh bv 1) (arg 5 bv - 1)) ++ rest.
Proof. exact secured_forward_actual. Qed.
Print Assumptions C06_secured_forward_actual.

(* -- unicast: the destination position vector is refreshed only by a strictly newer one of a neighbour -- *)
Theorem C06_de_pv_refreshed_only_by_newer : forall t de, refresh_de t de = de \/
  exists e, find t (firstn 3 de) = Some e /\ e_nb e = true /\ tst_gt (pv_tst (e_pv e)) (arg 3 de) = true /\
            refresh_de t de = firstn 3 (e_pv e) ++ [pv_tst (e_pv e); pv_lat (e_pv e); pv_lon (e_pv e)].
Proof. exact de_refresh_only_newer. Qed.
Print Assumptions C06_de_pv_refreshed_only_by_newer.

(* -- contention-based forwarding: a buffered copy is dropped when a duplicate is overheard, and a
      buffered copy is transmitted at most once -- *)
Theorem C06_cbf_duplicate_cancels : forall m s now g bv cv body h p0,
  dec_gbc body = Some h -> zero_area (arg 2 cv) h = false ->
  lookup_ins (g_ins g) (pv_lat (s_ego s)) (pv_lon (s_ego s)) <> None ->
  mid_eqb (pv_addr (firstn 9 (skipn 2 h))) (m_addr m) = false ->
  rx_mh (s_loct s) (firstn 9 (skipn 2 h)) (arg 0 h) now (m_life_ms m) (m_dpl_len m) = None ->
  cbf_find (s_cbf s) (pv_addr (firstn 9 (skipn 2 h)) ++ [arg 0 h]) = Some p0 ->
  let key := pv_addr (firstn 9 (skipn 2 h)) ++ [arg 0 h] in
  let s' := fst (rx_gbc m s now g bv cv body) in
  In (OTimerCancel 1 key) (snd (rx_gbc m s now g bv cv body)) /\ quiet (snd (rx_gbc m s now g bv cv body)) /\
  cbf_fire s' key = (s', []).
Proof. exact cbf_duplicate_cancels. Qed.
Print Assumptions C06_cbf_duplicate_cancels.

(* ... wherever the station is by then: it may report any number of new positions between the reception that put the
   copy into the buffer and the duplicate (hypotheses on the state s before the moves, conclusion after them); position
   updates touch neither the duplicate lists nor the buffer and send nothing *)
Theorem C06_position_updates_keep_duplicate_state : forall m pvs s,
  let r := run m s (map EEgo pvs) in
  s_loct (fst r) = s_loct s /\ s_cbf (fst r) = s_cbf s /\ s_sn (fst r) = s_sn s /\ s_ls (fst r) = s_ls s /\
  Forall (fun o => o = []) (snd r).
Proof. exact ego_updates_keep_state. Qed.
Print Assumptions C06_position_updates_keep_duplicate_state.

Theorem C06_cbf_duplicate_cancels_after_moves : forall m s pvs now g bv cv body h p0,
  let sm := fst (run m s (map EEgo pvs)) in
  dec_gbc body = Some h -> zero_area (arg 2 cv) h = false ->
  lookup_ins (g_ins g) (pv_lat (s_ego sm)) (pv_lon (s_ego sm)) <> None ->
  mid_eqb (pv_addr (firstn 9 (skipn 2 h))) (m_addr m) = false ->
  rx_mh (s_loct s) (firstn 9 (skipn 2 h)) (arg 0 h) now (m_life_ms m) (m_dpl_len m) = None ->
  cbf_find (s_cbf s) (pv_addr (firstn 9 (skipn 2 h)) ++ [arg 0 h]) = Some p0 ->
  let key := pv_addr (firstn 9 (skipn 2 h)) ++ [arg 0 h] in
  let s' := fst (rx_gbc m sm now g bv cv body) in
  In (OTimerCancel 1 key) (snd (rx_gbc m sm now g bv cv body)) /\ quiet (snd (rx_gbc m sm now g bv cv body)) /\
  cbf_fire s' key = (s', []).
Proof. exact cbf_duplicate_cancels_after_moves. Qed.
Print Assumptions C06_cbf_duplicate_cancels_after_moves.

Theorem C06_cbf_sent_at_most_once : forall s key,
  cbf_fire (fst (cbf_fire s key)) key = (fst (cbf_fire s key), []).
Proof. exact cbf_sent_at_most_once. Qed.
Print Assumptions C06_cbf_sent_at_most_once.

(* -- every flood terminates: one reception yields at most one forwarded copy, with RHL - 1 >= 1 (above), so for
      any topology with at most K stations in range, any station states and any timer order, an execution that
      starts from the frames in pool p delivers at most  sum over p of (K+1)^RHL  frames -- *)
Theorem C06_at_most_one_forward_per_reception : forall m s now g pkt, (count_fwd (snd (rx m s now g pkt)) <= 1)%nat.
Proof. exact at_most_one_forward. Qed.
Print Assumptions C06_at_most_one_forward_per_reception.

Theorem C06_flood_terminates : forall K, 0 <= K -> forall n p p', nsteps K n p p' -> Z.of_nat n <= weight K p.
Proof. exact flood_bound. Qed.
Print Assumptions C06_flood_terminates.

(* non-vacuity: a TSB packet with RHL 3 from another station is forwarded with RHL 2 *)
Example C06_example :
  let m := mkMib [0; 5; 99] 1 60 10 8 20000 1 10 in
  let s := init [0; 5; 99; 0; 0; 0; 1; 0; 0] in
  let pkt := enc_basic [1; 1; 0; 60; 1; 3] ++ enc_common [2; 5; 1; 0; 0; 0; 128; 2; 10; 0]
             ++ enc_tsb [7; 0; 0; 5; 1; 1000; 10; 20; 1; 0; 0] ++ [65; 66] in
  exists p, In (OFwd p) (snd (rx m s 2000 (mkGeo false [] []) pkt)) /\ nth 3 p 0 = 2.
Proof. vm_compute. eexists. split; [right; left; reflexivity | reflexivity]. Qed.
