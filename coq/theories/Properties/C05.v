(* C05 - Honestly signed messages are accepted by every station sharing the trust root;
   each signed message satisfies the TS 103 097 clause 7.1 profile of its type.
   Audited statements only; proofs in Proofs/SecSignProofs.v, notions (knows, can_learn,
   receiver_ready, usable, ca_wf, tbs_plain, inline_of) in Model/SecSpec.v, model in Model/Sec.v.

   The acceptance theorems carry, as explicit premises, the completeness of the signature
   oracle for the signing oracle: a signature made with a key verifies under that key
   (and is in the supported format, i.e. its identifier is not 0). Nothing else is assumed
   about ECDSA or the hash. [one_second] is one second in the clock ticks of the model. *)
From FlexVerif Require Import Base.Prelude Model.Sec Model.SecSpec Model.SecListen Proofs.SecProofs Proofs.SecSignProofs
  Proofs.SecListenProofs.

(* ---- acceptance: sign, then verify at any receiver that knows the ticket or, when the
   message carries the certificate, can chain it to its own trusted authorities ---- *)
Theorem C05_sign_then_verify_cam :
  forall (hash8 : cert -> Z) (sig_ok : Z -> Z -> Z -> bool) (sign : Z -> Z -> Z) (enc_tbs : tbsdata -> Z),
    (forall k t, sig_ok k t (sign k t) = true) -> (forall k t, sign k t <> 0) ->
    forall (S R : station) (now psid gen payload : Z) (S' : station) (m : msg),
      sign_cam hash8 sign enc_tbs S now psid gen payload = (S', RMsg m) ->
      ca_wf (st_store S) -> psid <> 37 -> payload <> 0 ->
      forall c : cert,
        (exists e, present_at (st_store S) psid = Some e /\ e_cert e = c) ->
        usable c -> valid_at c gen = true ->
        receiver_ready hash8 sig_ok (st_store R) c (m_signer m) ->
        snd (verify_msg hash8 sig_ok R m) = RVerify R_SUCCESS (hash8 c) payload.
Proof. exact sign_then_verify_cam. Qed.
Print Assumptions C05_sign_then_verify_cam.

Theorem C05_sign_then_verify_denm :
  forall (hash8 : cert -> Z) (sig_ok : Z -> Z -> Z -> bool) (sign : Z -> Z -> Z) (enc_tbs : tbsdata -> Z),
    (forall k t, sig_ok k t (sign k t) = true) -> (forall k t, sign k t <> 0) ->
    forall (S R : station) (psid gen payload : Z) (S' : station) (m : msg),
      sign_denm sign enc_tbs S psid gen payload = (S', RMsg m) -> payload <> 0 ->
      forall c : cert,
        (exists e, present_at (st_store S) psid = Some e /\ e_cert e = c) ->
        usable c -> valid_at c gen = true ->
        knows hash8 sig_ok (st_store R) c \/ can_learn hash8 sig_ok (st_store R) c ->
        snd (verify_msg hash8 sig_ok R m) = RVerify R_SUCCESS (hash8 c) payload.
Proof. exact sign_then_verify_denm. Qed.
Print Assumptions C05_sign_then_verify_denm.

Theorem C05_sign_then_verify_generic :
  forall (hash8 : cert -> Z) (sig_ok : Z -> Z -> Z -> bool) (sign : Z -> Z -> Z) (enc_tbs : tbsdata -> Z),
    (forall k t, sig_ok k t (sign k t) = true) -> (forall k t, sign k t <> 0) ->
    forall (S R : station) (psid gen payload : Z) (S' : station) (m : msg),
      sign_other hash8 sign enc_tbs S psid gen payload = (S', RMsg m) -> psid <> 37 -> payload <> 0 ->
      forall c : cert,
        (exists e, present_at (st_store S) psid = Some e /\ e_cert e = c) ->
        usable c -> valid_at c gen = true ->
        knows hash8 sig_ok (st_store R) c ->
        snd (verify_msg hash8 sig_ok R m) = RVerify R_SUCCESS (hash8 c) payload.
Proof. exact sign_then_verify_other. Qed.
Print Assumptions C05_sign_then_verify_generic.

(* the "otherwise" branch for the generic profile, which always signs with the digest: a receiver
   that has not learnt the ticket reports SIGNER_CERTIFICATE_NOT_FOUND and queues the ticket for its
   next CAM's inlineP2pcdRequest (the message itself is not delivered) *)
Theorem C05_generic_unknown_ticket :
  forall (hash8 : cert -> Z) (sig_ok : Z -> Z -> Z -> bool) (sign : Z -> Z -> Z) (enc_tbs : tbsdata -> Z)
         (S R : station) (psid gen payload : Z) (S' : station) (m : msg),
    sign_other hash8 sign enc_tbs S psid gen payload = (S', RMsg m) -> psid <> 37 ->
    forall c : cert,
      (exists e, present_at (st_store S) psid = Some e /\ e_cert e = c) ->
      find_key hash8 (hash8 c) (ats (st_store R)) = None ->
      verify_msg hash8 sig_ok R m =
      (mkStation (st_store R) (notify_unknown (st_sign R) (hash8 c)), RVerify R_SIGNER_NOT_FOUND 0 0).
Proof. exact other_unknown_not_found. Qed.
Print Assumptions C05_generic_unknown_ticket.

(* ---- clause 7.1.1: CAM / VAM signer ---- *)
Theorem C05_cam_signer_rule :
  forall (hash8 : cert -> Z) (sign : Z -> Z -> Z) (enc_tbs : tbsdata -> Z)
         (sn : station) (now psid gen payload : Z) (sn' : station) (m : msg),
    sign_cam hash8 sign enc_tbs sn now psid gen payload = (sn', RMsg m) ->
    exists c : cert,
      (exists e, present_at (st_store sn) psid = Some e /\ e_cert e = c) /\
      (one_second < now - last_full (st_sign sn) \/ req_own (st_sign sn) = true ->
         m_signer m = SCerts [c] /\ last_full (st_sign sn') = now /\ req_own (st_sign sn') = false) /\
      (~ (one_second < now - last_full (st_sign sn) \/ req_own (st_sign sn) = true) ->
         m_signer m = SDigest (hash8 c) /\ last_full (st_sign sn') = last_full (st_sign sn) /\
         req_own (st_sign sn') = req_own (st_sign sn)).
Proof. exact cam_signer_rule. Qed.
Print Assumptions C05_cam_signer_rule.

(* ---- header fields of each profile: exactly the mandatory, none of the forbidden ---- *)
Theorem C05_cam_header_profile :
  forall (hash8 : cert -> Z) (sign : Z -> Z -> Z) (enc_tbs : tbsdata -> Z)
         (sn : station) (now psid gen payload : Z) (sn' : station) (m : msg),
    sign_cam hash8 sign enc_tbs sn now psid gen payload = (sn', RMsg m) ->
    let t := m_tbsd m in
    t_psid t = psid /\ t_gen t = Some gen /\ t_payload t = payload /\
    t_genloc t = false /\ t_learn t = false /\ t_crl t = false /\ t_expiry t = false /\ t_enckey t = false /\
    t_inline t = inline_of (st_sign sn) /\
    (requested (st_sign sn) = [] -> t_reqcert t = None) /\
    (forall h r, requested (st_sign sn) = h :: r ->
       exists x, ca_by_h3 hash8 (st_store sn) h = Some x /\ t_reqcert t = Some (e_cert x) /\
                 requested (st_sign sn') = r).
Proof. exact cam_header_profile. Qed.
Print Assumptions C05_cam_header_profile.

Theorem C05_denm_always_certificate :
  forall (sign : Z -> Z -> Z) (enc_tbs : tbsdata -> Z) (sn : station) (psid gen payload : Z) (sn' : station) (m : msg),
    sign_denm sign enc_tbs sn psid gen payload = (sn', RMsg m) ->
    sn' = sn /\
    exists e, present_at (st_store sn) psid = Some e /\
      m = mk_signed sign enc_tbs (e_cert e) (SCerts [e_cert e]) (tbs_plain psid gen payload true None None).
Proof. exact denm_always_certificate. Qed.
Print Assumptions C05_denm_always_certificate.

Theorem C05_generic_profile :
  forall (hash8 : cert -> Z) (sign : Z -> Z -> Z) (enc_tbs : tbsdata -> Z)
         (sn : station) (psid gen payload : Z) (sn' : station) (m : msg),
    sign_other hash8 sign enc_tbs sn psid gen payload = (sn', RMsg m) ->
    sn' = sn /\
    exists e, present_at (st_store sn) psid = Some e /\
      m = mk_signed sign enc_tbs (e_cert e) (SDigest (hash8 (e_cert e))) (tbs_plain psid gen payload false None None).
Proof. exact other_profile. Qed.
Print Assumptions C05_generic_profile.

(* ---- late joiner: for EVERY state of the sender's inclusion timer, request flag and unknown list
   and every choice of the three transmission times: either the sender's first CAM is accepted at
   once, or it is refused with SIGNER_CERTIFICATE_NOT_FOUND, the joiner's next CAM is accepted by
   the sender and the sender's next CAM is accepted by the joiner ---- *)
Theorem C05_late_joiner_two_exchanges :
  forall (hash8 : cert -> Z) (sig_ok : Z -> Z -> Z -> bool) (sign : Z -> Z -> Z) (enc_tbs : tbsdata -> Z),
    (forall k t, sig_ok k t (sign k t) = true) -> (forall k t, sign k t <> 0) ->
    forall (S J : station) (eS eJ : entry) (t1 t2 t3 g1 g2 g3 p1 p2 p3 : Z),
      present_at (st_store S) 36 = Some eS -> usable (e_cert eS) ->
      present_at (st_store J) 36 = Some eJ -> usable (e_cert eJ) ->
      can_learn hash8 sig_ok (st_store J) (e_cert eS) ->
      knows hash8 sig_ok (st_store S) (e_cert eJ) \/ can_learn hash8 sig_ok (st_store S) (e_cert eJ) ->
      requested (st_sign S) = [] -> requested (st_sign J) = [] -> ca_wf (st_store S) ->
      valid_at (e_cert eS) g1 = true -> valid_at (e_cert eJ) g2 = true -> valid_at (e_cert eS) g3 = true ->
      p1 <> 0 -> p2 <> 0 -> p3 <> 0 ->
      forall net1 r1 rs1 net2 r2 rs2 net3 r3 rs3,
        net_step hash8 sig_ok sign enc_tbs [S; J] 0 (OSignCam t1 36 g1 p1) [1%nat] = (net1, (r1, rs1)) ->
        net_step hash8 sig_ok sign enc_tbs net1 1 (OSignCam t2 36 g2 p2) [0%nat] = (net2, (r2, rs2)) ->
        net_step hash8 sig_ok sign enc_tbs net2 0 (OSignCam t3 36 g3 p3) [1%nat] = (net3, (r3, rs3)) ->
        rs1 = [RVerify R_SUCCESS (hash8 (e_cert eS)) p1] \/
        (rs1 = [RVerify R_SIGNER_NOT_FOUND 0 0] /\
         rs2 = [RVerify R_SUCCESS (hash8 (e_cert eJ)) p2] /\
         rs3 = [RVerify R_SUCCESS (hash8 (e_cert eS)) p3]).
Proof. exact late_joiner_two_exchanges. Qed.
Print Assumptions C05_late_joiner_two_exchanges.

(* the side condition ca_wf (CA certificates in a store carry a supported issuer form) holds after
   every history, for every oracle *)
Theorem C05_ca_wf_always :
  forall (hash8 : cert -> Z) (sig_ok : Z -> Z -> Z -> bool) (sign : Z -> Z -> Z) (enc_tbs : tbsdata -> Z) (ops : list op),
    ca_wf (st_store (final hash8 sig_ok sign enc_tbs init_station ops)).
Proof. exact ca_wf_history. Qed.
Print Assumptions C05_ca_wf_always.

(* ---- receivers configured without a sign service (VerifyService(backend, library): listen-only station,
   road-side monitor; Model/SecListen.v). Whatever SN-VERIFY.confirm a full station gives, a station with the
   same certificate library and no sign service gives the same; its sign state is never touched; it learns
   the same tickets. So the acceptance theorems above hold at such receivers for every message, whatever
   P2PCD fields it carries ---- *)
Theorem C05_listen_only_same_report :
  forall (hash8 : cert -> Z) (sig_ok : Z -> Z -> Z -> bool) (R : station) (m : msg) (code h p : Z),
    snd (verify_msg hash8 sig_ok R m) = RVerify code h p ->
    snd (verify_msg_lo hash8 sig_ok R m) = RVerify code h p.
Proof. exact listen_only_report. Qed.
Print Assumptions C05_listen_only_same_report.

Theorem C05_listen_only_state :
  forall (hash8 : cert -> Z) (sig_ok : Z -> Z -> Z -> bool) (R : station) (m : msg),
    st_sign (fst (verify_msg_lo hash8 sig_ok R m)) = st_sign R /\
    (t_reqcert (m_tbsd m) = None ->
     st_store (fst (verify_msg_lo hash8 sig_ok R m)) = st_store (fst (verify_msg hash8 sig_ok R m))).
Proof. exact listen_only_state. Qed.
Print Assumptions C05_listen_only_state.

Theorem C05_sign_then_verify_cam_listen_only :
  forall (hash8 : cert -> Z) (sig_ok : Z -> Z -> Z -> bool) (sign : Z -> Z -> Z) (enc_tbs : tbsdata -> Z),
    (forall k t, sig_ok k t (sign k t) = true) -> (forall k t, sign k t <> 0) ->
    forall (S R : station) (now psid gen payload : Z) (S' : station) (m : msg),
      sign_cam hash8 sign enc_tbs S now psid gen payload = (S', RMsg m) ->
      ca_wf (st_store S) -> psid <> 37 -> payload <> 0 ->
      forall c : cert,
        (exists e, present_at (st_store S) psid = Some e /\ e_cert e = c) ->
        usable c -> valid_at c gen = true ->
        receiver_ready hash8 sig_ok (st_store R) c (m_signer m) ->
        verify_msg_lo hash8 sig_ok R m =
        (mkStation (st_store (fst (verify_msg_lo hash8 sig_ok R m))) (st_sign R), RVerify R_SUCCESS (hash8 c) payload).
Proof. exact listen_only_accepts_cam. Qed.
Print Assumptions C05_sign_then_verify_cam_listen_only.

Theorem C05_sign_then_verify_denm_listen_only :
  forall (hash8 : cert -> Z) (sig_ok : Z -> Z -> Z -> bool) (sign : Z -> Z -> Z) (enc_tbs : tbsdata -> Z),
    (forall k t, sig_ok k t (sign k t) = true) -> (forall k t, sign k t <> 0) ->
    forall (S R : station) (psid gen payload : Z) (S' : station) (m : msg),
      sign_denm sign enc_tbs S psid gen payload = (S', RMsg m) -> payload <> 0 ->
      forall c : cert,
        (exists e, present_at (st_store S) psid = Some e /\ e_cert e = c) ->
        usable c -> valid_at c gen = true ->
        knows hash8 sig_ok (st_store R) c \/ can_learn hash8 sig_ok (st_store R) c ->
        snd (verify_msg_lo hash8 sig_ok R m) = RVerify R_SUCCESS (hash8 c) payload.
Proof. exact listen_only_accepts_denm. Qed.
Print Assumptions C05_sign_then_verify_denm_listen_only.

Theorem C05_sign_then_verify_generic_listen_only :
  forall (hash8 : cert -> Z) (sig_ok : Z -> Z -> Z -> bool) (sign : Z -> Z -> Z) (enc_tbs : tbsdata -> Z),
    (forall k t, sig_ok k t (sign k t) = true) -> (forall k t, sign k t <> 0) ->
    forall (S R : station) (psid gen payload : Z) (S' : station) (m : msg),
      sign_other hash8 sign enc_tbs S psid gen payload = (S', RMsg m) -> psid <> 37 -> payload <> 0 ->
      forall c : cert,
        (exists e, present_at (st_store S) psid = Some e /\ e_cert e = c) ->
        usable c -> valid_at c gen = true ->
        knows hash8 sig_ok (st_store R) c ->
        snd (verify_msg_lo hash8 sig_ok R m) = RVerify R_SUCCESS (hash8 c) payload.
Proof. exact listen_only_accepts_other. Qed.
Print Assumptions C05_sign_then_verify_generic_listen_only.

(* a network none of whose stations is listen-only is the network of Model/Sec.v (so the late-joiner theorem
   speaks about the configured network too) *)
Theorem C05_net_without_listen_only :
  forall (hash8 : cert -> Z) (sig_ok : Z -> Z -> Z -> bool) (sign : Z -> Z -> Z) (enc_tbs : tbsdata -> Z)
         (net : list station) (i : nat) (o : op) (rcv : list nat),
    net_step_cfg hash8 sig_ok sign enc_tbs [] net i o rcv = net_step hash8 sig_ok sign enc_tbs net i o rcv.
Proof. exact net_step_cfg_nil. Qed.
Print Assumptions C05_net_without_listen_only.

(* ---- non-vacuity: the premises are satisfiable, and a concrete two-station run ---- *)
Definition ex_ok (_ _ _ : Z) : bool := true.
Example C05_oracle_premises :
  (forall k t, ex_ok k t (model_sign k t) = true) /\ (forall k t, model_sign k t <> 0).
Proof. split; intros; [reflexivity|discriminate]. Qed.

Definition ex_root := mkCert 1 11 IssSelf false (Some [36]) (Some [mkPE PAll 2]) 0 100000000 1 201 101 true true.
Definition ex_aa := mkCert 2 12 (IssDigest 11) false (Some [36]) (Some [mkPE (PExplicit [36; 37; 638]) 1]) 0 100000000 2 202 102 true true.
Definition ex_atS := mkCert 3 1300013 (IssDigest 12) true (Some [36; 37]) None 0 100000000 3 203 103 true true.
Definition ex_atJ := mkCert 4 1400014 (IssDigest 12) true (Some [36; 37]) None 0 100000000 4 204 104 true true.
Definition ex_setup (own : cert) := [OAddRoot ex_root None; OAddAA ex_aa (Some ex_root); OAddOwn own (Some ex_aa)].
Definition ex_station (own : cert) := final model_hash8 ex_ok model_sign model_enc init_station (ex_setup own).
Definition ex_step net i o rcv := net_step model_hash8 ex_ok model_sign model_enc net i o rcv.
Definition ex_codes (x : list station * (res * list res)) : list Z :=
  map (fun r => match r with RVerify c _ _ => c | _ => -1 end) (snd (snd x)).

(* S has included its certificate 0.5 s ago: digest; J refuses, asks, S answers with the certificate;
   afterwards S is back to the digest and J no longer asks (the alternation is kept) *)
Example C05_example_late_joiner :
  let S := mkStation (st_store (ex_station ex_atS)) (mkSS [] [] (1000 * one_second) false) in
  let J := ex_station ex_atJ in
  let t0 := 1000 * one_second + one_second / 2 in
  let x1 := ex_step [S; J] 0 (OSignCam t0 36 5 71) [1%nat] in
  let x2 := ex_step (fst x1) 1 (OSignCam (t0 + 1000) 36 6 72) [0%nat] in
  let x3 := ex_step (fst x2) 0 (OSignCam (t0 + 2000) 36 7 73) [1%nat] in
  let x4 := ex_step (fst x3) 1 (OSignCam (t0 + 3000) 36 8 74) [0%nat] in
  let x5 := ex_step (fst x4) 0 (OSignCam (t0 + 4000) 36 9 75) [1%nat] in
  ex_codes x1 = [R_SIGNER_NOT_FOUND] /\ ex_codes x2 = [R_SUCCESS] /\ ex_codes x3 = [R_SUCCESS] /\
  ex_codes x4 = [R_SUCCESS] /\ ex_codes x5 = [R_SUCCESS] /\
  (match fst (snd x3) with RMsg m => match m_signer m with SCerts _ => true | _ => false end | _ => false end) = true /\
  (match fst (snd x4) with RMsg m => match t_inline (m_tbsd m) with None => true | _ => false end | _ => false end) = true /\
  (match fst (snd x5) with RMsg m => match m_signer m with SDigest _ => true | _ => false end | _ => false end) = true.
Proof. vm_compute. repeat split. Qed.
