(* C10 - CAM and VAM generation follow the timing and trigger rules of their standards.
   Audited statements only; proofs are in Proofs/CamGenProofs.v and Proofs/VamGenProofs.v.

   Vocabulary (Model/CamGen.v, Proofs/CamGenProofs.v):
     op          Start | Stop | Rep r (position report) | Check now dist (expiry of the
                 T_CheckCamGen timer at clock `now`; dist = metres to the position of the last CAM)
                 | CheckFail now (expiry of the timer when the CAM cannot be handed over: the encoder
                 rejects the current report or the lower layer raises, Annex B.2.5). Every statement
                 below quantifies over histories that may contain failed checks; `dense` constrains
                 the spacing of the checks at which a hand-over is possible.
     outs ops    the CAMs  Cam time lf gdt report_id  sent by the service, started in its initial
                 state, on the operation sequence ops;  reach ops = its state afterwards
     a premise   outs (pre ++ [Check t1 d1]) = outs pre ++ [c1]   says: the check at t1 sent c1;
                 outs (pre ++ [Check t1 d1] ++ mid) = outs pre ++ [c1]   says: nothing was sent during mid.
   All constants are those of the working tree (Gen/C10Consts.v, regenerated on every run);
   C10_cam_constants / C10_vam_constants pin them to the values of the property text. *)
From FlexVerif Require Import Base.Prelude Gen.C10Consts Model.CamGen Model.VamGen Model.CamPath
  Proofs.CamGenProofs Proofs.VamGenProofs Proofs.CamPathProofs.
From Coq Require Import QArith Qabs Qminmax.
Open Scope Z_scope.

Theorem C10_cam_constants :
  T_GEN_CAM_MIN = 100 /\ T_GEN_CAM_MAX = 1000 /\ T_CHECK_CAM_GEN <= T_GEN_CAM_MIN /\ 0 <= T_CHECK_CAM_GEN /\
  T_GEN_CAM_MIN <= T_GEN_CAM_DCC <= T_GEN_CAM_MAX /\ T_GEN_CAM_LF_MS = 500 /\
  (CAM_THR_HEADING == 4)%Q /\ (CAM_THR_POSITION == 4)%Q /\ (CAM_THR_SPEED == 1 # 2)%Q.
Proof. exact cam_constants. Qed.
Print Assumptions C10_cam_constants.

(* Consecutive CAMs of one activation are never closer than T_GenCamMin. *)
Theorem C10_cam_min_gap : forall pre t1 d1 c1 mid t2 d2 c2,
  outs (pre ++ [Check t1 d1]) = outs pre ++ [c1] ->
  outs (pre ++ [Check t1 d1] ++ mid) = outs pre ++ [c1] ->
  outs (pre ++ [Check t1 d1] ++ mid ++ [Check t2 d2]) = outs pre ++ [c1; c2] ->
  no_start mid ->
  cam_time c1 = t1 /\ cam_time c2 = t2 /\ T_GEN_CAM_MIN <= t2 - t1.
Proof. exact tr_min_gap. Qed.
Print Assumptions C10_cam_min_gap.

(* The same statement without "no Start in between" is false: after stop/start the first
   CAM is sent at once (the standard's "first CAM immediately after activation"). *)
Definition C10_cam_min_gap_across_restart_full : Prop := min_gap_any_two_consecutive_cams.
Theorem C10_cam_min_gap_across_restart_refuted : ~ C10_cam_min_gap_across_restart_full.
Proof. exact min_gap_across_restart_refuted. Qed.
Print Assumptions C10_cam_min_gap_across_restart_refuted.

(* While the service stays active (no Start/Stop in mid) and timer checks follow each other by at
   most P, the next check after a CAM that is T_GenCamMax or more later sends a CAM, and no check
   that sends a CAM can be later than T_GenCamMax + P after the previous CAM. *)
Theorem C10_cam_max_gap : forall pre t1 d1 c1 mid t2 d2 P,
  0 <= P ->
  outs (pre ++ [Check t1 d1]) = outs pre ++ [c1] ->
  outs (pre ++ [Check t1 d1] ++ mid) = outs pre ++ [c1] ->
  no_startstop mid -> dense P t1 (mid ++ [Check t2 d2]) ->
  t2 - t1 <= T_GEN_CAM_MAX + P.
Proof. exact tr_max_gap. Qed.
Print Assumptions C10_cam_max_gap.

Theorem C10_cam_deadline : forall pre t1 d1 c1 mid t2 d2,
  outs (pre ++ [Check t1 d1]) = outs pre ++ [c1] ->
  outs (pre ++ [Check t1 d1] ++ mid) = outs pre ++ [c1] ->
  no_startstop mid -> T_GEN_CAM_MAX <= t2 - t1 ->
  exists c2, outs (pre ++ [Check t1 d1] ++ mid ++ [Check t2 d2]) = outs pre ++ [c1; c2] /\ cam_time c2 = t2.
Proof. exact tr_deadline. Qed.
Print Assumptions C10_cam_deadline.

(* A CAM is generated at any (hence the first) check at which T_GenCamMin has elapsed and heading,
   position or speed of the current report r2 differ from those of the last CAM (built from r1)
   by more than the thresholds. *)
Theorem C10_cam_responsive : forall pre r1 t1 d1 c1 mid r2 t2 d2,
  cur_report pre = Some r1 ->
  outs (pre ++ [Check t1 d1]) = outs pre ++ [c1] ->
  outs (pre ++ [Check t1 d1] ++ mid) = outs pre ++ [c1] ->
  no_startstop mid ->
  cur_report (pre ++ [Check t1 d1] ++ mid) = Some r2 ->
  T_GEN_CAM_MIN <= t2 - t1 ->
  ((exists a b, r_track r2 = Some a /\ r_track r1 = Some b /\ (CAM_THR_HEADING < hdiff gen_params a b)%Q) \/
   (r_haspos r2 = true /\ r_haspos r1 = true /\ (CAM_THR_POSITION < d2)%Q) \/
   (exists a b, r_speed r2 = Some a /\ r_speed r1 = Some b /\ (CAM_THR_SPEED < Qabs (a - b))%Q)) ->
  exists c2, outs (pre ++ [Check t1 d1] ++ mid ++ [Check t2 d2]) = outs pre ++ [c1; c2] /\ cam_time c2 = t2.
Proof. exact tr_responsive. Qed.
Print Assumptions C10_cam_responsive.

(* hdiff is the distance on the circle: a turn across the 0/360 wrap is measured correctly. *)
Theorem C10_cam_heading_wrap : forall a b, (0 <= a <= 360)%Q -> (0 <= b <= 360)%Q ->
  let d := Qabs (a - b) in (hdiff gen_params a b == Qmin d (360 - d))%Q.
Proof. exact hdiff_circular. Qed.
Print Assumptions C10_cam_heading_wrap.

Theorem C10_cam_current_report : forall pre r mid, no_rep mid -> cur_report (pre ++ [Rep r] ++ mid) = Some r.
Proof. exact tr_cur_report. Qed.
Print Assumptions C10_cam_current_report.

(* Low-frequency container: in the first CAM after activation ... *)
Theorem C10_cam_lf_first : forall pre mid t d c,
  is_active pre = false ->
  outs (pre ++ [Start] ++ mid) = outs pre -> no_start mid ->
  outs (pre ++ [Start] ++ mid ++ [Check t d]) = outs pre ++ [c] ->
  cam_lf c = true.
Proof. exact tr_lf_first. Qed.
Print Assumptions C10_cam_lf_first.

(* ... and afterwards in exactly those CAMs that are generated 500 ms or more after the last CAM
   that carried it (cl at tl; the CAMs sent during mid carry none). *)
Theorem C10_cam_lf_rule : forall pre tl dl cl mid t2 d2 c2,
  outs (pre ++ [Check tl dl]) = outs pre ++ [cl] -> cam_lf cl = true ->
  no_start mid ->
  (forall c, In c (snd (run gen_params (reach (pre ++ [Check tl dl])) mid)) -> cam_lf c = false) ->
  outs (pre ++ [Check tl dl] ++ mid ++ [Check t2 d2]) = outs (pre ++ [Check tl dl] ++ mid) ++ [c2] ->
  cam_lf c2 = (T_GEN_CAM_LF_MS <=? t2 - tl).
Proof. exact tr_lf_rule. Qed.
Print Assumptions C10_cam_lf_rule.

Theorem C10_cam_inactive_initially : is_active [] = false.
Proof. exact tr_inactive_initially. Qed.
Print Assumptions C10_cam_inactive_initially.

Theorem C10_cam_inactive_after_stop : forall pre mid, no_start mid -> is_active (pre ++ [Stop] ++ mid) = false.
Proof. exact tr_inactive_after_stop. Qed.
Print Assumptions C10_cam_inactive_after_stop.

(* Nothing is sent before start or after stop. *)
Theorem C10_cam_silent_before_start : forall ops, no_start ops -> outs ops = [].
Proof. exact tr_silent_before_start. Qed.
Print Assumptions C10_cam_silent_before_start.

Theorem C10_cam_silent_after_stop : forall pre ops, no_start ops -> outs (pre ++ [Stop] ++ ops) = outs pre.
Proof. exact tr_silent_after_stop. Qed.
Print Assumptions C10_cam_silent_after_stop.

(* Each CAM reflects the latest position report; generationDeltaTime = its ITS timestamp mod 65536. *)
Theorem C10_cam_gdt : forall pre r mid t d c,
  no_rep mid ->
  outs (pre ++ [Rep r] ++ mid ++ [Check t d]) = outs (pre ++ [Rep r] ++ mid) ++ [c] ->
  c = Cam t (cam_lf c) (r_ts r mod 65536) (r_id r) /\ 0 <= r_ts r mod 65536 < 65536.
Proof. exact tr_gdt. Qed.
Print Assumptions C10_cam_gdt.

Theorem C10_cam_t_gen_invariant : forall ops, T_GEN_CAM_MIN <= t_gen (reach ops) <= T_GEN_CAM_MAX.
Proof. exact tr_t_gen. Qed.
Print Assumptions C10_cam_t_gen_invariant.

(* A check at which the CAM could not be handed over (encoder rejects the report, lower layer
   raises once) leaves no trace: nothing is sent, the state is not advanced, and all later CAMs -
   their times, their low-frequency containers (the interval is not restarted by a CAM that was
   not sent), their content - are those of the history without the failed check. *)
Theorem C10_cam_failed_check_no_trace : forall pre t post,
  reach (pre ++ [CheckFail t]) = reach pre /\
  outs (pre ++ [CheckFail t] ++ post) = outs (pre ++ post).
Proof. exact tr_failed_check_no_trace. Qed.
Print Assumptions C10_cam_failed_check_no_trace.

(* ---- VAM (Model/VamGen.v): vouts rs = the VAMs  Vam report_ts lf gdt  sent on the report
   sequence rs by a freshly activated VRU service ------------------------------------------- *)

Theorem C10_vam_constants :
  T_GENVAMMIN = 100 /\ T_GENVAMMAX = 5000 /\ T_GENVAM_LFMIN = 2000 /\
  T_GENVAMMIN <= T_GENVAM_INITIAL <= T_GENVAMMAX /\
  (MINREFERENCEPOINTPOSITIONCHANGETHRESHOLD == 4)%Q /\ (MINGROUNDSPEEDCHANGETHRESHOLD == 1 # 2)%Q /\
  (MINGROUNDVELOCITYORIENTATIONCHANGETHRESHOLD == 4)%Q.
Proof. exact vam_constants. Qed.
Print Assumptions C10_vam_constants.

(* A VAM with the low-frequency container is sent at the first report at which the station is
   neither passive nor idle. *)
Theorem C10_vam_first_immediately : forall rs r,
  all_closed rs -> vr_gate r = true ->
  vouts (rs ++ [r]) = [Vam (vr_ts r) true (vr_ts r mod 65536)].
Proof. exact tv_first. Qed.
Print Assumptions C10_vam_first_immediately.

(* Minimum gap on the reports' timestamps. FALSE as stated: the dynamics triggers are evaluated
   without regard to T_GenVamMin (known finding KF-C10-1). *)
Definition C10_vam_min_gap_full : Prop := vam_min_gap_full.

Theorem C10_vam_min_gap_refuted : ~ C10_vam_min_gap_full.
Proof. exact tv_min_gap_refuted. Qed.
Print Assumptions C10_vam_min_gap_refuted.

(* It holds whenever report r2 exceeds none of the position / speed / heading thresholds
   relative to the content of the previous VAM (built from r1). *)
Theorem C10_vam_min_gap_partial : forall pre r1 c1 mid r2 c2,
  vouts (pre ++ [r1]) = vouts pre ++ [c1] ->
  vouts (pre ++ [r1] ++ mid) = vouts pre ++ [c1] ->
  vouts (pre ++ [r1] ++ mid ++ [r2]) = vouts pre ++ [c1; c2] ->
  0 <= vr_ts r2 - vr_ts r1 ->
  vdyn_wrt r1 r2 = false ->
  vam_ts c1 = vr_ts r1 /\ vam_ts c2 = vr_ts r2 /\ T_GENVAMMIN <= vr_ts r2 - vr_ts r1.
Proof. exact tv_min_gap_partial. Qed.
Print Assumptions C10_vam_min_gap_partial.

(* While reports keep arriving at most P apart (P + T_GenVamMax below the 65.536 s wrap) and the
   station is neither passive nor idle (vdense), consecutive VAMs are at most T_GenVamMax + P apart
   and a VAM is sent at the latest at the first report T_GenVamMax after the previous one. *)
Theorem C10_vam_max_gap : forall pre r1 c1 mid r2 P,
  0 <= P -> P + T_GENVAMMAX < 65536 ->
  vouts (pre ++ [r1]) = vouts pre ++ [c1] ->
  vouts (pre ++ [r1] ++ mid) = vouts pre ++ [c1] ->
  vdense P (vr_ts r1) (mid ++ [r2]) ->
  vr_ts r2 - vr_ts r1 <= T_GENVAMMAX + P.
Proof. exact tv_max_gap. Qed.
Print Assumptions C10_vam_max_gap.

Theorem C10_vam_deadline : forall pre r1 c1 mid r2 P,
  0 <= P -> P + T_GENVAMMAX < 65536 ->
  vouts (pre ++ [r1]) = vouts pre ++ [c1] ->
  vouts (pre ++ [r1] ++ mid) = vouts pre ++ [c1] ->
  vdense P (vr_ts r1) (mid ++ [r2]) ->
  T_GENVAMMAX <= vr_ts r2 - vr_ts r1 ->
  exists c2, vouts (pre ++ [r1] ++ mid ++ [r2]) = vouts pre ++ [c1; c2] /\ vam_ts c2 = vr_ts r2.
Proof. exact tv_deadline. Qed.
Print Assumptions C10_vam_deadline.

(* Low-frequency container: in every VAM generated T_GenVamLFMin or more after the last VAM that
   carried it; otherwise only together with a cluster operation container. *)
Theorem C10_vam_lf_rule : forall pre rl cl mid r2 c2,
  vouts (pre ++ [rl]) = vouts pre ++ [cl] -> vam_lf cl = true ->
  (forall c, In c (snd (vrun gen_vparams (vreach (pre ++ [rl])) mid)) -> vam_lf c = false) ->
  vouts (pre ++ [rl] ++ mid ++ [r2]) = vouts (pre ++ [rl] ++ mid) ++ [c2] ->
  (T_GENVAM_LFMIN <= vr_now r2 - vr_now rl -> vam_lf c2 = true) /\
  (vam_lf c2 = true -> T_GENVAM_LFMIN <= vr_now r2 - vr_now rl \/ vr_clop r2 = true).
Proof. exact tv_lf_rule. Qed.
Print Assumptions C10_vam_lf_rule.

(* A report from which no VAM could be handed over (vfailed r: message construction, LDM adapter,
   encoder or lower layer raised) leaves no trace either: no VAM, state not advanced (in particular
   the time of the last low-frequency container), later VAMs as without that report. *)
Theorem C10_vam_failed_report_no_trace : forall pre r post,
  vreach (pre ++ [vfailed r]) = vreach pre /\
  vouts (pre ++ [vfailed r] ++ post) = vouts (pre ++ post).
Proof. exact tv_failed_no_trace. Qed.
Print Assumptions C10_vam_failed_report_no_trace.

(* The service must not lose a CAM that is due by building one the encoder has to reject. The only
   field of a CAM with the low-frequency container whose value depends on how far the vehicle has
   travelled is the path history: points of earlier CAMs relative to the current position
   (Model/CamPath.v; ds = the stored points, newest first, as (DeltaLatitude, DeltaLongitude) in
   0.1 microdegree w.r.t. the current report). For every history and every displacement - in
   particular after a report outage of any length - each emitted point is expressible in its type on
   BOTH axes, at most 23 are emitted ... *)
Theorem C10_cam_path_points_encodable : forall ds,
  (length (path_points ds) <= 23)%nat /\
  forall p, In p (path_points ds) ->
    -131071 <= fst p <= 131072 /\ -131071 <= snd p <= 131072.
Proof. exact path_points_encodable. Qed.
Print Assumptions C10_cam_path_points_encodable.

(* ... and nothing more is dropped than necessary: the emitted points are the stored ones, newest
   first, up to the end, the 23rd, or the first that is not expressible on one of the axes. *)
Theorem C10_cam_path_points_longest_prefix : forall ds, exists rest,
  ds = path_points ds ++ rest /\
  (rest = [] \/ length (path_points ds) = 23%nat \/
   exists d r, rest = d :: r /\ ~ (-131071 <= fst d <= 131072 /\ -131071 <= snd d <= 131072)).
Proof. exact path_points_longest_prefix. Qed.
Print Assumptions C10_cam_path_points_longest_prefix.

(* The stored history never exceeds 40 points, is empty after an activation and otherwise grows by
   the report of each CAM that was handed over. *)
Theorem C10_cam_path_history_bounded : forall ops,
  (length (phist ops) <= 40)%nat /\ phist (ops ++ [PClear]) = [] /\
  forall r, phist (ops ++ [PSent r]) = firstn 40 (r :: phist ops).
Proof. exact path_history_bounded. Qed.
Print Assumptions C10_cam_path_history_bounded.

(* Non-vacuity: concrete runs that satisfy the premises above. *)
Example C10_example_cam_run :
  outs [Rep rep0; Start; Check 1000 0; Check 1100 0; Rep rep1; Check 1200 (1 # 2); Check 1300 (1 # 2);
        Check 2200 0; Check 2300 0; Stop; Check 2400 0]
  = [Cam 1000 true 7168 0; Cam 1100 false 7168 0; Cam 1200 false 7568 1; Cam 1300 false 7568 1;
     Cam 2300 true 7568 1].
Proof. exact example_run. Qed.

Example C10_example_vam_run :
  vouts [vrep 630000000000 0 0; vrep 630000000050 0 0; vrep 630000000100 0 0; vrep 630000002100 0 0]
  = [Vam 630000000000 true 7168; Vam 630000000100 false 7268; Vam 630000002100 true 9268].
Proof. exact example_vrun. Qed.

Example C10_example_cam_failed_run :
  outs [Rep rep0; Start; Check 1000 0; Check 1100 (5 # 1); Check 1200 (5 # 1); Check 1300 (5 # 1);
        Check 1400 (5 # 1); CheckFail 1500; Check 1600 (5 # 1); Check 1700 (5 # 1)]
  = [Cam 1000 true 7168 0; Cam 1100 false 7168 0; Cam 1200 false 7168 0; Cam 1300 false 7168 0;
     Cam 1400 false 7168 0; Cam 1600 true 7168 0; Cam 1700 false 7168 0].
Proof. exact failed_run. Qed.

Example C10_example_vam_failed_run :
  vouts [vrep 630000000000 0 0; vrep 630000000100 0 0; vfailed (vrep 630000002100 0 0);
         vfailed (vrep 630000002200 0 0); vrep 630000002300 0 0; vrep 630000002400 0 0]
  = [Vam 630000000000 true 7168; Vam 630000000100 false 7268; Vam 630000002300 true 9468;
     Vam 630000002400 false 9568].
Proof. exact example_vrun_failed. Qed.

Example C10_example_path_after_outage :
  path_points [(-150, 20); (-300, 41); (-200000, 60); (-200000, 60)] = [(-150, 20); (-300, 41)] /\
  path_points [(-131071, 131072); (131073, 0)] = [(-131071, 131072)] /\
  path_points [(0, -131072); (5, 5)] = [].
Proof. exact path_after_outage. Qed.
