(* C07 - geo-addressed packets are delivered exactly inside the destination area.
   Audited statements only; proofs in Proofs/GeoProofs.v and Proofs/RouterProofs.v. *)
From Coq Require Import QArith.
From FlexVerif Require Import Base.Prelude Model.Geo Model.LocT Model.Wire Model.Router Proofs.GeoProofs Proofs.RouterProofs Proofs.C07HopProofs.

(* -- EN 302 931: F >= 0 characterises the circle, rectangle and ellipse, including the azimuth rotation -- *)
Theorem C07_circle_rotation_invariant : forall r c s n e, (c * c + s * s == 1)%Q ->
  (F_circle r (rot_x c s n e) (rot_y c s n e) == F_circle r n e)%Q.
Proof. exact circle_rotation_invariant. Qed.
Print Assumptions C07_circle_rotation_invariant.

Theorem C07_inside_circle_iff : forall r x y, (0 < r)%Q -> ((0 <= F_circle r x y)%Q <-> (sq x + sq y <= sq r)%Q).
Proof. exact inside_circle_iff. Qed.
Print Assumptions C07_inside_circle_iff.

Theorem C07_inside_rectangle_iff : forall a b x y, (0 < a)%Q -> (0 < b)%Q ->
  ((0 <= F_rect a b x y)%Q <-> (sq x <= sq a)%Q /\ (sq y <= sq b)%Q).
Proof. exact inside_rect_iff. Qed.
Print Assumptions C07_inside_rectangle_iff.

Theorem C07_inside_ellipse_iff : forall a b x y, (0 < a)%Q -> (0 < b)%Q ->
  ((0 <= F_ellipse a b x y)%Q <-> (sq x * sq b + sq y * sq a <= sq a * sq b)%Q).
Proof. exact inside_ellipse_iff. Qed.
Print Assumptions C07_inside_ellipse_iff.

Theorem C07_annexD_table :
  annexD true true true = AreaForwarding /\ annexD true true false = AreaForwarding /\
  annexD true false true = AreaForwarding /\ annexD true false false = AreaForwarding /\
  annexD false true true = Discard /\ annexD false true false = NonAreaForwarding /\
  annexD false false true = NonAreaForwarding /\ annexD false false false = NonAreaForwarding.
Proof. exact annexD_table. Qed.
Print Assumptions C07_annexD_table.

(* -- the router delivers a GBC / GAC packet exactly when the ego position is inside or on the border
      ("inside" is the harness-computed verdict of F >= 0 at the ego position) -- *)
Theorem C07_gbc_delivered_iff_inside : forall m s now g bv cv body h inside t,
  dec_gbc body = Some h -> zero_area (arg 2 cv) h = false ->
  lookup_ins (g_ins g) (pv_lat (s_ego s)) (pv_lon (s_ego s)) = Some inside ->
  mid_eqb (pv_addr (firstn 9 (skipn 2 h))) (m_addr m) = false ->
  rx_mh (s_loct s) (firstn 9 (skipn 2 h)) (arg 0 h) now (m_life_ms m) (m_dpl_len m) = Some t ->
  ~ In OGeoMissing (snd (rx_gbc m s now g bv cv body)) ->
  ((exists o, In o (snd (rx_gbc m s now g bv cv body)) /\ is_ind o = true) <-> inside = true) /\
  (forall hd d, In (OInd hd d) (snd (rx_gbc m s now g bv cv body)) ->
     d = skipn 44 body /\ hd = ind_hdr cv bv (firstn 9 (skipn 2 h)) (gbc_area h) 4 (arg 2 cv)).
Proof. exact gbc_delivered_iff_inside. Qed.
Print Assumptions C07_gbc_delivered_iff_inside.

Theorem C07_gac_delivered_iff_inside : forall m s now g bv cv body h inside t,
  dec_gbc body = Some h -> zero_area (arg 2 cv) h = false ->
  lookup_ins (g_ins g) (pv_lat (s_ego s)) (pv_lon (s_ego s)) = Some inside ->
  mid_eqb (pv_addr (firstn 9 (skipn 2 h))) (m_addr m) = false ->
  rx_mh (s_loct s) (firstn 9 (skipn 2 h)) (arg 0 h) now (m_life_ms m) (m_dpl_len m) = Some t ->
  ~ In OGeoMissing (snd (rx_gac m s now g bv cv body)) ->
  ((exists o, In o (snd (rx_gac m s now g bv cv body)) /\ is_ind o = true) <-> inside = true) /\
  (inside = true -> snd (rx_gac m s now g bv cv body) =
     [OInd (ind_hdr cv bv (firstn 9 (skipn 2 h)) (gbc_area h) 3 (arg 2 cv)) (skipn 44 body)]).
Proof. exact gac_delivered_iff_inside. Qed.
Print Assumptions C07_gac_delivered_iff_inside.

(* -- the last permitted hop (remaining hop limit <= 1 on arrival): the packet is not forwarded and not buffered for
      contention-based forwarding, but it IS delivered when the station is inside (the two theorems above hold for every
      basic header; C07_gbc_last_hop_delivered spells the output out) -- *)
Theorem C07_gbc_last_hop_not_forwarded : forall m s now g bv cv body p, (arg 5 bv <= 1)%Z ->
  ~ In (OFwd p) (snd (rx_gbc m s now g bv cv body)) /\
  (s_cbf (fst (rx_gbc m s now g bv cv body)) = s_cbf s \/
   exists k, s_cbf (fst (rx_gbc m s now g bv cv body)) = cbf_remove (s_cbf s) k).
Proof. exact gbc_last_hop_not_forwarded. Qed.
Print Assumptions C07_gbc_last_hop_not_forwarded.

Theorem C07_gac_last_hop_not_forwarded : forall m s now g bv cv body p, (arg 5 bv <= 1)%Z ->
  ~ In (OFwd p) (snd (rx_gac m s now g bv cv body)) /\ s_cbf (fst (rx_gac m s now g bv cv body)) = s_cbf s.
Proof. exact gac_last_hop_not_forwarded. Qed.
Print Assumptions C07_gac_last_hop_not_forwarded.

Theorem C07_gbc_last_hop_delivered : forall m s now g bv cv body h t, (arg 5 bv <= 1)%Z ->
  dec_gbc body = Some h -> zero_area (arg 2 cv) h = false ->
  lookup_ins (g_ins g) (pv_lat (s_ego s)) (pv_lon (s_ego s)) = Some true ->
  mid_eqb (pv_addr (firstn 9 (skipn 2 h))) (m_addr m) = false ->
  rx_mh (s_loct s) (firstn 9 (skipn 2 h)) (arg 0 h) now (m_life_ms m) (m_dpl_len m) = Some t ->
  snd (rx_gbc m s now g bv cv body) = [OInd (ind_hdr cv bv (firstn 9 (skipn 2 h)) (gbc_area h) 4 (arg 2 cv)) (skipn 44 body)].
Proof. exact gbc_last_hop_delivered. Qed.
Print Assumptions C07_gbc_last_hop_delivered.

(* -- area size control -- *)
Theorem C07_oversized_request_refused : forall m s g r, g_big g = true -> req_geo m s g r = (s, [ODiscard 20]).
Proof. exact oversized_request_refused. Qed.
Print Assumptions C07_oversized_request_refused.

Theorem C07_oversized_area_not_forwarded_gac : forall m s now g bv cv body p, g_big g = true ->
  ~ In (OFwd p) (snd (rx_gac m s now g bv cv body)).
Proof. exact oversized_area_not_forwarded_gac. Qed.
Print Assumptions C07_oversized_area_not_forwarded_gac.

Theorem C07_oversized_area_not_forwarded_gbc : forall m s now g bv cv body p, g_big g = true ->
  ~ In (OFwd p) (snd (rx_gbc m s now g bv cv body)) /\
  s_cbf (fst (rx_gbc m s now g bv cv body)) = s_cbf s \/
  (exists k, s_cbf (fst (rx_gbc m s now g bv cv body)) = cbf_remove (s_cbf s) k) /\
  ~ In (OFwd p) (snd (rx_gbc m s now g bv cv body)).
Proof. exact oversized_area_not_forwarded_gbc. Qed.
Print Assumptions C07_oversized_area_not_forwarded_gbc.

Example C07_example : (0 <= F_rect 3 2 3 (-2))%Q /\ ~ (0 <= F_rect 3 2 (31 # 10) 0)%Q /\ (0 <= F_circle 5 3 4)%Q.
Proof.
  split; [vm_compute; intros H; discriminate H|]. split; [|vm_compute; intros H; discriminate H].
  vm_compute. intros H. apply H. reflexivity.
Qed.
