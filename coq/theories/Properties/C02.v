(* C02 - emitted packets and header codecs conform to the ETSI wire formats.
   Only audited statements; proofs in Base/BitsFacts.v and Proofs/WireProofs.v.
   A header is the list of its field values in layout order ("view"); wf_X says each
   field lies within its bit width / enumeration; enc_X / dec_X are built from the
   layout tables (Model/Wire.v) by the generic big-endian packer (Base/Bits.v). *)
From FlexVerif Require Import Base.Prelude Base.Bits Base.BitsFacts Model.Lifetime Model.Wire Proofs.WireProofs
  Model.WireCodePoints Gen.C02Consts Proofs.WireCodePointsProofs Gen.SrcGeonet Proofs.SrcWireEquiv Proofs.SrcWireDecEquiv.

(* -- the generic codec: for ANY layout table whose widths add up to whole octets -- *)
Theorem C02_generic_decode_encode : forall ws vs rest,
  Forall (fun w => 0 <= w) ws -> total_width ws mod 8 = 0 -> all_fit ws vs = true ->
  dec_fields ws (enc_fields ws vs ++ rest) = Some vs.
Proof. exact dec_enc_fields. Qed.
Print Assumptions C02_generic_decode_encode.

Theorem C02_generic_encode_decode : forall ws bs vs,
  Forall (fun w => 0 <= w) ws -> total_width ws mod 8 = 0 -> wf_bytes bs = true ->
  dec_fields ws bs = Some vs -> enc_fields ws vs = firstn (hdr_bytes ws) bs /\ all_fit ws vs = true.
Proof. exact enc_dec_fields. Qed.
Print Assumptions C02_generic_encode_decode.

Theorem C02_generic_encode_injective : forall ws vs1 vs2,
  Forall (fun w => 0 <= w) ws -> total_width ws mod 8 = 0 ->
  all_fit ws vs1 = true -> all_fit ws vs2 = true -> enc_fields ws vs1 = enc_fields ws vs2 -> vs1 = vs2.
Proof. exact enc_fields_inj. Qed.
Print Assumptions C02_generic_encode_injective.

(* -- each header decoder returns exactly what a conformant encoder put on the wire -- *)
Theorem C02_basic_roundtrip : forall v rest, wf_basic v = true -> dec_basic (enc_basic v ++ rest) = Some v.
Proof. exact dec_enc_basic. Qed.
Print Assumptions C02_basic_roundtrip.

Theorem C02_common_roundtrip : forall v rest, wf_common v = true -> dec_common (enc_common v ++ rest) = Some v.
Proof. exact dec_enc_common. Qed.
Print Assumptions C02_common_roundtrip.

Theorem C02_gnaddr_roundtrip : forall v rest, wf_gnaddr v = true -> dec_gnaddr (enc_gnaddr v ++ rest) = Some v.
Proof. exact dec_enc_gnaddr. Qed.
Print Assumptions C02_gnaddr_roundtrip.

Theorem C02_lpv_roundtrip : forall v rest, wf_lpv v = true -> dec_lpv (enc_lpv v ++ rest) = Some v.
Proof. exact dec_enc_lpv. Qed.
Print Assumptions C02_lpv_roundtrip.

Theorem C02_spv_roundtrip : forall v rest, wf_spv v = true -> dec_spv (enc_spv v ++ rest) = Some v.
Proof. exact dec_enc_spv. Qed.
Print Assumptions C02_spv_roundtrip.

Theorem C02_tsb_roundtrip : forall h p rest, wf_sn h = true -> wf_lpv p = true ->
  dec_tsb (enc_tsb (h ++ p) ++ rest) = Some (h ++ p).
Proof. exact dec_enc_tsb. Qed.
Print Assumptions C02_tsb_roundtrip.

Theorem C02_gbc_roundtrip : forall h p a rest, wf_sn h = true -> wf_lpv p = true -> wf_area a = true ->
  dec_gbc (enc_gbc (h ++ p ++ a) ++ rest) = Some (h ++ p ++ a).
Proof. exact dec_enc_gbc. Qed.
Print Assumptions C02_gbc_roundtrip.

Theorem C02_guc_lsreply_roundtrip : forall h p d rest, wf_sn h = true -> wf_lpv p = true -> wf_spv d = true ->
  dec_guc (enc_guc (h ++ p ++ d) ++ rest) = Some (h ++ p ++ d).
Proof. exact dec_enc_guc. Qed.
Print Assumptions C02_guc_lsreply_roundtrip.

Theorem C02_lsrequest_roundtrip : forall h p d rest, wf_sn h = true -> wf_lpv p = true -> wf_gnaddr d = true ->
  dec_lsreq (enc_lsreq (h ++ p ++ d) ++ rest) = Some (h ++ p ++ d).
Proof. exact dec_enc_lsreq. Qed.
Print Assumptions C02_lsrequest_roundtrip.

Theorem C02_btp_roundtrip : forall v rest, all_fit btp_ws v = true -> dec_btp (enc_btp v ++ rest) = Some v.
Proof. exact dec_enc_btp. Qed.
Print Assumptions C02_btp_roundtrip.

(* -- sizes (4, 8, 24, 20, 44, 28, 48, 36 octets) -- *)
Theorem C02_header_sizes : forall b c l s g t u q,
  (length (enc_basic b), length (enc_common c), length (enc_lpv l), length (enc_spv s),
   length (enc_gbc g), length (enc_tsb t), length (enc_guc u), length (enc_lsreq q))
  = (4, 8, 24, 20, 44, 28, 48, 36)%nat.
Proof. exact header_sizes. Qed.
Print Assumptions C02_header_sizes.

(* -- latitude / longitude are 32-bit two's complement, speed 15-bit two's complement right
      after the PAI bit, the 10 reserved address bits are zero: the unsigned fields read from
      the octets with the layout table are exactly v mod 2^w -- *)
Theorem C02_lpv_twos_complement : forall v, wf_lpv v = true ->
  dec_fields lpv_ws (enc_lpv v) = Some (raw_lpv v) /\
  nth 5 (raw_lpv v) 0 = (arg 4 v) mod 2 ^ 32 /\ nth 6 (raw_lpv v) 0 = (arg 5 v) mod 2 ^ 32 /\
  nth 7 (raw_lpv v) 0 = arg 6 v /\ nth 8 (raw_lpv v) 0 = (arg 7 v) mod 2 ^ 15 /\ nth 2 (raw_lpv v) 0 = 0.
Proof. exact lpv_wire_fields. Qed.
Print Assumptions C02_lpv_twos_complement.

Theorem C02_signed_roundtrip : forall w v, 0 < w -> - 2 ^ (w - 1) <= v < 2 ^ (w - 1) ->
  to_signed w (to_unsigned w v) = v.
Proof. exact signed_unsigned. Qed.
Print Assumptions C02_signed_roundtrip.

Theorem C02_lpv_encoding_injective : forall v1 v2, wf_lpv v1 = true -> wf_lpv v2 = true ->
  enc_lpv v1 = enc_lpv v2 -> v1 = v2.
Proof. exact enc_lpv_inj. Qed.
Print Assumptions C02_lpv_encoding_injective.

(* -- originated packets: each parses back into exactly the requested headers; in particular
      the flags octet is mobile * 128 (most significant flag bit), reserved fields are 0 and the
      payload-length field is the number of payload octets -- *)
Theorem C02_shb_packet : forall (mobile default_s : Z) (ego : list Z),
  fits 1 mobile = true -> wf_lpv ego = true ->
  forall default_hl sn : Z, fits 16 sn = true -> fits 8 default_hl = true ->
  forall (req_ms nh scf off tcid : Z) (payload : list Z),
  0 <= nh <= 3 -> fits 1 scf = true -> fits 1 off = true -> fits 6 tcid = true ->
  Z.of_nat (length payload) < 65536 ->
  let pkt := mk_shb mobile default_s req_ms nh scf off tcid ego payload in
  dec_basic pkt = Some [1; 1; 0; fst (lt_of_req default_s req_ms); snd (lt_of_req default_s req_ms); 1] /\
  dec_common (skipn 4 pkt) = Some [nh; 5; 0; scf; off; tcid; mobile * 128; Z.of_nat (length payload); 1; 0] /\
  dec_lpv (skipn 12 pkt) = Some ego /\ skipn 40 pkt = payload.
Proof. exact mk_shb_parse. Qed.
Print Assumptions C02_shb_packet.

Theorem C02_gbc_gac_packet : forall (mobile default_s : Z) (ego : list Z),
  fits 1 mobile = true -> wf_lpv ego = true ->
  forall default_hl sn : Z, fits 16 sn = true -> fits 8 default_hl = true ->
  forall (req_ms nh scf off tcid : Z) (payload : list Z),
  0 <= nh <= 3 -> fits 1 scf = true -> fits 1 off = true -> fits 6 tcid = true ->
  Z.of_nat (length payload) < 65536 ->
  forall req_hl : Z, fits 8 req_hl = true ->
  forall (ht hst : Z) (area : list Z), ht = 3 \/ ht = 4 -> 0 <= hst <= 2 -> wf_area (area ++ [0]) = true ->
  let pkt := mk_gbc mobile default_s default_hl req_ms req_hl nh ht hst scf off tcid sn ego area payload in
  let hl := hop_choice req_hl default_hl in
  dec_basic pkt = Some [1; 1; 0; fst (lt_of_req default_s req_ms); snd (lt_of_req default_s req_ms); hl] /\
  dec_common (skipn 4 pkt) = Some [nh; ht; hst; scf; off; tcid; mobile * 128; Z.of_nat (length payload); hl; 0] /\
  dec_gbc (skipn 12 pkt) = Some ([sn; 0] ++ ego ++ area ++ [0]) /\ skipn 56 pkt = payload.
Proof. exact mk_gbc_parse. Qed.
Print Assumptions C02_gbc_gac_packet.

Theorem C02_guc_packet : forall (mobile default_s : Z) (ego : list Z),
  fits 1 mobile = true -> wf_lpv ego = true ->
  forall default_hl sn : Z, fits 16 sn = true -> fits 8 default_hl = true ->
  forall (req_ms nh scf off tcid : Z) (payload : list Z),
  0 <= nh <= 3 -> fits 1 scf = true -> fits 1 off = true -> fits 6 tcid = true ->
  Z.of_nat (length payload) < 65536 ->
  forall req_hl : Z, fits 8 req_hl = true ->
  forall de : list Z, wf_spv de = true ->
  let pkt := mk_guc mobile default_s default_hl req_ms req_hl nh scf off tcid sn ego de payload in
  let hl := hop_choice req_hl default_hl in
  dec_basic pkt = Some [1; 1; 0; fst (lt_of_req default_s req_ms); snd (lt_of_req default_s req_ms); hl] /\
  dec_common (skipn 4 pkt) = Some [nh; 2; 0; scf; off; tcid; mobile * 128; Z.of_nat (length payload); hl; 0] /\
  dec_guc (skipn 12 pkt) = Some ([sn; 0] ++ ego ++ de) /\ skipn 60 pkt = payload.
Proof. exact mk_guc_parse. Qed.
Print Assumptions C02_guc_packet.

Theorem C02_ls_request_packet : forall (mobile default_s : Z) (ego : list Z),
  fits 1 mobile = true -> wf_lpv ego = true ->
  forall default_hl sn : Z, fits 16 sn = true -> fits 8 default_hl = true ->
  forall sought de : list Z, wf_gnaddr sought = true -> wf_spv de = true ->
  let pkt := mk_lsreq mobile default_s default_hl sn ego sought in
  dec_basic pkt = Some [1; 1; 0; fst (lt_of_req default_s (-1)); snd (lt_of_req default_s (-1)); default_hl] /\
  dec_common (skipn 4 pkt) = Some [0; 6; 0; 0; 0; 0; mobile * 128; 0; default_hl; 0] /\
  dec_lsreq (skipn 12 pkt) = Some ([sn; 0] ++ ego ++ sought).
Proof. exact mk_lsreq_parse. Qed.
Print Assumptions C02_ls_request_packet.

Theorem C02_ls_reply_packet : forall (mobile default_s : Z) (ego : list Z),
  fits 1 mobile = true -> wf_lpv ego = true ->
  forall default_hl sn : Z, fits 16 sn = true -> fits 8 default_hl = true ->
  forall sought de : list Z, wf_gnaddr sought = true -> wf_spv de = true ->
  let pkt := mk_lsrep mobile default_s default_hl sn ego de in
  dec_basic pkt = Some [1; 1; 0; fst (lt_of_req default_s (-1)); snd (lt_of_req default_s (-1)); default_hl] /\
  dec_common (skipn 4 pkt) = Some [0; 6; 1; 0; 0; 0; mobile * 128; 0; default_hl; 0] /\
  dec_guc (skipn 12 pkt) = Some ([sn; 0] ++ ego ++ de).
Proof. exact mk_lsrep_parse. Qed.
Print Assumptions C02_ls_reply_packet.

Theorem C02_beacon_packet : forall (mobile default_s : Z) (ego : list Z), wf_lpv ego = true ->
  dec_basic (mk_beacon mobile default_s ego) =
    Some [1; 1; 0; fst (lt_of_req default_s (-1)); snd (lt_of_req default_s (-1)); 1] /\
  dec_lpv (skipn 12 (mk_beacon mobile default_s ego)) = Some ego /\
  length (mk_beacon mobile default_s ego) = 36%nat.
Proof. exact mk_beacon_parse. Qed.
Print Assumptions C02_beacon_packet.

(* The beacon's mobility flag: the FULL statement (flags octet = mobile * 128) is false of the
   model and of the code - the flag sits in bit 0 (known finding KF-C02-1, pinned by a test). *)
Definition C02_beacon_flag_full : Prop := forall mobile default_s ego,
  fits 1 mobile = true -> wf_lpv ego = true ->
  dec_fields common_ws (skipn 4 (mk_beacon mobile default_s ego)) =
  Some (raw_common [0; 1; 0; 0; 0; 0; mobile * 128; 0; 1; 0]).

Theorem C02_beacon_flag_actual : forall (mobile default_s : Z) (ego : list Z),
  fits 1 mobile = true -> wf_lpv ego = true ->
  dec_fields common_ws (skipn 4 (mk_beacon mobile default_s ego)) =
  Some (raw_common [0; 1; 0; 0; 0; 0; mobile; 0; 1; 0]).
Proof. exact mk_beacon_flags. Qed.
Print Assumptions C02_beacon_flag_actual.

Theorem C02_beacon_flag_refuted : ~ C02_beacon_flag_full.
Proof.
  intros H. specialize (H 1 60 [0; 5; 1; 0; 0; 0; 1; 0; 0] eq_refl eq_refl).
  rewrite (mk_beacon_flags 1 60 [0; 5; 1; 0; 0; 0; 1; 0; 0] eq_refl eq_refl) in H. discriminate H.
Qed.
Print Assumptions C02_beacon_flag_refuted.

(* -- a forwarded copy differs from the received packet in the RHL octet only -- *)
Theorem C02_forwarded_copy : forall pkt rhl, (4 <= length pkt)%nat ->
  firstn 3 (set_rhl pkt rhl) = firstn 3 pkt /\ nth 3 (set_rhl pkt rhl) 0 = rhl /\
  skipn 4 (set_rhl pkt rhl) = skipn 4 pkt /\ length (set_rhl pkt rhl) = length pkt.
Proof. exact set_rhl_spec. Qed.
Print Assumptions C02_forwarded_copy.

(* non-vacuity: concrete well-formed headers in the southern / western hemisphere *)
Example C02_example :
  wf_lpv [0; 5; 11111; 123456; -338688000; -1512093000; 1; -300; 3599] = true /\
  wf_common [2; 4; 1; 0; 1; 63; 128; 1400; 10; 0] = true /\
  wf_area [-900000000; 1800000000 - 1; 65535; 1; 359; 0] = true /\
  enc_basic [1; 1; 0; 60; 1; 10] = [17; 0; 241; 10].
Proof. vm_compute. repeat split. Qed.

(* -- the code points of the implementation's enumerations (regenerated from the source on every run) are those of
      EN 302 636-4-1: encoder and decoder of the stack agreeing with each other is not enough -- *)
Theorem C02_code_points_match_the_standard :
  enum_CommonNH = spec_CommonNH /\ enum_HeaderType = spec_HeaderType /\ enum_GeoAnycastHST = spec_GeoAnycastHST /\
  enum_GeoBroadcastHST = spec_GeoBroadcastHST /\ enum_TopoBroadcastHST = spec_TopoBroadcastHST /\
  enum_LocationServiceHST = spec_LocationServiceHST /\ enum_HeaderSubType = spec_HeaderSubType /\
  enum_BasicNH = spec_BasicNH /\ enum_ST = spec_ST /\ enum_M = spec_M.
Proof. exact code_points_match. Qed.
Print Assumptions C02_code_points_match_the_standard.

(* ---- the header codecs REGENERATED FROM THE SOURCE on every run (Gen/SrcGeonet.v, translator tools/pyz.py) put the layout
   tables of Model/Wire.v on the wire, for ALL field values within their widths: for these functions the tie between model
   and code is a theorem, re-checked against what the code says now.  A function into `option` is None where Python raises. *)
Theorem C02_source_basic_header_is_the_layout : forall ver nh res m b rhl,
  all_fit basic_ws [ver; nh; res; m; b; rhl] = true ->
  BasicHeader_encode_to_int ver nh res m b rhl = pack (combine basic_ws [ver; nh; res; m; b; rhl]).
Proof. exact src_basic_layout. Qed.
Print Assumptions C02_source_basic_header_is_the_layout.

Theorem C02_source_basic_header_decoder_is_the_model : forall x, 0 <= x < 2 ^ 32 ->
  BasicHeader_decode_from_int x
  = option_map (fun r => (arg 0 r, arg 1 r, arg 2 r, (arg 3 r, arg 4 r), arg 5 r)) (view_basic (unpack basic_ws x)).
Proof. exact src_basic_decode. Qed.
Print Assumptions C02_source_basic_header_decoder_is_the_model.

Theorem C02_source_traffic_class_is_the_layout : forall scf off tcid, 0 <= scf < 2 -> 0 <= off < 2 -> 0 <= tcid < 64 ->
  TrafficClass_encode_to_int scf off tcid = pack [(1, scf); (1, off); (6, tcid)].
Proof. exact src_tc_layout. Qed.
Print Assumptions C02_source_traffic_class_is_the_layout.

Theorem C02_source_common_header_is_the_layout : forall nh ht hst scf off tcid flags pl mhl,
  0 <= nh < 16 -> 0 <= ht < 16 -> 0 <= hst < 16 -> 0 <= scf < 2 -> 0 <= off < 2 -> 0 <= tcid < 64 ->
  0 <= flags < 256 -> 0 <= pl < 65536 -> 0 <= mhl < 256 ->
  CommonHeader_encode_to_int nh ht hst scf off tcid flags pl mhl 0
  = pack (combine common_ws (raw_common [nh; ht; hst; scf; off; tcid; flags; pl; mhl; 0])).
Proof. exact src_common_layout. Qed.
Print Assumptions C02_source_common_header_is_the_layout.

Theorem C02_source_gn_address_is_the_layout : forall m st mid,
  0 <= m < 2 -> 0 <= st < 32 -> wf_bytes mid = true -> length mid = 6%nat ->
  GNAddress_encode_to_int m st mid = pack (combine gnaddr_ws (raw_gnaddr [m; st; of_bytes mid])).
Proof. exact src_gnaddr_layout. Qed.
Print Assumptions C02_source_gn_address_is_the_layout.

(* whatever the sign of latitude, longitude and speed (two's complement), LongPositionVector.encode does not raise and
   returns the 24 octets of the layout *)
Theorem C02_source_long_position_vector_octets : forall m st mid tst lat lon pai s h,
  0 <= m < 2 -> 0 <= st < 32 -> wf_bytes mid = true -> length mid = 6%nat -> 0 <= pai < 2 -> 0 <= h < 65536 ->
  LPV_encode m st mid tst lat lon pai s h = Some (enc_lpv [m; st; of_bytes mid; tst; lat; lon; pai; s; h]).
Proof. exact src_lpv_encode. Qed.
Print Assumptions C02_source_long_position_vector_octets.

Theorem C02_source_short_position_vector_octets : forall m st mid tst lat lon,
  0 <= m < 2 -> 0 <= st < 32 -> wf_bytes mid = true -> length mid = 6%nat ->
  SPV_encode m st mid tst lat lon = Some (enc_spv [m; st; of_bytes mid; tst; lat; lon]).
Proof. exact src_spv_encode. Qed.
Print Assumptions C02_source_short_position_vector_octets.

Theorem C02_source_btp_headers_octets : forall p1 p2, 0 <= p1 < 65536 -> 0 <= p2 < 65536 ->
  BTPA_encode p1 p2 = Some (enc_btp [p1; p2]) /\ BTPB_encode p1 p2 = Some (enc_btp [p1; p2]).
Proof. exact (fun p1 p2 H1 H2 => conj (src_btpa_encode p1 p2 H1 H2) (src_btpb_encode p1 p2 H1 H2)). Qed.
Print Assumptions C02_source_btp_headers_octets.

Theorem C02_source_btp_port_outside_16_bits_is_refused : forall p1 p2, 0 <= p2 < 65536 -> ~ (0 <= p1 < 65536) ->
  BTPA_encode p1 p2 = None.
Proof. exact src_btp_port_overflow. Qed.
Print Assumptions C02_source_btp_port_outside_16_bits_is_refused.

(* extended headers: so / de are the octets of the position vectors (theorems above) *)
Theorem C02_source_tsb_header_octets : forall sn res so, 0 <= sn < 65536 -> 0 <= res < 65536 ->
  TSB_encode sn res so = Some (enc_fields sn_ws [sn; res] ++ so).
Proof. exact src_tsb_encode. Qed.
Print Assumptions C02_source_tsb_header_octets.

Theorem C02_source_guc_and_ls_reply_header_octets : forall sn res so de, 0 <= sn < 65536 -> 0 <= res < 65536 ->
  GUC_encode sn res so de = Some (enc_fields sn_ws [sn; res] ++ so ++ de) /\ LSRep_encode sn res so de = GUC_encode sn res so de.
Proof. exact src_guc_encode. Qed.
Print Assumptions C02_source_guc_and_ls_reply_header_octets.

Theorem C02_source_ls_request_header_octets : forall sn res so m st x, 0 <= sn < 65536 -> 0 <= res < 65536 ->
  0 <= m < 2 -> 0 <= st < 32 -> 0 <= x < 2 ^ 48 ->
  LSReq_encode sn res so (pack (combine gnaddr_ws (raw_gnaddr [m; st; x])))
  = Some (enc_fields sn_ws [sn; res] ++ so ++ enc_gnaddr [m; st; x]).
Proof. exact src_lsreq_encode. Qed.
Print Assumptions C02_source_ls_request_header_octets.

Theorem C02_source_gbc_header_octets : forall sn res so lat lon a b angle res2, 0 <= sn < 65536 -> 0 <= res < 65536 ->
  - 2 ^ 31 <= lat < 2 ^ 31 -> - 2 ^ 31 <= lon < 2 ^ 31 -> 0 <= a < 65536 -> 0 <= b < 65536 -> 0 <= angle < 65536 ->
  0 <= res2 < 65536 ->
  GBC_encode sn res so lat lon a b angle res2
  = Some (enc_fields sn_ws [sn; res] ++ so ++ enc_fields area_ws (raw_area [lat; lon; a; b; angle; res2])).
Proof. exact src_gbc_encode. Qed.
Print Assumptions C02_source_gbc_header_octets.

Theorem C02_source_gbc_area_outside_32_bits_is_refused : forall sn res so lat lon a b angle res2,
  ~ (- 2 ^ 31 <= lat < 2 ^ 31) -> GBC_encode sn res so lat lon a b angle res2 = None.
Proof. exact src_gbc_encode_overflow. Qed.
Print Assumptions C02_source_gbc_area_outside_32_bits_is_refused.

Theorem C02_source_common_header_decoder_is_the_model : forall x, 0 <= x < 2 ^ 64 ->
  CommonHeader_decode_from_int x = option_map common_tuple (view_common (unpack common_ws x)).
Proof. exact src_common_decode. Qed.
Print Assumptions C02_source_common_header_decoder_is_the_model.

Theorem C02_source_gn_address_decoder_is_the_model : forall t, 0 <= t < 2 ^ 64 ->
  GNAddress_decode (to_bytes 8 t) = option_map gnaddr_tuple (view_gnaddr (unpack gnaddr_ws t)).
Proof. exact src_gnaddr_decode_word. Qed.
Print Assumptions C02_source_gn_address_decoder_is_the_model.

Theorem C02_source_long_position_vector_decoder_is_the_model : forall data, wf_bytes data = true -> (24 <= length data)%nat ->
  LPV_decode data = option_map lpv_tuple (dec_lpv data).
Proof. exact src_lpv_decode. Qed.
Print Assumptions C02_source_long_position_vector_decoder_is_the_model.

(* the decoder of the source returns exactly the field values its encoder put on the wire - two's complement latitude,
   longitude and 15-bit speed beside the accuracy bit included - for ALL field values within their ranges *)
Theorem C02_source_long_position_vector_roundtrip : forall m st mid tst lat lon pai s h,
  0 <= m < 2 -> 0 <= st <= 12 -> wf_bytes mid = true -> length mid = 6%nat -> 0 <= tst < 2 ^ 32 ->
  - 2 ^ 31 <= lat < 2 ^ 31 -> - 2 ^ 31 <= lon < 2 ^ 31 -> 0 <= pai < 2 -> - 2 ^ 14 <= s < 2 ^ 14 -> 0 <= h < 65536 ->
  exists octets, LPV_encode m st mid tst lat lon pai s h = Some octets /\ length octets = 24%nat /\
    LPV_decode octets = Some ((m, st, mid), tst, lat, lon, negb (pai =? 0), s, h).
Proof. exact src_lpv_roundtrip. Qed.
Print Assumptions C02_source_long_position_vector_roundtrip.

Theorem C02_source_short_position_vector_decoder_is_the_model : forall data, wf_bytes data = true -> length data = 20%nat ->
  SPV_decode data = option_map spv_tuple (dec_spv data).
Proof. exact src_spv_decode. Qed.
Print Assumptions C02_source_short_position_vector_decoder_is_the_model.

Theorem C02_source_short_position_vector_roundtrip : forall m st mid tst lat lon,
  0 <= m < 2 -> 0 <= st <= 12 -> wf_bytes mid = true -> length mid = 6%nat -> 0 <= tst < 2 ^ 32 ->
  - 2 ^ 31 <= lat < 2 ^ 31 -> - 2 ^ 31 <= lon < 2 ^ 31 ->
  exists octets, SPV_encode m st mid tst lat lon = Some octets /\ length octets = 20%nat /\
    SPV_decode octets = Some ((m, st, mid), tst, lat, lon).
Proof. exact src_spv_roundtrip. Qed.
Print Assumptions C02_source_short_position_vector_roundtrip.

(* extended-header decoders of the source = the model's decoders, for every byte string of any length (too short: both fail) *)
Theorem C02_source_tsb_decoder_is_the_model : forall header, wf_bytes header = true ->
  TSB_decode header = option_map tsb_tuple (dec_tsb header).
Proof. exact src_tsb_decode. Qed.
Print Assumptions C02_source_tsb_decoder_is_the_model.

Theorem C02_source_guc_and_ls_reply_decoder_is_the_model : forall header, wf_bytes header = true ->
  GUC_decode header = option_map guc_tuple (dec_guc header) /\ LSRep_decode header = GUC_decode header.
Proof. exact src_guc_decode. Qed.
Print Assumptions C02_source_guc_and_ls_reply_decoder_is_the_model.

Theorem C02_source_ls_request_decoder_is_the_model : forall header, wf_bytes header = true ->
  LSReq_decode header = option_map lsreq_tuple (dec_lsreq header).
Proof. exact src_lsreq_decode. Qed.
Print Assumptions C02_source_ls_request_decoder_is_the_model.

Theorem C02_source_gbc_decoder_is_the_model : forall header, wf_bytes header = true ->
  GBC_decode header = option_map gbc_tuple (dec_gbc header).
Proof. exact src_gbc_decode. Qed.
Print Assumptions C02_source_gbc_decoder_is_the_model.

Theorem C02_source_btp_decoders_are_the_model : forall bs, wf_bytes bs = true -> (4 <= length bs)%nat ->
  dec_btp bs = Some [fst (BTPA_decode bs); snd (BTPA_decode bs)] /\ BTPB_decode bs = BTPA_decode bs.
Proof. exact src_btp_decode. Qed.
Print Assumptions C02_source_btp_decoders_are_the_model.

(* Router.get_sequence_number (result, new counter): the sequence number put into the next multi-hop packet always fits
   its 16-bit field *)
Theorem C02_source_sequence_number_counter : forall sn,
  Router_get_sequence_number sn = (next_sn sn, next_sn sn) /\
  (let '(r, c) := Router_get_sequence_number sn in r = c /\ 0 <= r < 65535 /\ fits 16 r = true).
Proof. exact (fun sn => conj (src_next_sn sn) (src_next_sn_fits sn)). Qed.
Print Assumptions C02_source_sequence_number_counter.

(* Common Header of an originated packet (CommonHeader.initialize_with_request): the mobility flag is the most significant
   bit of the flags octet, the remaining flag bits and the reserved octet are zero, PL is the request's length, MHL is 1 for
   single-hop broadcast and the requested hop limit otherwise *)
Theorem C02_source_mobility_flag_is_msb : forall nh ht hst tc mobile pl mhl_req, mobile = 0 \/ mobile = 1 ->
  let '(_, _, _, _, flags, _, _, reserved) := CommonHeader_initialize_with_request nh ht hst tc mobile pl mhl_req in
  Z.testbit flags 7 = (mobile =? 1) /\ Z.land flags 127 = 0 /\ 0 <= flags < 256 /\ reserved = 0.
Proof. exact src_mobility_flag_msb. Qed.
Print Assumptions C02_source_mobility_flag_is_msb.

Theorem C02_source_common_header_for_request : forall nh ht hst tc mobile pl mhl_req,
  CommonHeader_initialize_with_request nh ht hst tc mobile pl mhl_req
  = (nh, ht, hst, tc, mobile * 128, pl, (if (ht =? 5) && (hst =? 0) then 1 else mhl_req), 0).
Proof. exact src_common_for_request. Qed.
Print Assumptions C02_source_common_header_for_request.

(* full statement for beacons, FALSE of the code (known finding KF-C02-1, pinned by the repository's tests) *)
Definition C02_source_beacon_mobility_flag_full : Prop :=
  forall mobile, mobile = 0 \/ mobile = 1 ->
  let '(_, _, _, _, flags, _, _, _) := CommonHeader_initialize_beacon mobile in Z.testbit flags 7 = (mobile =? 1).
Theorem C02_source_beacon_mobility_flag_refuted :
  let '(_, _, _, _, flags, _, _, _) := CommonHeader_initialize_beacon 1 in flags = 1 /\ Z.testbit flags 7 = false.
Proof. exact src_beacon_flag_refuted. Qed.
Print Assumptions C02_source_beacon_mobility_flag_refuted.

Theorem C02_source_btp_header_of_a_request : forall dp x, 0 <= dp < 65536 -> 0 <= x < 65536 ->
  (let '(a, b) := BTPA_initialize_with_request dp x in BTPA_encode a b) = Some (enc_btp [dp; x]) /\
  (let '(a, b) := BTPB_initialize_with_request dp x in BTPB_encode a b) = Some (enc_btp [dp; x]).
Proof. exact src_btp_for_request. Qed.
Print Assumptions C02_source_btp_header_of_a_request.

Example C02_source_example :
  LPV_encode 0 5 [0; 0; 0; 0; 43; 103] 123456 (-338688000) (-1512093000) 1 (-300) 3599
  = Some (enc_lpv [0; 5; 11111; 123456; -338688000; -1512093000; 1; -300; 3599]).
Proof. vm_compute. reflexivity. Qed.
