(* C16 - LDM operations are atomic under concurrent providers, consumers and maintenance.  PARTIAL:
     (1) obligations on the lock summary of the LDM classes, REGENERATED from the source on every run
         (Gen/LdmLockSummary.v, translator tools/gen_locks_ldm.py; every method of every class, Thread and Reactive
         variants): each access to the store, the id counter, the registries and the subscription tables is inside
         the critical section of its lock; every DictionaryDataBase method is ONE critical section; locks are taken
         in rank order (the state lock of the service outermost, the database lock innermost) or re-entrantly; the
         IF.LDM.3 / IF.LDM.4 calls are summarised too (ldm_if_summary) and meet the same discipline and order, and
         add_provider_data / subscribe_data_consumer check the registration and store inside ONE state-lock section;
     (2) for any number of threads calling those methods and interface calls in any order: mutual exclusion, no conflicting access to a
         protected field, no deadlock - for every reachable interleaving;
     (3) for every total order of the critical sections (= every list of atomic operations): identifiers unique, fresh
         and never reused; an added object keeps its value until an operation names it (not lost, not duplicated);
         nothing brings a removed object back; at most one deletion of an object succeeds; a snapshot returns exactly
         the objects present at its instant; registry membership is decided by the last operation naming the
         application; a subscription is neither lost nor resurrected and never outlives its owner's registration.
     (4) the reduction from (1)+(2) towards (3), in a memory semantics where a write stores an ARBITRARY function of
         everything its thread has read: every critical section of the database lock, of the service lock and of the
         two reactive time-stamp locks is CLOSED (touches only fields written under that lock), and a closed section
         computes exactly what its body computes running alone from the memory at its start, whatever the other threads
         do meanwhile (C16_sections_atomic) - so each DictionaryDataBase method is one atomic operation on
         (store, id counter); for every lock, steps of other threads never change a field written under a held lock.
   Not mechanised: the correspondence between a source line and the abstract Rd/Wr actions of the summary, CPython's
   switch points, and the composition of several critical sections into one interface call - the last is what the
   run-time linearizability check against LdmConc.ldm_run examines (harness/c16.py). *)
From FlexVerif Require Import Base.Prelude Base.Interleave Base.Atomic Model.LdmConc Gen.LdmLockSummary Proofs.LdmConcProofs Proofs.AtomicLdm Proofs.LdmAttendProofs.

Theorem C16_summary_names :
  (LL_DictionaryDataBase_lock, LL_LDMMaintenanceThread_data_containers_lock, LL_LDMMaintenanceReactive_lock,
   LL_LDMService_lock, LL_LDMServiceThreads_data_containers_lock, LL_LDMServiceReactive_lock) = (0, 1, 2, 3, 4, 5) /\
  (LF_DictionaryDataBase_database, LF_DictionaryDataBase_next_id, LF_LDMMaintenance_new_data_recieved_flag,
   LF_LDMMaintenanceReactive_last_trash_collection_time, LF_LDMService_data_provider_its_aid,
   LF_LDMService_data_consumer_its_aid, LF_LDMService_subscriptions, LF_LDMService_last_checked_subscriptions_time,
   LF_LDMServiceReactive_last_subscription_time) = (0, 1, 2, 3, 4, 5, 6, 7, 8).
Proof. exact ldm_names_agree. Qed.
Print Assumptions C16_summary_names.

Theorem C16_lock_discipline : forallb (wl ldm_policy []) ldm_summary = true.
Proof. exact ldm_summary_well_locked. Qed.
Print Assumptions C16_lock_discipline.

Theorem C16_lock_order : forallb (ordr ldm_rank ldm_reent []) ldm_summary = true.
Proof. exact ldm_summary_lock_order. Qed.
Print Assumptions C16_lock_order.

(* the IF.LDM.3 / IF.LDM.4 calls themselves (Gen: ldm_if_summary, one summary per call and configuration - Thread service
   over Thread maintenance, Reactive over Reactive): same discipline, and the same ranked order with the state lock of the
   service OUTERMOST (rank 0), the maintenance / time-stamp locks in the middle, the database lock innermost *)
Theorem C16_interface_lock_discipline : forallb (wl ldm_policy []) ldm_if_summary = true.
Proof. exact ldm_if_summary_well_locked. Qed.
Print Assumptions C16_interface_lock_discipline.

Theorem C16_interface_lock_order : forallb (ordr ldm_rank ldm_reent []) ldm_if_summary = true.
Proof. exact ldm_if_summary_lock_order. Qed.
Print Assumptions C16_interface_lock_order.

(* "registered? then store" is ONE section of the service's state lock in add_provider_data (the provider registry is read
   and the store written inside it: fix of KF-C16-2) and in subscribe_data_consumer (consumer registry / subscriptions) *)
Theorem C16_interface_check_then_act_is_one_section :
  forallb (one_section 3) ldm_if_single_sections = true /\
  forallb (fun m => touches (Rd 4) m && touches (Wr 0) m)
          [LM_InterfaceLDM3_Thread_add_provider_data; LM_InterfaceLDM3_Reactive_add_provider_data] = true /\
  forallb (fun m => touches (Rd 5) m && touches (Wr 6) m)
          [LM_InterfaceLDM4_Thread_subscribe_data_consumer; LM_InterfaceLDM4_Reactive_subscribe_data_consumer] = true /\
  Forall (fun m => In m ldm_if_summary) ldm_if_single_sections.
Proof. exact if_check_then_act_single_section. Qed.
Print Assumptions C16_interface_check_then_act_is_one_section.

Theorem C16_database_methods_are_single_sections : forallb (one_section 0) ldm_methods_DictionaryDataBase = true.
Proof. exact db_methods_atomic. Qed.
Print Assumptions C16_database_methods_are_single_sections.

Theorem C16_database_methods_present :
  In LM_DictionaryDataBase_insert ldm_methods_DictionaryDataBase /\ LM_DictionaryDataBase_insert <> [] /\
  In LM_DictionaryDataBase_update ldm_methods_DictionaryDataBase /\ LM_DictionaryDataBase_update <> [] /\
  In LM_DictionaryDataBase_remove_by_id ldm_methods_DictionaryDataBase /\ LM_DictionaryDataBase_remove_by_id <> [] /\
  In LM_DictionaryDataBase_remove ldm_methods_DictionaryDataBase /\ LM_DictionaryDataBase_remove <> [] /\
  In LM_DictionaryDataBase_all ldm_methods_DictionaryDataBase /\ LM_DictionaryDataBase_all <> [] /\
  In LM_DictionaryDataBase_search ldm_methods_DictionaryDataBase /\ LM_DictionaryDataBase_search <> [] /\
  In LM_DictionaryDataBase_exists ldm_methods_DictionaryDataBase /\ LM_DictionaryDataBase_exists <> [] /\
  In LM_DictionaryDataBase_get ldm_methods_DictionaryDataBase /\ LM_DictionaryDataBase_get <> [].
Proof. exact db_methods_present. Qed.
Print Assumptions C16_database_methods_present.

Theorem C16_mutual_exclusion : forall progs c, reachable (initial progs) c -> mutex c.
Proof. exact mutex_reachable. Qed.
Print Assumptions C16_mutual_exclusion.

Theorem C16_no_conflicting_access : forall progs c i j ti tj f ri rj l, from_ldm_summary progs ->
  reachable (initial progs) c -> nth_error c i = Some ti -> nth_error c j = Some tj -> i <> j ->
  ldm_write f = Some l -> t_prog ti = Wr f :: ri ->
  (t_prog tj = Wr f :: rj \/ (t_prog tj = Rd f :: rj /\ ldm_read f = Some l)) -> False.
Proof. exact ldm_no_conflicting_access. Qed.
Print Assumptions C16_no_conflicting_access.

Theorem C16_no_deadlock : forall progs c, from_ldm_summary progs -> reachable (initial progs) c ->
  (exists i t, nth_error c i = Some t /\ t_prog t <> []) -> exists k, enabled c k = true.
Proof. exact ldm_deadlock_free. Qed.
Print Assumptions C16_no_deadlock.

(* ---- (4) critical sections are atomic ---- *)
Theorem C16_closed_sections :
  forallb (fun l => forallb (all_sections_closed ldm_policy l) ldm_summary) ldm_closed_locks = true.
Proof. exact ldm_closed_sections. Qed.
Print Assumptions C16_closed_sections.

Theorem C16_sections_atomic : forall (wv : Z -> list Z -> Z) progs m0 s1 s2 i t1 t2 l m pre r tail ls1 ls2,
  from_ldm_summary progs -> In l ldm_closed_locks -> In m ldm_summary -> m = pre ++ Acq l :: r ->
  msteps wv (minit progs m0) s1 -> msteps wv s1 s2 ->
  nth_error (m_cfg s1) i = Some t1 -> t_prog t1 = r ++ tail -> nth_error (m_loc s1) i = Some ls1 ->
  exists body rest, r = body ++ Rel l :: rest /\ closed ldm_policy l [] body = true /\
    (nth_error (m_cfg s2) i = Some t2 -> t_prog t2 = Rel l :: rest ++ tail -> nth_error (m_loc s2) i = Some ls2 ->
     agree ldm_policy l (m_mem s2) (fst (run_seq wv body (m_mem s1) ls1)) /\ ls2 = snd (run_seq wv body (m_mem s1) ls1)).
Proof. exact ldm_sections_atomic. Qed.
Print Assumptions C16_sections_atomic.

Theorem C16_section_isolation : forall (wv : Z -> list Z -> Z) progs s i ti j tj a r ls l,
  from_ldm_summary progs -> reachable (initial progs) (m_cfg s) ->
  nth_error (m_cfg s) i = Some ti -> holds ti l = true ->
  nth_error (m_cfg s) j = Some tj -> j <> i -> t_prog tj = a :: r ->
  agree ldm_policy l (m_mem s) (fst (act_mem wv a (m_mem s) ls)).
Proof. exact ldm_section_isolation. Qed.
Print Assumptions C16_section_isolation.

(* ---- every order of the atomic operations ---- *)
Theorem C16_identifiers_unique : forall ops, NoDup (inserted_ids (snd (db_run db_init ops))).
Proof. exact ids_unique_any_order. Qed.
Print Assumptions C16_identifiers_unique.

Theorem C16_identifiers_fresh : forall s ops, db_inv s ->
  Forall (fun i => ~ In i (keys s)) (inserted_ids (snd (db_run s ops))).
Proof. exact ids_fresh. Qed.
Print Assumptions C16_identifiers_fresh.

Theorem C16_store_invariant : forall ops, db_inv (fst (db_run db_init ops)).
Proof. intros ops. exact (db_run_inv ops db_init db_init_inv). Qed.
Print Assumptions C16_store_invariant.

Theorem C16_no_added_object_lost : forall s o i v, db_inv s -> lookup (d_items s) i = Some v ->
  o <> DRemId i -> (forall w, o <> DUpd i w) -> (forall w, o = DRemVal w -> w <> v) ->
  lookup (d_items (fst (db_step s o))) i = Some v.
Proof. exact no_lost_object. Qed.
Print Assumptions C16_no_added_object_lost.

Theorem C16_added_object_kept_through_history : forall pre post v,
  names (d_next (fst (db_run db_init pre))) v post = false ->
  lookup (d_items (fst (db_run db_init (pre ++ DIns v :: post)))) (d_next (fst (db_run db_init pre))) = Some v.
Proof. exact insert_then_kept. Qed.
Print Assumptions C16_added_object_kept_through_history.

Theorem C16_no_phantom_object : forall s o i v, db_inv s -> lookup (d_items (fst (db_step s o))) i = Some v ->
  lookup (d_items s) i = Some v \/ (o = DIns v /\ i = d_next s) \/ (o = DUpd i v /\ lookup (d_items s) i <> None).
Proof. exact no_phantom_object. Qed.
Print Assumptions C16_no_phantom_object.

Theorem C16_removed_stays_removed : forall ops s i, db_inv s -> i < d_next s -> lookup (d_items s) i = None ->
  lookup (d_items (fst (db_run s ops))) i = None /\ succ_dels i s ops = 0%nat.
Proof. exact removed_stays_removed. Qed.
Print Assumptions C16_removed_stays_removed.

Theorem C16_at_most_one_delete_succeeds : forall ops s i, db_inv s -> (succ_dels i s ops <= 1)%nat.
Proof. exact at_most_one_delete. Qed.
Print Assumptions C16_at_most_one_delete_succeeds.

Theorem C16_query_is_a_snapshot : forall s, db_step s DAll = (s, RAll (d_items s)).
Proof. exact all_is_snapshot. Qed.
Print Assumptions C16_query_is_a_snapshot.

Theorem C16_provider_registration_last_writer : forall ops st a,
  smem a (l_prov (fst (ldm_run st ops))) = match last_preg a ops None with Some b => b | None => smem a (l_prov st) end.
Proof. exact prov_last_writer. Qed.
Print Assumptions C16_provider_registration_last_writer.

Theorem C16_consumer_registration_last_writer : forall ops st a,
  smem a (l_cons (fst (ldm_run st ops))) = match last_creg a ops None with Some b => b | None => smem a (l_cons st) end.
Proof. exact cons_last_writer. Qed.
Print Assumptions C16_consumer_registration_last_writer.

Theorem C16_subscription_owner_registered : forall ops st, subs_inv st -> subs_inv (fst (ldm_run st ops)).
Proof. exact ldm_run_subs_inv. Qed.
Print Assumptions C16_subscription_owner_registered.

Theorem C16_subscription_not_lost : forall st o s a, In (s, a) (l_subs st) ->
  (forall b, o <> LSDel s b) -> o <> LCDereg a -> In (s, a) (l_subs (fst (ldm_step st o))).
Proof. exact sub_not_lost. Qed.
Print Assumptions C16_subscription_not_lost.

Theorem C16_subscription_not_resurrected : forall st o s a, In (s, a) (l_subs (fst (ldm_step st o))) ->
  In (s, a) (l_subs st) \/ (o = LSAdd s a /\ smem a (l_cons st) = true).
Proof. exact sub_not_resurrected. Qed.
Print Assumptions C16_subscription_not_resurrected.

Theorem C16_unsubscribed_is_gone : forall st s a, snd (ldm_step st (LSDel s a)) = LR (RBool true) ->
  sub_has s (l_subs (fst (ldm_step st (LSDel s a)))) = false.
Proof. exact unsub_then_gone. Qed.
Print Assumptions C16_unsubscribed_is_gone.

(* what a QUIESCENT attendance pass serves (served: a function of the specified state alone) after ANY history *)
Theorem C16_attendance_serves_only_stored : forall st s, subs_inv st -> In s (served st) ->
  exists a, In (s, a) (l_subs st) /\ smem a (l_cons st) = true.
Proof. exact served_owner_registered. Qed.
Print Assumptions C16_attendance_serves_only_stored.

Theorem C16_attendance_serves_every_stored : forall ops st s a, In (s, a) (l_subs st) ->
  (forall b, ~ In (LSDel s b) ops) -> ~ In (LCDereg a) ops ->
  d_items (l_db (fst (ldm_run st ops))) <> [] -> In s (served (fst (ldm_run st ops))).
Proof. exact stored_still_served. Qed.
Print Assumptions C16_attendance_serves_every_stored.

Theorem C16_unsubscribed_never_served_again : forall st s a ops, snd (ldm_step st (LSDel s a)) = LR (RBool true) ->
  (forall b, ~ In (LSAdd s b) ops) -> ~ In s (served (fst (ldm_run (fst (ldm_step st (LSDel s a))) ops))).
Proof. exact unsubscribed_never_served. Qed.
Print Assumptions C16_unsubscribed_never_served_again.

Theorem C16_deregistered_never_served_again : forall st s a ops, (forall b, In (s, b) (l_subs st) -> b = a) ->
  (forall b, ~ In (LSAdd s b) ops) -> ~ In s (served (fst (ldm_run (fst (ldm_step st (LCDereg a))) ops))).
Proof. exact deregistered_never_served. Qed.
Print Assumptions C16_deregistered_never_served_again.

Example C16_example_attendance :
  let ops := [LCReg 1; LCReg 2; LPReg 2; LAdd 100 2; LSAdd 50 2; LSAdd 51 1; LSDel 51 1; LSSnap; LSDel 51 1] in
  served (fst (ldm_run ldm_init ops)) = [50]
  /\ snd (ldm_run ldm_init ops) = [LR (RBool true); LR (RBool true); LR (RBool true); LR (RId 0); LR (RBool true);
                                    LR (RBool true); LR (RBool true); LSet [50]; LR (RBool false)].
Proof. vm_compute. split; reflexivity. Qed.

(* hypotheses are satisfiable / the statements are not vacuous *)
Example C16_example_run :
  let ops := [DIns 10; DIns 11; DUpd 0 12; DRemId 1; DRemId 1; DIns 13; DAll] in
  snd (db_run db_init ops) = [RId 0; RId 1; RBool true; RBool true; RBool false; RId 2; RAll [(0, 12); (2, 13)]]
  /\ succ_dels 1 db_init ops = 1%nat.
Proof. vm_compute. split; reflexivity. Qed.
Example C16_example_subs :
  let ops := [LCReg 5; LSAdd 100 5; LSAdd 101 6; LCDereg 5; LCReg 5; LSSnap] in
  snd (ldm_run ldm_init ops) = [LR (RBool true); LR (RBool true); LR (RBool false); LR (RBool true); LR (RBool true); LSet []].
Proof. vm_compute. reflexivity. Qed.
