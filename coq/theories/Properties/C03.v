(* C03 - Secured packets are delivered only if authentic and untampered.
   Audited statements only; proofs in Proofs/SecRxProofs.v (on top of Proofs/SecProofs.v),
   notions in Model/SecSpec.v, model in Model/Sec.v ([rx] = process_basic_header +
   process_security_header: RDeliver p means process_common_header is entered with exactly
   the bytes p; the first argument [true] of rx is itsGnSecurity = ENABLED).

   sig_ok is the ECDSA verification oracle and hash8 the HashedId8 oracle: nothing is assumed
   about them except in C03_altered_rejected, whose hypothesis IS the ECDSA assumption. *)
From FlexVerif Require Import Base.Prelude Model.Sec Model.SecSpec Proofs.SecProofs Proofs.SecRxProofs.

(* Main clause. With security enabled, after ANY history of calls and received frames, a
   frame reaches the upper layers only if its next header is SECURED_PACKET and there is an
   authorization ticket, named by the frame's signer field, in the store, chained by cert_ok
   links to a root configured as trusted, authorising the ITS-AID, valid at the generation
   time, such that the oracle accepted the frame's signature over the frame's to-be-signed
   bytes (payload and signed header information) under that ticket's key; the bytes handed on
   are exactly the payload inside those to-be-signed bytes. *)
Theorem C03_delivery_implies_authentic :
  forall (hash8 : cert -> Z) (sig_ok : Z -> Z -> Z -> bool) (sign : Z -> Z -> Z) (enc_tbs : tbsdata -> Z)
         (ops : list op) (vs vo : bool) (nh body : Z) (m : msg) (sn' : station) (p : Z),
    rx hash8 sig_ok (final hash8 sig_ok sign enc_tbs init_station ops) true vs vo nh body m = (sn', RDeliver p) ->
    nh = 2 /\
    exists e : entry,
      In e (ats (st_store sn')) /\
      signer_names hash8 (m_signer m) (e_cert e) /\
      anchored hash8 sig_ok (configured_roots hash8 sig_ok ops) (e_cert e) /\
      is_at (e_cert e) = true /\
      accepted_under sig_ok (e_cert e) m p.
Proof. exact delivery_implies_authentic_history. Qed.
Print Assumptions C03_delivery_implies_authentic.

(* Unsecured packets (next header COMMON_HEADER) are dropped, state untouched. *)
Theorem C03_unsecured_dropped :
  forall (hash8 : cert -> Z) (sig_ok : Z -> Z -> Z -> bool) (sn : station) (vs : bool) (body : Z) (m : msg),
    rx hash8 sig_ok sn true vs true 1 body m = (sn, RDrop).
Proof. exact unsecured_dropped. Qed.
Print Assumptions C03_unsecured_dropped.

Theorem C03_only_secured_next_header_delivers :
  forall (hash8 : cert -> Z) (sig_ok : Z -> Z -> Z -> bool) (sn : station) (vs vo : bool) (nh body : Z) (m : msg)
         (sn' : station) (p : Z),
    nh <> 2 -> rx hash8 sig_ok sn true vs vo nh body m <> (sn', RDeliver p).
Proof. exact not_secured_never_delivered. Qed.
Print Assumptions C03_only_secured_next_header_delivers.

(* Digest-signed packets of unknown tickets: never delivered, store unchanged. *)
Theorem C03_unknown_digest_dropped :
  forall (hash8 : cert -> Z) (sig_ok : Z -> Z -> Z -> bool) (sn : station) (se vs vo : bool) (body : Z) (m : msg) (d : Z),
    m_signer m = SDigest d -> find_key hash8 d (ats (st_store sn)) = None ->
    (forall p, snd (rx hash8 sig_ok sn se vs vo 2 body m) <> RDeliver p) /\
    st_store (fst (rx hash8 sig_ok sn se vs vo 2 body m)) = st_store sn.
Proof. exact unknown_digest_dropped. Qed.
Print Assumptions C03_unknown_digest_dropped.

(* Unknown or self-made chains: when no certificate the signer field can designate is chained
   to a configured root, the frame is not delivered. *)
Theorem C03_self_made_chain_dropped :
  forall (hash8 : cert -> Z) (sig_ok : Z -> Z -> Z -> bool) (sign : Z -> Z -> Z) (enc_tbs : tbsdata -> Z)
         (ops : list op) (vs vo : bool) (nh body : Z) (m : msg),
    (forall c, signer_names hash8 (m_signer m) c -> ~ anchored hash8 sig_ok (configured_roots hash8 sig_ok ops) c) ->
    forall p, snd (rx hash8 sig_ok (final hash8 sig_ok sign enc_tbs init_station ops) true vs vo nh body m) <> RDeliver p.
Proof. exact self_made_chain_dropped. Qed.
Print Assumptions C03_self_made_chain_dropped.

(* Received frames (genuine or forged, any number, any order) never change the trusted roots *)
Theorem C03_frames_keep_roots :
  forall (hash8 : cert -> Z) (sig_ok : Z -> Z -> Z -> bool) (sign : Z -> Z -> Z) (enc_tbs : tbsdata -> Z)
         (fs : list op), Forall is_rx fs -> forall sn : station,
    roots (st_store (final hash8 sig_ok sign enc_tbs sn fs)) = roots (st_store sn).
Proof. exact frames_keep_roots. Qed.
Print Assumptions C03_frames_keep_roots.

(* ... hence whatever was received before, delivery still rests on a chain to the roots
   configured by the operator before those frames, and on the oracle's verdict on THIS frame *)
Theorem C03_history_independent :
  forall (hash8 : cert -> Z) (sig_ok : Z -> Z -> Z -> bool) (sign : Z -> Z -> Z) (enc_tbs : tbsdata -> Z)
         (ops fs : list op) (vs vo : bool) (nh body : Z) (m : msg) (sn' : station) (p : Z),
    Forall is_rx fs ->
    rx hash8 sig_ok (final hash8 sig_ok sign enc_tbs init_station (ops ++ fs)) true vs vo nh body m = (sn', RDeliver p) ->
    nh = 2 /\
    exists e : entry,
      signer_names hash8 (m_signer m) (e_cert e) /\
      anchored hash8 sig_ok (configured_roots hash8 sig_ok ops) (e_cert e) /\
      is_at (e_cert e) = true /\
      accepted_under sig_ok (e_cert e) m p.
Proof. exact history_independent. Qed.
Print Assumptions C03_history_independent.

(* "Altered in any bit => not delivered", under the ECDSA assumption stated as a premise:
   the oracle accepts (k, t, s) only if the holder of k signed the bytes t. Then a frame whose
   to-be-signed bytes were not signed by the holder of any designated, chained ticket's key
   (altered content, altered signer, altered signature, attacker key) is not delivered. *)
Theorem C03_altered_rejected :
  forall (hash8 : cert -> Z) (sig_ok : Z -> Z -> Z -> bool) (sign : Z -> Z -> Z) (enc_tbs : tbsdata -> Z)
         (signed_by_holder : Z -> Z -> Prop),
    (forall k t s, sig_ok k t s = true -> signed_by_holder k t) ->
    forall (ops fs : list op) (vs vo : bool) (nh body : Z) (m : msg),
      Forall is_rx fs ->
      (forall c, signer_names hash8 (m_signer m) c -> anchored hash8 sig_ok (configured_roots hash8 sig_ok ops) c ->
                 ~ signed_by_holder (ckey c) (m_tbs m)) ->
      forall p, snd (rx hash8 sig_ok (final hash8 sig_ok sign enc_tbs init_station (ops ++ fs)) true vs vo nh body m)
                <> RDeliver p.
Proof. exact altered_rejected. Qed.
Print Assumptions C03_altered_rejected.

(* The issuer designation of a certificate is not covered by the certificate's signature. A
   frame is not delivered when every certificate its signer field can designate is not itself a
   configured root and is rejected by the oracle under the key of every certificate its issuer
   field designates - whatever frames were received before (the same to-be-signed bytes and
   signature under another designation among them) and whatever the oracle says about that
   signature under any other key, the certificate's own included. *)
Theorem C03_relabelled_issuer_dropped :
  forall (hash8 : cert -> Z) (sig_ok : Z -> Z -> Z -> bool) (sign : Z -> Z -> Z) (enc_tbs : tbsdata -> Z)
         (ops fs : list op) (vs vo : bool) (nh body : Z) (m : msg),
    Forall is_rx fs ->
    (forall c, signer_names hash8 (m_signer m) c ->
               ~ In c (configured_roots hash8 sig_ok ops) /\
               forall i, cissuer c = IssDigest (hash8 i) -> sig_ok (ckey i) (ctbs c) (csig c) = false) ->
    forall p, snd (rx hash8 sig_ok (final hash8 sig_ok sign enc_tbs init_station (ops ++ fs)) true vs vo nh body m)
              <> RDeliver p.
Proof. exact relabelled_issuer_dropped. Qed.
Print Assumptions C03_relabelled_issuer_dropped.

(* ---- non-vacuity ---- *)
Definition ex_sig (k t s : Z) : bool :=
  table_sig_ok [(1, 101, 201); (1, 102, 202); (2, 103, 203); (3, 900, 950);
                (5, 105, 205); (5, 106, 206); (6, 107, 207); (7, 901, 951);
                (8, 108, 208); (8, 903, 953)] k t s.
Definition ex_root := mkCert 1 11 IssSelf false (Some [36]) (Some [mkPE PAll 2]) 0 1000 1 201 101 true true.
Definition ex_aa := mkCert 2 12 (IssDigest 11) false (Some [36]) (Some [mkPE (PExplicit [36; 37]) 1]) 0 1000 2 202 102 true true.
Definition ex_at := mkCert 3 13 (IssDigest 12) true (Some [36; 37]) None 100 900 3 203 103 true true.
(* the attacker's own, internally consistent chain *)
Definition ex_xroot := mkCert 5 15 IssSelf false (Some [36]) (Some [mkPE PAll 2]) 0 1000 5 205 105 true true.
Definition ex_xaa := mkCert 6 16 (IssDigest 15) false (Some [36]) (Some [mkPE PAll 1]) 0 1000 6 206 106 true true.
Definition ex_xat := mkCert 7 17 (IssDigest 16) true (Some [36; 37]) None 100 900 7 207 107 true true.
(* a 'ticket' signed with its own key (oracle fact (8, 108, 208)): shown as self-signed, and the same
   to-be-signed bytes and signature re-labelled as issued by the genuine authority *)
Definition ex_oat_self := mkCert 8 18 IssSelf true (Some [36; 37]) None 100 900 8 208 108 true true.
Definition ex_oat_aa := mkCert 9 19 (IssDigest 12) true (Some [36; 37]) None 100 900 8 208 108 true true.
Definition ex_ops := [OAddRoot ex_root None; OAddAA ex_aa (Some ex_root)].
Definition ex_frame (sg : signer) (tbs sig : Z) :=
  mkMsg true sg (mkTbs 36 (Some 500) false false false false false None None 7) tbs sig.
Definition ex_rx (sn : station) (nh : Z) (m : msg) := rx model_hash8 ex_sig sn true true true nh 9 m.

Example C03_example :
  let sn := final model_hash8 ex_sig model_sign model_enc init_station ex_ops in
  (* genuine CAM carrying its certificate: delivered, exactly the signed payload *)
  snd (ex_rx sn 2 (ex_frame (SCerts [ex_at]) 900 950)) = RDeliver 7 /\
  (* the same bytes with the unsecured next header, or a digest of a ticket not yet known: dropped *)
  snd (ex_rx sn 1 (ex_frame (SCerts [ex_at]) 900 950)) = RDrop /\
  snd (ex_rx sn 2 (ex_frame (SDigest 13) 900 950)) = RDrop /\
  (* altered to-be-signed bytes (different identifier, the oracle has no fact for it): dropped *)
  snd (ex_rx sn 2 (ex_frame (SCerts [ex_at]) 902 950)) = RDrop /\
  (* attacker's consistent chain, correctly signed under the attacker's ticket: dropped *)
  snd (ex_rx sn 2 (ex_frame (SCerts [ex_xat]) 901 951)) = RDrop /\
  (* after the genuine frame was received the digest form is delivered as well, the forged one still is not *)
  snd (ex_rx (fst (ex_rx sn 2 (ex_frame (SCerts [ex_at]) 900 950))) 2 (ex_frame (SDigest 13) 900 950)) = RDeliver 7 /\
  snd (ex_rx (fst (ex_rx sn 2 (ex_frame (SCerts [ex_xat]) 901 951))) 2 (ex_frame (SDigest 17) 901 951)) = RDrop /\
  (* a ticket signed with its own key: dropped as self-signed, and dropped again - certificate and digest form - when
     the same bytes and signature are shown afterwards as issued by the genuine authority *)
  snd (ex_rx sn 2 (ex_frame (SCerts [ex_oat_self]) 903 953)) = RDrop /\
  (let sn1 := fst (ex_rx sn 2 (ex_frame (SCerts [ex_oat_self]) 903 953)) in
   snd (ex_rx sn1 2 (ex_frame (SCerts [ex_oat_aa]) 903 953)) = RDrop /\
   snd (ex_rx (fst (ex_rx sn1 2 (ex_frame (SCerts [ex_oat_aa]) 903 953))) 2 (ex_frame (SDigest 19) 903 953)) = RDrop).
Proof. vm_compute. repeat split. Qed.
