(* C17 - DEN service repeats an event's DENM on schedule with a stable, unique identity.
   This file holds only the audited statements; proofs are in Proofs/DenProofs.v.

   Reading guide. [run (station, app) requests] is the list of events, one per request,
   in the order the requests were made; an event records the sequence number it was
   given, its position, and its hand-overs to BTP ([ev_txs], in order). Requests:
   [Ev t0 olat olon i T]   emergency-vehicle trigger at UTC time t0 (ms), position from the
                           TPV (a missing coordinate keeps the previous one), repetition
                           interval i and duration T (ms);
   [Crw t0 lat lon ok]     collision risk warning at t0: a single DENM, no repetition.
   Time is virtual: a hand-over takes no time and sleep(i) lasts exactly i. *)
From FlexVerif Require Import Base.Prelude Model.Den Proofs.DenProofs.

(* ---- the count: ceil(T / i) ---------------------------------------------------------- *)
(* cdiv is the ceiling: the least n with T <= n * i *)
Theorem C17_cdiv_is_ceiling : forall T i, 0 < i -> (cdiv T i - 1) * i < T <= cdiv T i * i.
Proof. exact cdiv_spec. Qed.
Print Assumptions C17_cdiv_is_ceiling.

(* all i > 0 and all T (no bound); for T <= 0 the ceiling is <= 0 and Z.to_nat gives 0 *)
Theorem C17_schedule_count : forall i T, 0 < i -> length (schedule i T) = Z.to_nat (cdiv T i).
Proof. exact schedule_count. Qed.
Print Assumptions C17_schedule_count.

(* T = 0 explicitly: the loop body never runs, no DENM at all (ceil(0 / i) = 0) *)
Theorem C17_schedule_zero_duration : forall i T, T <= 0 -> schedule i T = [].
Proof. exact schedule_zero. Qed.
Print Assumptions C17_schedule_zero_duration.

(* "at once": for T > 0 the first hand-over is at offset 0 *)
Theorem C17_schedule_first_at_once : forall i T, 0 < i -> 0 < T -> exists rest, schedule i T = 0 :: rest.
Proof. exact schedule_first. Qed.
Print Assumptions C17_schedule_first_at_once.

(* "then every i": the offsets are exactly 0, i, 2i, ..., (ceil(T/i) - 1) i *)
Theorem C17_schedule_times : forall i T, 0 < i ->
  schedule i T = map (fun k => k * i) (zrange 0 (Z.to_nat (cdiv T i))).
Proof. exact schedule_times. Qed.
Print Assumptions C17_schedule_times.

(* "until T has elapsed": every offset lies in [0, T), and the last one is less than
   one interval before T *)
Theorem C17_schedule_within_duration : forall i T x, 0 < i -> In x (schedule i T) -> 0 <= x < T.
Proof. exact schedule_in. Qed.
Print Assumptions C17_schedule_within_duration.

Theorem C17_schedule_covers_duration : forall i T, 0 < i -> 0 < T ->
  In ((cdiv T i - 1) * i) (schedule i T) /\ T <= (cdiv T i - 1) * i + i.
Proof. exact schedule_covers. Qed.
Print Assumptions C17_schedule_covers_duration.

(* the fuel of the structural recursion never cuts the loop short *)
Theorem C17_schedule_fuel_irrelevant : forall i T n, 0 < i -> (sched_fuel i T <= n)%nat ->
  sched_loop n i T 0 = schedule i T.
Proof. exact schedule_fuel_irrelevant. Qed.
Print Assumptions C17_schedule_fuel_irrelevant.

(* the same, for the k-th request of any request sequence of any station *)
Theorem C17_event_count : forall rs sa k e t0 olat olon i T, 0 < i ->
  nth_error rs k = Some (Ev t0 olat olon i T) -> nth_error (run sa rs) k = Some e ->
  length (ev_txs e) = Z.to_nat (cdiv T i).
Proof. exact ev_count_run. Qed.
Print Assumptions C17_event_count.

Theorem C17_event_times : forall rs sa k e t0 olat olon i T p q x y, 0 < i -> (p <= q)%nat ->
  nth_error rs k = Some (Ev t0 olat olon i T) -> nth_error (run sa rs) k = Some e ->
  nth_error (ev_txs e) p = Some x -> nth_error (ev_txs e) q = Some y ->
  tx_time x = t0 + Z.of_nat p * i /\ tx_time y = t0 + Z.of_nat q * i /\
  tx_time x <= tx_time y /\ d_ref (tx_msg x) <= d_ref (tx_msg y).
Proof. exact ev_order_run. Qed.
Print Assumptions C17_event_times.

(* ---- identity --------------------------------------------------------------------------- *)
Theorem C17_same_action_id_within_event : forall rs sa k e x,
  nth_error (run sa rs) k = Some e -> In x (ev_txs e) ->
  d_seq (tx_msg x) = ev_seq e /\ d_orig_station (tx_msg x) = st_id (fst sa) /\
  d_hdr_station (tx_msg x) = st_id (fst sa).
Proof. exact same_action_id. Qed.
Print Assumptions C17_same_action_id_within_event.

(* any two different events of one station less than 65 536 requests apart: every DENM
   of the one differs in its action identifier from every DENM of the other *)
Theorem C17_distinct_events_distinct_action_ids : forall rs sa j k ej ek x y, j <> k ->
  Z.abs (Z.of_nat k - Z.of_nat j) < 65536 ->
  nth_error (run sa rs) j = Some ej -> nth_error (run sa rs) k = Some ek ->
  In x (ev_txs ej) -> In y (ev_txs ek) ->
  (d_orig_station (tx_msg x), d_seq (tx_msg x)) <> (d_orig_station (tx_msg y), d_seq (tx_msg y)).
Proof. exact distinct_action_ids. Qed.
Print Assumptions C17_distinct_events_distinct_action_ids.

(* the bound is tight: the sequence number is a 16-bit field, the 65 537th event reuses it *)
Theorem C17_action_id_cycle : forall rs sa j k ej ek, 0 <= st_seq (fst sa) < 65536 ->
  Z.of_nat k = Z.of_nat j + 65536 ->
  nth_error (run sa rs) j = Some ej -> nth_error (run sa rs) k = Some ek -> ev_seq ej = ev_seq ek.
Proof. exact same_after_cycle. Qed.
Print Assumptions C17_action_id_cycle.

Theorem C17_sequence_number_in_range : forall rs sa k e, 0 <= st_seq (fst sa) < 65536 ->
  nth_error (run sa rs) k = Some e -> 0 <= ev_seq e < 65536.
Proof. exact event_seq_range. Qed.
Print Assumptions C17_sequence_number_in_range.

(* ---- reference times -------------------------------------------------------------------- *)
(* every DENM carries the ITS clock reading of its hand-over ... *)
Theorem C17_reference_time_is_clock : forall rs sa k e x,
  nth_error (run sa rs) k = Some e -> In x (ev_txs e) -> d_ref (tx_msg x) = its_of_utc (tx_time x).
Proof. exact tx_ref_is_clock. Qed.
Print Assumptions C17_reference_time_is_clock.

(* ... hence reference times never decrease along time, within one event (C17_event_times)
   and across all events of the station *)
Theorem C17_reference_times_monotone : forall rs sa j k ej ek x y,
  nth_error (run sa rs) j = Some ej -> nth_error (run sa rs) k = Some ek ->
  In x (ev_txs ej) -> In y (ev_txs ek) -> tx_time x <= tx_time y ->
  d_ref (tx_msg x) <= d_ref (tx_msg y).
Proof. exact ref_monotone_global. Qed.
Print Assumptions C17_reference_times_monotone.

(* ---- destination area and event position ---------------------------------------------------- *)
Theorem C17_gbc_circle_at_event_position : forall rs sa k e t0 lat lon i T x,
  nth_error rs k = Some (Ev t0 (Some lat) (Some lon) i T) -> nth_error (run sa rs) k = Some e ->
  In x (ev_txs e) ->
  tx_port x = 2002 /\ tx_shape x = 0 /\ tx_area_lat x = lat /\ tx_area_lon x = lon /\
  0 < tx_a x /\ tx_b x = 0 /\ d_lat (tx_msg x) = lat /\ d_lon (tx_msg x) = lon.
Proof. exact ev_position_run. Qed.
Print Assumptions C17_gbc_circle_at_event_position.

Theorem C17_gbc_circle_at_event_position_crw : forall rs sa k e t0 lat lon ok x,
  nth_error rs k = Some (Crw t0 lat lon ok) -> nth_error (run sa rs) k = Some e ->
  In x (ev_txs e) ->
  tx_port x = 2002 /\ tx_shape x = 0 /\ tx_area_lat x = lat /\ tx_area_lon x = lon /\
  0 < tx_a x /\ tx_b x = 0 /\ d_lat (tx_msg x) = lat /\ d_lon (tx_msg x) = lon.
Proof. exact crw_position_run. Qed.
Print Assumptions C17_gbc_circle_at_event_position_crw.

(* all hand-overs of an event agree with the event's own position, whatever the request kind
   and however incomplete the TPV was *)
Theorem C17_area_is_event_position : forall rs sa k e x,
  nth_error (run sa rs) k = Some e -> In x (ev_txs e) ->
  tx_port x = 2002 /\ tx_shape x = 0 /\
  tx_area_lat x = ev_lat e /\ tx_area_lon x = ev_lon e /\ tx_a x = 100 /\ tx_b x = 0 /\ tx_angle x = 0 /\
  d_lat (tx_msg x) = ev_lat e /\ d_lon (tx_msg x) = ev_lon e.
Proof. exact gbc_area. Qed.
Print Assumptions C17_area_is_event_position.

(* an event is not affected by the requests made after it (overlap included) *)
Theorem C17_event_independent_of_later_requests : forall rs more sa k, (k < length rs)%nat ->
  nth_error (run sa (rs ++ more)) k = nth_error (run sa rs) k.
Proof. exact run_prefix. Qed.
Print Assumptions C17_event_independent_of_later_requests.

(* ---- concurrency: the threads of different requests interleave ---------------------------------- *)
(* [run_alloc s a rs ranks]: the events of the requests rs when the k-th request was the
   (nth k ranks)-th of the station to call next_sequence_number (requests made at the same
   instant may get there in any order). In request order it is [run]: *)
Theorem C17_allocation_in_request_order : forall s a rs, 0 <= st_seq s < 65536 ->
  run_alloc s a rs (zrange 0 (length rs)) = run (s, a) rs.
Proof. exact run_alloc_request_order. Qed.
Print Assumptions C17_allocation_in_request_order.

(* any order: the DENMs of an event all carry the number of the event's own call and the
   station's identity *)
Theorem C17_same_action_id_any_allocation_order : forall rs s a ranks k e x,
  nth_error (run_alloc s a rs ranks) k = Some e -> In x (ev_txs e) ->
  d_seq (tx_msg x) = ev_seq e /\ ev_seq e = seq_at s (nth k ranks 0) /\
  d_orig_station (tx_msg x) = st_id s /\ d_hdr_station (tx_msg x) = st_id s.
Proof. exact alloc_same_action_id. Qed.
Print Assumptions C17_same_action_id_any_allocation_order.

(* any order: events served by different calls, less than 65 536 calls apart, share no action
   identifier *)
Theorem C17_distinct_action_ids_any_allocation_order : forall rs s a ranks j k ej ek x y,
  nth j ranks 0 <> nth k ranks 0 -> Z.abs (nth j ranks 0 - nth k ranks 0) < 65536 ->
  nth_error (run_alloc s a rs ranks) j = Some ej -> nth_error (run_alloc s a rs ranks) k = Some ek ->
  In x (ev_txs ej) -> In y (ev_txs ek) ->
  (d_orig_station (tx_msg x), d_seq (tx_msg x)) <> (d_orig_station (tx_msg y), d_seq (tx_msg y)).
Proof. exact alloc_distinct_action_ids. Qed.
Print Assumptions C17_distinct_action_ids_any_allocation_order.

(* the order decides the numbers and nothing else: kind, position and every field of every
   hand-over except the sequence number (time, port, shape, area, station identity, reference
   time, event position) are those of [run], to which the theorems above apply *)
Theorem C17_allocation_order_changes_numbers_only : forall s a rs ranks,
  map event_unnumbered (run_alloc s a rs ranks) = map event_unnumbered (run (s, a) rs).
Proof. exact alloc_only_numbers_run. Qed.
Print Assumptions C17_allocation_order_changes_numbers_only.

(* Construction of the messages. Any number of DENMs under construction at one instant (jobs js:
   station, the event's number, clock, request position), their four construction steps
   interleaved in ANY order (order: which construction moves next; a thread switch between any
   two steps): a construction that got its four steps has handed over exactly the DENM the
   atomic model [send_at] hands over - its own station, number, reference time and position,
   whatever the other constructions wrote meanwhile. *)
Theorem C17_construction_interleaving_irrelevant : forall js order k j,
  nth_error js k = Some j -> (4 <= count_occ Nat.eq_dec order k)%nat ->
  nth_error (interleave js (map (fun _ => B_new) js) order) k =
  Some (B_sent (send_at (j_sid j) (j_seq j) (j_lat j) (j_lon j) (j_now j))).
Proof. exact construction_private. Qed.
Print Assumptions C17_construction_interleaving_irrelevant.

(* the state a construction has reached is a function of the steps IT was given *)
Theorem C17_construction_progress : forall js order k j, nth_error js k = Some j ->
  nth_error (interleave js (map (fun _ => B_new) js) order) k =
  Some (build_steps (count_occ Nat.eq_dec order k) j B_new).
Proof. exact construction_progress. Qed.
Print Assumptions C17_construction_progress.

(* ---- collision risk warning: one DENM at once ------------------------------------------------- *)
(* Full statement: every collision-risk request hands over exactly one DENM. It is FALSE of the
   model (and of the code) when the altitude confidence of the position is an int, as the
   ReferencePosition class of the LDM declares it: the encoder raises (known finding KF-C17-1). *)
Definition C17_crw_sends_one_full : Prop := forall rs sa k e t0 lat lon ok,
  nth_error rs k = Some (Crw t0 lat lon ok) -> nth_error (run sa rs) k = Some e ->
  exists x, ev_txs e = [x] /\ tx_time x = t0.

Theorem C17_crw_sends_one_partial : forall rs sa k e t0 lat lon,
  nth_error rs k = Some (Crw t0 lat lon true) -> nth_error (run sa rs) k = Some e ->
  exists x, ev_txs e = [x] /\ tx_time x = t0.
Proof. exact crw_count_partial. Qed.
Print Assumptions C17_crw_sends_one_partial.

Theorem C17_crw_sends_one_refuted : ~ C17_crw_sends_one_full.
Proof.
  intros H.
  destruct (H [Crw 0 0 0 false] ({| st_id := 1; st_seq := 0 |}, app_init) 0%nat _ 0 0 0 false
              eq_refl eq_refl) as (x & E & _).
  discriminate E.
Qed.
Print Assumptions C17_crw_sends_one_refuted.

(* ---- reception ------------------------------------------------------------------------------------ *)
(* for every signed position (indeed every integer) and every other management-container
   content m: what the sender put on the wire comes back as the position of the LDM record *)
Theorem C17_received_denm_stored_at_event_position : forall m lat lon alt,
  rx_wire m (wire_enc LAT_LO lat) (wire_enc LON_LO lon) (wire_enc ALT_LO alt) =
  {| l_lat := lat; l_lon := lon; l_alt := alt; l_radius := 0 |}.
Proof. exact rx_position. Qed.
Print Assumptions C17_received_denm_stored_at_event_position.

Theorem C17_feed_ldm_position : forall m, l_lat (feed_ldm m) = m_lat m /\ l_lon (feed_ldm m) = m_lon m /\
  l_alt (feed_ldm m) = m_alt m /\ l_radius (feed_ldm m) = 0.
Proof. exact feed_ldm_position. Qed.
Print Assumptions C17_feed_ldm_position.

Theorem C17_wire_fields_fit : forall lat lon alt,
  -900000000 <= lat <= 900000001 -> -1800000000 <= lon <= 1800000001 -> -100000 <= alt <= 800001 ->
  0 <= wire_enc LAT_LO lat < 2 ^ 31 /\ 0 <= wire_enc LON_LO lon < 2 ^ 32 /\ 0 <= wire_enc ALT_LO alt < 2 ^ 20.
Proof. exact wire_widths. Qed.
Print Assumptions C17_wire_fields_fit.

(* ---- non-vacuity ------------------------------------------------------------------------------------- *)
Definition ex_sa : station * app := ({| st_id := 77; st_seq := 65535 |}, app_init).
Definition ex_rs : list req :=
  [Ev 1000 (Some (-415000000)) (Some (-22500000)) 1000 2500;
   Ev 2500 (Some 415000000) None 700 1400;
   Crw 2600 900000000 (-1800000000) true].

Example C17_example_schedule :
  schedule 1000 2500 = [0; 1000; 2000] /\ schedule 1000 3000 = [0; 1000; 2000] /\
  schedule 1000 3001 = [0; 1000; 2000; 3000] /\ schedule 100 0 = [] /\ schedule 10000 1 = [0] /\
  cdiv 2500 1000 = 3 /\ cdiv 3000 1000 = 3 /\ cdiv 0 100 = 0.
Proof. vm_compute. repeat split. Qed.

(* two constructions of one station at one instant, steps alternating; the third job is never
   scheduled: it has handed over nothing *)
Example C17_example_interleave :
  let js := [{| j_sid := 77; j_seq := 5; j_now := 2000; j_lat := 1; j_lon := 2 |};
             {| j_sid := 77; j_seq := 6; j_now := 2000; j_lat := -3; j_lon := -4 |};
             {| j_sid := 77; j_seq := 7; j_now := 2000; j_lat := 9; j_lon := 9 |}] in
  interleave js (map (fun _ => B_new) js) [0; 1; 0; 1; 1; 0; 1; 0]%nat =
  [B_sent (send_at 77 5 1 2 2000); B_sent (send_at 77 6 (-3) (-4) 2000); B_new].
Proof. vm_compute. reflexivity. Qed.

(* the second and third request made at one instant, numbers taken in the opposite order *)
Example C17_example_run_alloc :
  map (fun e => (ev_seq e, ev_lat e, ev_lon e, map tx_time (ev_txs e)))
      (run_alloc (fst ex_sa) (snd ex_sa) ex_rs [0; 2; 1]) =
  [(65535, -415000000, -22500000, [1000; 2000; 3000]);
   (1, 415000000, -22500000, [2500; 3200]);
   (0, 900000000, -1800000000, [2600])].
Proof. vm_compute. reflexivity. Qed.

Example C17_example_run :
  map (fun e => (ev_seq e, ev_lat e, ev_lon e, map tx_time (ev_txs e))) (run ex_sa ex_rs) =
  [(65535, -415000000, -22500000, [1000; 2000; 3000]);
   (0, 415000000, -22500000, [2500; 3200]);
   (1, 900000000, -1800000000, [2600])].
Proof. vm_compute. reflexivity. Qed.
