(* C13 - LDM queries return exactly the matching objects, identically on both back-ends.
   This file holds only the audited statements; proofs are in Proofs/LdmFilterProofs.v.
   One model (Model/LdmFilter.v) describes both database back-ends; "identically on both
   back-ends" is established by tying each back-end to this model on every run. *)
From FlexVerif Require Import Base.Prelude Model.LdmFilter Proofs.LdmFilterProofs.
From Coq Require Import Sorted Permutation.

(* membership: stored, type selected, filter true *)
Theorem C13_query_exact : forall st q o,
  In o (query st q) <-> In o st /\ type_ok (q_types q) o = true /\ eval_flt (q_flt q) o = true.
Proof. exact query_exact. Qed.
Print Assumptions C13_query_exact.

(* an object lacking an attribute does not match a statement on it (any operator, also != and
   notlike), and is therefore not returned by a one-statement filter *)
Theorem C13_missing_attribute_no_match : forall s o, attr o (s_path s) = None -> eval_stmt s o = false.
Proof. exact missing_attribute_no_match. Qed.
Print Assumptions C13_missing_attribute_no_match.

Theorem C13_missing_attribute_excluded : forall st types s ords o,
  attr o (s_path s) = None -> ~ In o (query st (mkReq types (F1 s) ords)).
Proof. exact missing_attribute_excluded. Qed.
Print Assumptions C13_missing_attribute_excluded.

(* the result is a permutation of the matching objects (nothing lost, nothing duplicated) ... *)
Theorem C13_query_perm : forall st q, Permutation (query st q) (matching st q).
Proof. exact query_perm. Qed.
Print Assumptions C13_query_perm.

(* ... sorted by the ordering attributes, each in its own direction, objects lacking one last ... *)
Theorem C13_query_sorted : forall st q,
  StronglySorted (fun a b => le_keys (q_orders q) a b = true) (query st q).
Proof. exact query_sorted. Qed.
Print Assumptions C13_query_sorted.

(* ... and stable: objects with equal keys keep the order in which they are stored *)
Theorem C13_query_stable : forall st q z,
  filter (fun y => match cmp_keys (q_orders q) z y with Eq => true | _ => false end) (query st q)
  = filter (fun y => match cmp_keys (q_orders q) z y with Eq => true | _ => false end) (matching st q).
Proof. exact query_stable. Qed.
Print Assumptions C13_query_stable.

Theorem C13_query_unordered : forall st types f, query st (mkReq types f []) = matching st (mkReq types f []).
Proof. exact query_unordered. Qed.
Print Assumptions C13_query_unordered.

(* the order relation is a total preorder, so "sorted" means what it says *)
Theorem C13_order_total : forall orders a b, le_keys orders a b = true \/ le_keys orders b a = true.
Proof. exact le_keys_total. Qed.
Print Assumptions C13_order_total.

Theorem C13_order_transitive : forall orders a b c,
  le_keys orders a b = true -> le_keys orders b c = true -> le_keys orders a c = true.
Proof. exact le_keys_trans. Qed.
Print Assumptions C13_order_transitive.

Theorem C13_and_or_semantics : forall st types s1 s2 ords o,
  (In o (query st (mkReq types (F2 s1 0 s2) ords)) <->
   In o (query st (mkReq types (F1 s1) ords)) /\ In o (query st (mkReq types (F1 s2) ords))) /\
  (In o (query st (mkReq types (F2 s1 1 s2) ords)) <->
   In o (query st (mkReq types (F1 s1) ords)) \/ In o (query st (mkReq types (F1 s2) ords))).
Proof. exact and_or_semantics. Qed.
Print Assumptions C13_and_or_semantics.

Theorem C13_like_semantics : forall o path r,
  (forall s, attr o path = Some (JStr s) ->
     (eval_stmt (mkStmt path 6 r) o = true <-> exists a b, s = a ++ rv_str r ++ b) /\
     eval_stmt (mkStmt path 7 r) o = negb (eval_stmt (mkStmt path 6 r) o)) /\
  (forall vs, attr o path = Some (JList vs) ->
     (eval_stmt (mkStmt path 6 r) o = true <-> exists e, In e vs /\ py_eq e r = true) /\
     eval_stmt (mkStmt path 7 r) o = negb (eval_stmt (mkStmt path 6 r) o)) /\
  (attr o path = None -> eval_stmt (mkStmt path 6 r) o = false /\ eval_stmt (mkStmt path 7 r) o = false).
Proof. exact like_semantics. Qed.
Print Assumptions C13_like_semantics.

Theorem C13_compare_semantics : forall o path n,
  attr o path = Some (JInt n) ->
  (forall m, (eval_stmt (mkStmt path 0 (RInt m)) o = true <-> n = m) /\
             (eval_stmt (mkStmt path 1 (RInt m)) o = true <-> n <> m) /\
             (eval_stmt (mkStmt path 2 (RInt m)) o = true <-> n > m) /\
             (eval_stmt (mkStmt path 3 (RInt m)) o = true <-> n < m) /\
             (eval_stmt (mkStmt path 4 (RInt m)) o = true <-> n >= m) /\
             (eval_stmt (mkStmt path 5 (RInt m)) o = true <-> n <= m)) /\
  (forall t, eval_stmt (mkStmt path 0 (RStr t)) o = false /\
             eval_stmt (mkStmt path 1 (RStr t)) o = true /\
             eval_stmt (mkStmt path 2 (RStr t)) o = false /\
             eval_stmt (mkStmt path 3 (RStr t)) o = false /\
             eval_stmt (mkStmt path 4 (RStr t)) o = false /\
             eval_stmt (mkStmt path 5 (RStr t)) o = false).
Proof. exact compare_semantics. Qed.
Print Assumptions C13_compare_semantics.

(* a float reference value num/den (den > 0; the exact value of the float): the comparison operators on an
   integer attribute compare exact values *)
Theorem C13_compare_semantics_float : forall o path n,
  attr o path = Some (JInt n) ->
  forall num den txt, 0 < den ->
    (eval_stmt (mkStmt path 0 (RFlt num den txt)) o = true <-> n * den = num) /\
    (eval_stmt (mkStmt path 1 (RFlt num den txt)) o = true <-> n * den <> num) /\
    (eval_stmt (mkStmt path 2 (RFlt num den txt)) o = true <-> n * den > num) /\
    (eval_stmt (mkStmt path 3 (RFlt num den txt)) o = true <-> n * den < num) /\
    (eval_stmt (mkStmt path 4 (RFlt num den txt)) o = true <-> n * den >= num) /\
    (eval_stmt (mkStmt path 5 (RFlt num den txt)) o = true <-> n * den <= num).
Proof. exact compare_semantics_float. Qed.
Print Assumptions C13_compare_semantics_float.

(* reference values that denote the same number but differ in type (1 / True / 1.0, n / float(n)) are
   interchangeable for ==, !=, >, <, >=, <= on every stored value and for like / notlike on everything but a
   string. On a string like / notlike look for the TEXT of the reference value (C13_like_semantics: rv_str r), which
   differs with the type - C13_reference_type_example: a statement must be evaluated with its own reference value *)
Theorem C13_same_number_interchangeable : forall v r1 r2 op,
  rv_wf r1 -> rv_wf r2 -> same_number r1 r2 ->
  (0 <= op <= 5 \/ (forall s, v <> JStr s)) ->
  apply_op op v r1 = apply_op op v r2.
Proof. exact same_number_interchangeable. Qed.
Print Assumptions C13_same_number_interchangeable.

Definition txt_1_0 : str := [49; 46; 48].                                            (* "1.0" *)
Definition s_lt100m : str := [108; 101; 115; 115; 84; 104; 97; 110; 49; 48; 48; 109]. (* "lessThan100m" *)
Example C13_reference_type_example :
  same_number (RInt 1) (RBool true) /\ same_number (RInt 1) (RFlt 1 1 txt_1_0) /\
  apply_op 6 (JStr s_lt100m) (RInt 1) = true /\
  apply_op 6 (JStr s_lt100m) (RBool true) = false /\
  apply_op 6 (JStr s_lt100m) (RFlt 1 1 txt_1_0) = false /\
  apply_op 7 (JStr s_lt100m) (RInt 1) = false /\
  apply_op 7 (JStr s_lt100m) (RBool true) = true /\
  apply_op 6 (JStr txt_1_0) (RFlt 1 1 txt_1_0) = true /\
  apply_op 0 (JInt 1) (RFlt 1 1 txt_1_0) = true /\ apply_op 3 (JInt 2) (RFlt 5 2 [50; 46; 53]) = true.
Proof. vm_compute. repeat split. Qed.

(* Non-vacuity: a store with a CAM and a DENM; paths that exist, that are missing, and an ordering. *)
Definition ex_s (l : list Z) : str := l.
Definition k_header := [104; 101; 97; 100; 101; 114].           (* "header" *)
Definition k_sid := [115; 116; 97; 116; 105; 111; 110; 73; 100]. (* "stationId" *)
Definition k_cam := [99; 97; 109].                               (* "cam" *)
Definition k_gdt := [103; 100; 116].                             (* "gdt" *)
Definition ex_obj (i typ sid : Z) (extra : list (str * jv)) : obj :=
  mkObj i typ (JObj [(data_object_key, JObj ((k_header, JObj [(k_sid, JInt sid)]) :: extra))]).
Definition ex_store :=
  [ex_obj 0 2 7 [(k_cam, JObj [(k_gdt, JInt 100)])]; ex_obj 1 1 9 []; ex_obj 2 2 5 [(k_cam, JObj [(k_gdt, JInt 100)])]].

Example C13_example :
  map o_idx (query ex_store (mkReq [1; 2] (F1 (mkStmt [k_header; k_sid] 2 (RInt 5))) [mkOrder k_sid true])) = [1; 0] /\
  map o_idx (query ex_store (mkReq [1; 2] (F1 (mkStmt [k_cam; k_gdt] 1 (RInt 3))) [])) = [0; 2] /\
  attr (ex_obj 1 1 9 []) [k_cam; k_gdt] = None /\
  map o_idx (query ex_store (mkReq [1; 2] FNone [mkOrder k_gdt false; mkOrder k_sid true])) = [0; 2; 1] /\
  map o_idx (query ex_store (mkReq [2] (F2 (mkStmt [k_cam; k_gdt] 5 (RInt 100)) 0 (mkStmt [k_header; k_sid] 7 (RStr [120]))) [])) = [0; 2] /\
  dec_str 1003 = [49; 48; 48; 51] /\ dec_str (-15) = [45; 49; 53] /\ dec_str 0 = [48].
Proof. vm_compute. repeat split. Qed.
