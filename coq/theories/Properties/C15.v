(* C15 - the GeoNetworking router is safe under concurrent origination, reception and timers.  PARTIAL:
   the theorems cover every interleaving of the lock-structured abstraction of the code whose atomic blocks are
   REGENERATED from the source on every run (Gen/LockSummary.v, translator tools/gen_locks.py):
     (1) obligations on the regenerated summary: every access to a shared field is inside the critical section
         of its lock, read-modify-write sequences are one section, only loc_t_lock is taken under another lock;
     (2) for any number of threads calling the analysed methods in any order, every reachable interleaving
         has mutual exclusion, no two threads about to touch the same protected field, and no deadlock;
     (3) for every total order of the critical sections (= every list of atomic operations): sequence numbers
         are pairwise distinct within the cycle, a CBF-buffered packet is sent at most once and never after a
         completed cancellation, every position vector read was current, every buffered unicast request is in
         exactly one batch (flushed after the reply / dropped after the final retry), in request order.
     (4) the reduction from (2) towards (3), in a memory semantics where a write stores an ARBITRARY function of
         everything its thread has read: for the locks all of whose sections are closed (they only touch fields
         written under that lock: sequence number, ego position vector, location table, per-entry fields) a
         critical section computes exactly what its body computes running alone from the memory at its start,
         whatever the other threads do meanwhile (C15_sections_atomic); for every lock, steps of other threads
         never change a field written under a lock somebody holds (C15_section_isolation).
   Not mechanised: the sections of _cbf_lock and _ls_lock also read the location table under the nested
   loc_t_lock, so (4) gives them isolation only; the correspondence between a source line and the abstract
   Rd/Wr actions of the summary; CPython's actual switch points; see DESIGN.md section 7. *)
From FlexVerif Require Import Base.Prelude Base.Interleave Base.Atomic Model.Wire Model.LocT Model.Conc Gen.LockSummary Proofs.ConcProofs Proofs.AtomicRouter.

Theorem C15_summary_names : 
  (L_sequence_number_lock, L_cbf_lock, L_ls_lock, L_ego_position_vector_lock, L_loc_t_lock,
   L_position_vector_lock, L_tst_lock, L_pdr_lock, L_dpl_lock) = (0, 1, 2, 3, 4, 5, 6, 7, 8) /\
  (F_sequence_number, F_cbf_buffer, F_ls_timers, F_ls_retransmit_counters, F_ls_packet_buffers,
   F_ego_position_vector, F_loc_t, F_position_vector, F_tst, F_pdr, F_dpl_set, F_dpl_deque)
  = (0, 1, 2, 3, 4, 5, 6, 7, 8, 9, 10, 11) /\ TOP_LOCK = L_loc_t_lock.
Proof. exact names_agree. Qed.
Print Assumptions C15_summary_names.

Theorem C15_lock_discipline : forallb (wl router_policy []) summary = true.
Proof. exact summary_well_locked. Qed.
Print Assumptions C15_lock_discipline.

Theorem C15_lock_order : forallb (ord TOP_LOCK []) summary = true.
Proof. exact summary_lock_order. Qed.
Print Assumptions C15_lock_order.

Theorem C15_sequence_number_section : M_Router_get_sequence_number = [Acq 0; Rd 0; Wr 0; Rd 0; Rel 0].
Proof. exact sn_section. Qed.
Print Assumptions C15_sequence_number_section.

Theorem C15_cbf_sections :
  M_Router_cbf_timeout = [Acq 1; Rd 1; Wr 1; Rel 1] /\ M_Router_cbf_discard = [Acq 1; Rd 1; Wr 1; Rel 1].
Proof. exact cbf_sections. Qed.
Print Assumptions C15_cbf_sections.

Theorem C15_mutual_exclusion : forall progs c, reachable (initial progs) c -> mutex c.
Proof. exact router_mutual_exclusion. Qed.
Print Assumptions C15_mutual_exclusion.

Theorem C15_no_conflicting_access : forall progs c i j ti tj f ri rj l, from_summary progs ->
  reachable (initial progs) c -> nth_error c i = Some ti -> nth_error c j = Some tj -> i <> j ->
  router_write f = Some l -> t_prog ti = Wr f :: ri ->
  (t_prog tj = Wr f :: rj \/ (t_prog tj = Rd f :: rj /\ router_read f = Some l)) -> False.
Proof. exact router_no_conflicting_access. Qed.
Print Assumptions C15_no_conflicting_access.

Theorem C15_no_deadlock : forall progs c, from_summary progs -> reachable (initial progs) c ->
  (exists i t, nth_error c i = Some t /\ t_prog t <> []) -> exists k, enabled c k = true.
Proof. exact router_deadlock_free. Qed.
Print Assumptions C15_no_deadlock.

Theorem C15_sequence_numbers_distinct : forall n sn0, 0 <= sn0 < 65535 -> Z.of_nat n <= 65535 ->
  NoDup (sn_returned n sn0).
Proof. exact sn_returned_nodup. Qed.
Print Assumptions C15_sequence_numbers_distinct.

Theorem C15_cbf_sent_is_buffered : forall b k p, snd (cbf_step b (CTimeout k)) = Some p ->
  buf_find b k = Some p /\ buf_find (fst (cbf_step b (CTimeout k))) k = None.
Proof. exact cbf_timeout_sends_buffered. Qed.
Print Assumptions C15_cbf_sent_is_buffered.

Theorem C15_cbf_never_after_cancel : forall b k ops, forallb (fun o => negb (rebuffers k o)) ops = true ->
  let b' := fst (cbf_step b (CCancel k)) in
  Forall (fun x => x = None)
    (map (fun po => match po with (CTimeout k', Some p) => if list_eqb k' k then Some p else None | _ => None end)
         (combine ops (snd (cbf_run b' ops)))).
Proof. exact cbf_never_after_cancel. Qed.
Print Assumptions C15_cbf_never_after_cancel.

Theorem C15_cbf_duplicate_cancels : forall b k p q ops, buf_find b k = Some q ->
  forallb (fun o => negb (rebuffers k o)) ops = true ->
  snd (cbf_step b (CBuf k p)) = None /\
  let b' := fst (cbf_step b (CBuf k p)) in
  buf_find b' k = None /\
  Forall (fun x => x = None)
    (map (fun po => match po with (CTimeout k', Some p) => if list_eqb k' k then Some p else None | _ => None end)
         (combine ops (snd (cbf_run b' ops)))).
Proof. exact cbf_duplicate_cancels. Qed.
Print Assumptions C15_cbf_duplicate_cancels.

Theorem C15_cbf_only_timeout_sends : forall ops b i o p, nth_error ops i = Some o ->
  nth_error (snd (cbf_run b ops)) i = Some (Some p) ->
  exists k, o = CTimeout k /\ buf_find (fst (cbf_run b (firstn i ops))) k = Some p.
Proof. exact cbf_only_timeout_sends. Qed.
Print Assumptions C15_cbf_only_timeout_sends.

Theorem C15_cbf_at_most_once : forall b k ops p, snd (cbf_step b (CTimeout k)) = Some p ->
  forallb (fun o => negb (rebuffers k o)) ops = true ->
  let b' := fst (cbf_step b (CTimeout k)) in
  Forall (fun x => x = None)
    (map (fun po => match po with (CTimeout k', Some p) => if list_eqb k' k then Some p else None | _ => None end)
         (combine ops (snd (cbf_run b' ops)))).
Proof. exact cbf_at_most_once. Qed.
Print Assumptions C15_cbf_at_most_once.

Theorem C15_ego_pv_was_current : forall ops cur v, In v (ego_run cur ops) ->
  v = cur \/ exists pv, In (EWrite pv) ops /\ v = pv.
Proof. exact ego_read_was_current. Qed.
Print Assumptions C15_ego_pv_was_current.

Theorem C15_ego_read_returns_latest : forall pre post cur pv,
  ego_run cur (pre ++ EWrite pv :: ERead :: post) = ego_run cur (pre ++ [EWrite pv]) ++ pv :: ego_run pv post.
Proof. exact ego_read_returns_latest. Qed.
Print Assumptions C15_ego_read_returns_latest.

Theorem C15_ls_every_request_in_exactly_one_batch : forall ops s,
  buffered s ++ issued ops = flat_map batch (snd (ls_run1 s ops)) ++ buffered (fst (ls_run1 s ops)).
Proof. exact ls_conservation. Qed.
Print Assumptions C15_ls_every_request_in_exactly_one_batch.

Theorem C15_ls_flushed_or_dropped : forall ops s,
  forallb (fun o => match o with LForget => false | _ => true end) ops = true ->
  match s with Some (false, _, _) => False | _ => True end ->
  Forall (fun o => match o with LOverwritten _ => False | _ => True end) (snd (ls_run1 s ops)).
Proof. exact ls_no_overwrite. Qed.
Print Assumptions C15_ls_flushed_or_dropped.

Example C15_example :
  sn_returned 3 65533 = [65534; 0; 1] /\
  snd (cbf_run [] [CBuf [1] [9]; CTimeout [1]; CTimeout [1]; CBuf [2] [8]; CCancel [2]; CTimeout [2]]) =
    [None; Some [9]; None; None; None; None] /\
  snd (cbf_run [] [CBuf [1] [9]; CBuf [2] [8]; CBuf [1] [9]; CTimeout [1]; CTimeout [2]]) =
    [None; None; None; None; Some [8]].
Proof. vm_compute. repeat split; reflexivity. Qed.

(* ---- (4) critical sections are atomic ---- *)
Theorem C15_closed_sections :
  forallb (fun l => forallb (all_sections_closed router_policy l) summary) router_closed_locks = true.
Proof. exact router_closed_sections. Qed.
Print Assumptions C15_closed_sections.

Theorem C15_sections_atomic : forall (wv : Z -> list Z -> Z) progs m0 s1 s2 i t1 t2 l m pre r tail ls1 ls2,
  from_summary progs -> In l router_closed_locks -> In m summary -> m = pre ++ Acq l :: r ->
  msteps wv (minit progs m0) s1 -> msteps wv s1 s2 ->
  nth_error (m_cfg s1) i = Some t1 -> t_prog t1 = r ++ tail -> nth_error (m_loc s1) i = Some ls1 ->
  exists body rest, r = body ++ Rel l :: rest /\ closed router_policy l [] body = true /\
    (nth_error (m_cfg s2) i = Some t2 -> t_prog t2 = Rel l :: rest ++ tail -> nth_error (m_loc s2) i = Some ls2 ->
     agree router_policy l (m_mem s2) (fst (run_seq wv body (m_mem s1) ls1)) /\ ls2 = snd (run_seq wv body (m_mem s1) ls1)).
Proof. exact router_sections_atomic. Qed.
Print Assumptions C15_sections_atomic.

Theorem C15_section_isolation : forall (wv : Z -> list Z -> Z) progs s i ti j tj a r ls l,
  from_summary progs -> reachable (initial progs) (m_cfg s) ->
  nth_error (m_cfg s) i = Some ti -> holds ti l = true ->
  nth_error (m_cfg s) j = Some tj -> j <> i -> t_prog tj = a :: r ->
  agree router_policy l (m_mem s) (fst (act_mem wv a (m_mem s) ls)).
Proof. exact router_section_isolation. Qed.
Print Assumptions C15_section_isolation.
