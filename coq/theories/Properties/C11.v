(* C11 - Facility messages faithfully encode the sensor input they were built from.
   Audited statements only; proofs are in Proofs/FieldMapProofs.v.
   Model/FieldMap.v gives, for each data element filled from a position report, the integer the
   CAM / VAM / DENM builders write, as a total function of the exact (rational) report value.
   For each element X:  X_code_in_range  - the code lies in the element's range for EVERY input
                                           (so the UPER encoder can never wrap it),
                        X_code_exact     - inside the measurable range the code is the value to the
                                           resolution of the element (approx x k n: |x*k - n| < 1),
                        X_code_oor       - beyond the range it is the outOfRange code.
   Missing inputs map to the element's `unavailable` code (report_codes, checked by execution).  *)
From FlexVerif Require Import Base.Prelude Model.FieldMap Proofs.FieldMapProofs.
From Coq Require Import QArith Qabs.
Open Scope Z_scope.

Theorem C11_scale_to_resolution : forall x k, approx x k (scale x k).
Proof. exact scale_approx. Qed.
Print Assumptions C11_scale_to_resolution.

Theorem C11_lat_code_in_range : forall x, (-(90) <= x <= 90)%Q ->
  LAT_MIN <= lat_code x <= LAT_MAX /\ approx x 10000000 (lat_code x).
Proof. exact lat_code_in_range. Qed.
Print Assumptions C11_lat_code_in_range.

Theorem C11_lon_code_in_range : forall x, (-(180) <= x <= 180)%Q ->
  LON_MIN <= lon_code x <= LON_MAX /\ approx x 10000000 (lon_code x).
Proof. exact lon_code_in_range. Qed.
Print Assumptions C11_lon_code_in_range.

Theorem C11_alt_code_in_range : forall x, ALT_NEG_OOR <= alt_code x <= ALT_POS_OOR.
Proof. exact alt_code_in_range. Qed.
Print Assumptions C11_alt_code_in_range.

Theorem C11_alt_code_exact : forall x, (-(1000) < x)%Q -> (x < 8000)%Q ->
  alt_code x = scale x 100 /\ ALT_NEG_OOR < alt_code x < ALT_POS_OOR /\ approx x 100 (alt_code x).
Proof. exact alt_code_exact. Qed.
Print Assumptions C11_alt_code_exact.

Theorem C11_alt_code_oor_high : forall x, (8000 <= x)%Q -> alt_code x = ALT_POS_OOR.
Proof. exact alt_code_oor_high. Qed.
Print Assumptions C11_alt_code_oor_high.

Theorem C11_alt_code_oor_low : forall x, (x <= -(1000))%Q -> alt_code x = ALT_NEG_OOR.
Proof. exact alt_code_oor_low. Qed.
Print Assumptions C11_alt_code_oor_low.

Theorem C11_speed_code_in_range : forall x, (0 <= x)%Q -> 0 <= speed_code x <= SPEED_OOR.
Proof. exact speed_code_in_range. Qed.
Print Assumptions C11_speed_code_in_range.

Theorem C11_speed_code_exact : forall x, (0 <= x)%Q -> (x < 16382 # 100)%Q ->
  speed_code x = scale x 100 /\ 0 <= speed_code x < SPEED_OOR /\ approx x 100 (speed_code x).
Proof. exact speed_code_exact. Qed.
Print Assumptions C11_speed_code_exact.

Theorem C11_speed_code_oor : forall x, (16382 # 100 <= x)%Q -> speed_code x = SPEED_OOR.
Proof. exact speed_code_oor. Qed.
Print Assumptions C11_speed_code_oor.

(* heading: never doNotUse(3600) nor unavailable(3601) for a reported track, whatever its value *)
Theorem C11_heading_code_in_range : forall x, 0 <= heading_code x <= HEADING_MAX.
Proof. exact heading_code_in_range. Qed.
Print Assumptions C11_heading_code_in_range.

Theorem C11_heading_code_exact : forall x, (0 <= x)%Q -> (x < 360)%Q ->
  heading_code x = scale x 10 /\ approx x 10 (heading_code x).
Proof. exact heading_code_exact. Qed.
Print Assumptions C11_heading_code_exact.

Theorem C11_heading_code_full_turn : forall x, (x == 360)%Q -> heading_code x = 0.
Proof. exact heading_code_full_turn. Qed.
Print Assumptions C11_heading_code_full_turn.

Theorem C11_semi_axis_code_in_range : forall x, SEMI_AXIS_MIN <= semi_axis_code x <= SEMI_AXIS_OOR.
Proof. exact semi_axis_code_in_range. Qed.
Print Assumptions C11_semi_axis_code_in_range.

Theorem C11_semi_axis_code_exact : forall x, (1 # 100 <= x)%Q -> (x < 4094 # 100)%Q ->
  semi_axis_code x = scale x 100 /\ SEMI_AXIS_MIN <= semi_axis_code x < SEMI_AXIS_OOR /\
  approx x 100 (semi_axis_code x).
Proof. exact semi_axis_code_exact. Qed.
Print Assumptions C11_semi_axis_code_exact.

Theorem C11_semi_axis_code_oor : forall x, (4094 # 100 <= x)%Q -> semi_axis_code x = SEMI_AXIS_OOR.
Proof. exact semi_axis_code_oor. Qed.
Print Assumptions C11_semi_axis_code_oor.

Theorem C11_semi_axis_code_small : forall x, (x < 1 # 100)%Q -> semi_axis_code x = SEMI_AXIS_MIN.
Proof. exact semi_axis_code_small. Qed.
Print Assumptions C11_semi_axis_code_small.

Theorem C11_cam_ellipse_ordered : forall epx epy, snd (cam_ellipse epx epy) <= fst (cam_ellipse epx epy).
Proof. exact cam_ellipse_ordered. Qed.
Print Assumptions C11_cam_ellipse_ordered.

Theorem C11_heading_conf_code_in_range : forall x, HCONF_MIN <= heading_conf_code x <= HCONF_OOR.
Proof. exact heading_conf_code_in_range. Qed.
Print Assumptions C11_heading_conf_code_in_range.

Theorem C11_heading_conf_code_exact : forall x, (1 # 10 <= x)%Q -> (x <= 25 # 2)%Q ->
  heading_conf_code x = scale x 10 /\ HCONF_MIN <= heading_conf_code x <= HCONF_MAX_VALUE /\
  approx x 10 (heading_conf_code x).
Proof. exact heading_conf_code_exact. Qed.
Print Assumptions C11_heading_conf_code_exact.

Theorem C11_heading_conf_code_oor : forall x, (25 # 2 < x)%Q -> heading_conf_code x = HCONF_OOR.
Proof. exact heading_conf_code_oor. Qed.
Print Assumptions C11_heading_conf_code_oor.

Theorem C11_alt_conf_code_in_range : forall x, 0 <= alt_conf_code x <= ALTCONF_OOR.
Proof. exact alt_conf_code_in_range. Qed.
Print Assumptions C11_alt_conf_code_in_range.

(* the class reported bounds the error estimate from above and is the tightest such class *)
Theorem C11_alt_conf_code_bounds : forall x,
  let i := alt_conf_code x in
  (i < ALTCONF_OOR -> (x < nth (Z.to_nat i) altconf_bounds 0)%Q) /\
  (0 < i -> (nth (Z.to_nat (i - 1)) altconf_bounds 0 <= x)%Q).
Proof. exact alt_conf_code_bounds. Qed.
Print Assumptions C11_alt_conf_code_bounds.

Theorem C11_alt_conf_code_oor : forall x, (200 <= x)%Q -> alt_conf_code x = ALTCONF_OOR.
Proof. exact alt_conf_code_oor. Qed.
Print Assumptions C11_alt_conf_code_oor.

Theorem C11_cluster_radius_wf : forall x, 1 <= cluster_radius_code x.
Proof. exact cluster_radius_code_pos. Qed.
Print Assumptions C11_cluster_radius_wf.

Theorem C11_gdt_code_in_range : forall ts, 0 <= gdt_code ts <= 65535.
Proof. exact gdt_code_in_range. Qed.
Print Assumptions C11_gdt_code_in_range.

(* A receiver whose clock reads `now` reconstructs the generation time T of any message younger
   than 65.536 s from generationDeltaTime = T mod 65536. *)
Theorem C11_gdt_reconstruct_correct : forall now T,
  0 <= now -> 0 <= now - T < 65536 -> gdt_reconstruct now (gdt_code T) = T.
Proof. exact gdt_reconstruct_correct. Qed.
Print Assumptions C11_gdt_reconstruct_correct.

(* Non-vacuity and the sharpness of the 65.536 s bound. *)
Example C11_gdt_reconstruct_limit : gdt_reconstruct 700000065536 (gdt_code 700000000000) <> 700000000000.
Proof. exact gdt_reconstruct_limit. Qed.

Example C11_example_codes :
  alt_code (7000 # 1) = 700000 /\ alt_code (-3000 # 1) = -100000 /\ alt_code (16350 # 100) = 16350 /\
  semi_axis_code (50 # 1) = 4094 /\ semi_axis_code (8754 # 1000) = 875 /\ heading_conf_code 0 = 1 /\
  heading_code (360 # 1) = 0 /\ heading_code (35999 # 100) = 3599 /\ speed_code (200 # 1) = 16382 /\
  alt_conf_code (3197 # 100) = 11 /\ alt_conf_code (250 # 1) = 14 /\ lat_code (-(41453606167 # 1000000000)) = -414536061.
Proof. exact example_codes. Qed.
