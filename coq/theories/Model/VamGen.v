(* Model of flexstack.facilities.vru_awareness_service.vam_transmission_management.
   VAMTransmissionManagement: location_service_callback, _attach_lf_container_if_due
   and the state update of send_next_vam. The VRU service is driven by position
   reports only (no timer). Definitions only.
   Time: Z milliseconds. vr_ts is the report's own time as ITS timestamp, vr_now the
   reading of the time service when the callback runs (used by the low-frequency
   container rule). Angles / speeds / coordinates are exact rationals. *)
From FlexVerif Require Import Base.Prelude Gen.C10Consts.
From Coq Require Import QArith Qabs Qround.
Open Scope Z_scope.

Record vparams := {
  v_min : Z;        (* T_GenVamMin *)
  v_max : Z;        (* T_GenVamMax *)
  v_lf : Z;         (* T_GenVamLFMin *)
  v_tgen0 : Z;      (* initial T_GenVam of the object *)
  v_thr_p : Q;      (* minReferencePointPositionChangeThreshold *)
  v_thr_s : Q;      (* minGroundSpeedChangeThreshold *)
  v_thr_h : Q;      (* minGroundVelocityOrientationChangeThreshold *)
  v_half : Q;
  v_full : Q
}.

Definition gen_vparams : vparams := {|
  v_min := T_GENVAMMIN; v_max := T_GENVAMMAX; v_lf := T_GENVAM_LFMIN; v_tgen0 := T_GENVAM_INITIAL;
  v_thr_p := MINREFERENCEPOINTPOSITIONCHANGETHRESHOLD; v_thr_s := MINGROUNDSPEEDCHANGETHRESHOLD;
  v_thr_h := MINGROUNDVELOCITYORIENTATIONCHANGETHRESHOLD;
  v_half := VAM_HEADING_HALF_TURN; v_full := VAM_HEADING_FULL_TURN |}.

Record vreport := {
  vr_ts : Z;              (* ITS timestamp of the report, ms *)
  vr_now : Z;             (* time service at the callback, ms *)
  vr_gate : bool;         (* clustering manager absent or should_transmit_vam() *)
  vr_clop : bool;         (* a cluster operation container is attached *)
  vr_pos : option (Q * Q);   (* lat, lon in degrees as reported *)
  vr_latcode : Z;         (* latitude / longitude written into the VAM (1e-7 degree) *)
  vr_loncode : Z;
  vr_speed : option Q;    (* m/s as reported *)
  vr_speedcode : Z;       (* speedValue written into the VAM (0.01 m/s) *)
  vr_track : option Q;    (* degrees as reported *)
  vr_trackcode : Z        (* heading value written into the VAM (0.1 degree) *)
}.

Inductive vout := Vam (ts : Z) (lf : bool) (gdt : Z).

Record vst := {
  vlast_gdt : option Z;     (* last_vam_generation_delta_time *)
  vt_gen : Z;               (* t_genvam *)
  vlast_pos : Q * Q;        (* last_sent_position (degrees) *)
  vlast_speed : Q;          (* last_vam_speed *)
  vlast_heading : Q;        (* last_vam_heading *)
  vlast_lf : option Z;      (* last_lf_vam_time, ms *)
  vfirst : bool             (* is_first_vam *)
}.

Definition vinit (p : vparams) : vst := {|
  vlast_gdt := None; vt_gen := v_tgen0 p; vlast_pos := (0, 0)%Q; vlast_speed := 0%Q;
  vlast_heading := 0%Q; vlast_lf := None; vfirst := true |}.

Definition vQltb (a b : Q) : bool := negb (Qle_bool b a).

Definition vgdt (ts : Z) : Z := ts mod 65536.

(* GenerationDeltaTime.__sub__ *)
Definition gdt_sub (a b : Z) : Z := let d := a - b in if d <? 0 then d + 65536 else d.

Definition qmod (d m : Q) : Q := (d - m * inject_Z (Qfloor (d / m)))%Q.

Definition vhdiff (p : vparams) (a b : Q) : Q :=
  let d := qmod (Qabs (a - b)) (v_full p) in
  if vQltb (v_half p) d then (v_full p - d)%Q else d.

Definition sq (x : Q) : Q := (x * x)%Q.

(* Utils.euclidian_distance(cur, last) > threshold, for a non-negative threshold *)
Definition vpos_exceeds (p : vparams) (s : vst) (r : vreport) : bool :=
  match vr_pos r with
  | Some (la, lo) =>
    let '(la0, lo0) := vlast_pos s in
    vQltb (sq (v_thr_p p)) (sq (la - la0) + sq (lo - lo0))%Q
  | None => false
  end.

Definition vspeed_exceeds (p : vparams) (s : vst) (r : vreport) : bool :=
  match vr_speed r with
  | Some v => vQltb (v_thr_s p) (Qabs (v - vlast_speed s))
  | None => false
  end.

Definition vheading_exceeds (p : vparams) (s : vst) (r : vreport) : bool :=
  match vr_track r with
  | Some h => vQltb (v_thr_h p) (vhdiff p h (vlast_heading s))
  | None => false
  end.

Definition vdynamics (p : vparams) (s : vst) (r : vreport) : bool :=
  vpos_exceeds p s r || vspeed_exceeds p s r || vheading_exceeds p s r.

Definition vinclude_lf (p : vparams) (s : vst) (r : vreport) : bool :=
  vfirst s
  || match vlast_lf s with None => true | Some t => v_lf p <=? vr_now r - t end
  || vr_clop r.

Definition vsend (p : vparams) (s : vst) (r : vreport) : vst * list vout :=
  let lf := vinclude_lf p s r in
  ({| vlast_gdt := Some (vgdt (vr_ts r)); vt_gen := vt_gen s;
      vlast_pos := (Qmake (vr_latcode r) 10000000, Qmake (vr_loncode r) 10000000);
      vlast_speed := Qmake (vr_speedcode r) 100;
      vlast_heading := Qmake (vr_trackcode r) 10;
      vlast_lf := if lf then Some (vr_now r) else vlast_lf s;
      vfirst := false |},
   [Vam (vr_ts r) lf (vgdt (vr_ts r))]).

(* which condition of location_service_callback fired: 0 none, 1 first, 2 time, 3 dynamics *)
Definition vcause (p : vparams) (s : vst) (r : vreport) : Z :=
  if negb (vr_gate r) then 0
  else match vlast_gdt s with
       | None => 1
       | Some g =>
         if vt_gen s <=? gdt_sub (vgdt (vr_ts r)) g then 2
         else if vdynamics p s r then 3 else 0
       end.

(* A report from which no VAM can be handed over: building the message from the report
   raises, or the LDM adapter, the encoder or the lower layer raises in send_next_vam.
   location_service_callback is left through the exception before any of the last-VAM state
   is written (send_next_vam writes it after btp_data_request, the low-frequency time
   included), so such a report acts like one received while the gate is closed. *)
Definition vfailed (r : vreport) : vreport :=
  {| vr_ts := vr_ts r; vr_now := vr_now r; vr_gate := false; vr_clop := vr_clop r;
     vr_pos := vr_pos r; vr_latcode := vr_latcode r; vr_loncode := vr_loncode r;
     vr_speed := vr_speed r; vr_speedcode := vr_speedcode r;
     vr_track := vr_track r; vr_trackcode := vr_trackcode r |}.

Definition vstep (p : vparams) (s : vst) (r : vreport) : vst * list vout :=
  if vcause p s r =? 0 then (s, []) else vsend p s r.

Fixpoint vrun (p : vparams) (s : vst) (rs : list vreport) : vst * list vout :=
  match rs with
  | [] => (s, [])
  | r :: rest =>
    let '(s1, o1) := vstep p s r in
    let '(s2, o2) := vrun p s1 rest in
    (s2, o1 ++ o2)
  end.

(* ---- driver ------------------------------------------------------------ *)
(* report: ts now gate clop hp lan lad lon lod latcode loncode hs sn sd speedcode ht tn td trackcode fail
           (20 integers; fail = 1: the hand-over of a VAM built from this report was seen to fail)
   result: for every VAM  idx lf gdt cause *)
Definition vmkq (n d : Z) : Q := Qmake n (Z.to_pos d).

Fixpoint vdrive (p : vparams) (fuel : nat) (idx : Z) (s : vst) (a : list Z) : list Z :=
  match fuel with
  | O => []
  | S fuel' =>
    match a with
    | ts :: now :: gate :: clop :: hp :: lan :: lad :: lon :: lod :: latc :: lonc
         :: hs :: sn :: sd :: spc :: ht :: tn :: td :: trc :: fl :: rest =>
      let r0 := {| vr_ts := ts; vr_now := now; vr_gate := z2b gate; vr_clop := z2b clop;
                  vr_pos := if z2b hp then Some (vmkq lan lad, vmkq lon lod) else None;
                  vr_latcode := latc; vr_loncode := lonc;
                  vr_speed := if z2b hs then Some (vmkq sn sd) else None; vr_speedcode := spc;
                  vr_track := if z2b ht then Some (vmkq tn td) else None; vr_trackcode := trc |} in
      let r := if z2b fl then vfailed r0 else r0 in
      let c := vcause p s r in
      let '(s1, o) := vstep p s r in
      match o with
      | Vam _ lf g :: _ => idx :: b2z lf :: g :: c :: vdrive p fuel' (idx + 1) s1 rest
      | [] => vdrive p fuel' (idx + 1) s1 rest
      end
    | _ => []
    end
  end.

Definition vam_dispatch (a : list Z) : list Z := vdrive gen_vparams (length a) 0 (vinit gen_vparams) a.
