(* Specification-level notions used in the statements of C09, C03 and C05:
   what a good link of a certificate chain is, what "chained up to a configured
   root" means, what an accepted message guarantees. Definitions only. *)
From FlexVerif Require Import Base.Prelude Model.Sec.

Section SecSpec.
Variable hash8 : cert -> Z.
Variable sig_ok : Z -> Z -> Z -> bool.

(* ---------- the specification-level notions ------------------------------ *)

(* the permissions of c (application and issuing) are contained in the issuing
   permissions of i *)
Definition contained (c i : cert) : Prop :=
  has_all i = true \/
  (has_all c = false /\ exists a, capp c = Some a /\
   forall p, In p (issue_psids c ++ a) -> In p (issue_psids i)).

(* one link of a chain: c names i as its issuer, its permissions are contained
   in i's issuing permissions, and the ECDSA oracle accepted c's signature over
   c's to-be-signed bytes under the key of i *)
Definition cert_ok (c i : cert) : Prop :=
  cissuer c = IssDigest (hash8 i) /\ contained c i /\
  sig_ok (ckey i) (ctbs c) (csig c) = true.

(* chain of links up to a member of R; links are followed through HashedId8
   equality, which is what a dictionary keyed by HashedId8 can guarantee *)
Inductive anchored (R : list cert) : cert -> Prop :=
| anc_root c : In c R -> anchored R c
| anc_link c i j : cert_ok c i -> hash8 i = hash8 j -> anchored R j -> anchored R c.

(* the same with issuer identity, meaningful when HashedId8 is collision free *)
Inductive chain (R : list cert) : cert -> Prop :=
| ch_root c : In c R -> chain R c
| ch_link c i : cert_ok c i -> chain R i -> chain R c.

(* certificates configured as trusted: those handed to add_root_certificate
   that the library accepted *)
Definition accepted_root (o : op) : list cert :=
  match o with
  | OAddRoot c io => match Sec.cert_verify hash8 sig_ok c io with Some true => [c] | _ => [] end
  | _ => []
  end.
Definition configured_roots (ops : list op) : list cert := flat_map accepted_root ops.


(* the signer field of a message designates certificate c *)
Definition signer_names (s : signer) (c : cert) : Prop :=
  s = SDigest (hash8 c) \/ exists c0, s = SCerts [c0] /\ hash8 c0 = hash8 c.

(* what the acceptance of message m under ticket c with delivered payload p rests on *)
Definition accepted_under (c : cert) (m : msg) (p : Z) : Prop :=
  exists g a, t_gen (m_tbsd m) = Some g /\ capp c = Some a /\ In (t_psid (m_tbsd m)) a /\
    cstart c <= g <= cend c /\
    sig_ok (ckey c) (m_tbs m) (m_sig m) = true /\
    p = t_payload (m_tbsd m) /\ p <> 0.

(* every remaining chain length of the issuer is at least one *)
Definition budget_ok (i : cert) : Prop :=
  exists l, cissue i = Some l /\ forall pe, In pe l -> 1 <= pe_chain pe.

(* ===== notions used by C05 ===== *)
(* ---------- what a receiver needs to accept messages under ticket c -------- *)
(* the ticket is already known (pre-loaded or learnt earlier) *)
Definition knows (st : store) (c : cert) : Prop :=
  exists e, Sec.find_key hash8 (hash8 c) (ats st) = Some e /\ e_cert e = c /\ Sec.cert_verify hash8 sig_ok c (e_iss e) = Some true.

(* the ticket is not known, but its issuer is and the link verifies: "same trust root" *)
Definition can_learn (st : store) (c : cert) : Prop :=
  Sec.find_key hash8 (hash8 c) (ats st) = None /\
  exists ie, Sec.get_issuer hash8 st c = LFound ie /\ Sec.cert_verify hash8 sig_ok c (Some (e_cert ie)) = Some true.

(* a ticket a station may sign with *)
Definition usable (c : cert) : Prop := is_at c = true /\ ckey c <> 0.

(* CA certificates held by a station never carry an unsupported issuer form (they verified once) *)
Definition not_other (c : cert) : Prop := forall d, cissuer c <> IssDigestOther d.
Definition ca_wf (st : store) : Prop := forall e, In e (aas st) \/ In e (roots st) -> not_other (e_cert e).

Definition tbs_plain (psid gen payload : Z) (genloc : bool) (inl : option (list Z)) (rc : option cert) : tbsdata :=
  mkTbs psid (Some gen) genloc false false false false inl rc payload.


(* the inlineP2pcdRequest field a CAM carries: the unknown-ticket list when it is not empty *)
Definition inline_of (ss : sstate) : option (list Z) :=
  match unknown ss with [] => None | l => Some l end.

(* the receiver either knows the ticket, or can learn it and the message carries it *)
Definition receiver_ready (st : store) (c : cert) (sg : signer) : Prop :=
  knows st c \/ (can_learn st c /\ sg = SCerts [c]).

End SecSpec.
