(* Model of the DEN service (C17):
     flexstack.facilities.decentralized_environmental_notification_service
       denm_transmission_management.py  (DENMTransmissionManagement,
                                         DecentralizedEnvironmentalNotificationMessage)
       denm_reception_management.py     (DENMReceptionManagement.feed_ldm)
     flexstack.applications.road_hazard_signalling_service
       emergency_vehicle_approaching_service.py, service_access_point.py
   Definitions only. Python ints -> Z. Time is integer milliseconds (UTC on the
   virtual clock; ITS time = UTC - epoch + leap seconds).
   The model describes the code AFTER the fix: commits of C17 (one sequence number
   per event, the request owns a copy of the event position). *)
From FlexVerif Require Import Base.Prelude.

(* ---- clock ------------------------------------------------------------ *)
(* TimeService.timestamp_its: (utc_s - 1072915200 + 5) * 1000 *)
Definition ITS_EPOCH_MS : Z := 1072915200000.
Definition LEAP_MS : Z := 5000.
Definition its_of_utc (t : Z) : Z := t - ITS_EPOCH_MS + LEAP_MS.

(* ---- the repetition loop (trigger_denm_messages) ------------------------
     transmission_time = 0
     while transmission_time < time_period:
         <build and transmit one DENM>
         time.sleep(denm_interval / 1000)
         transmission_time += denm_interval
   sched_loop returns the values of transmission_time at which a DENM is handed
   over, i.e. (virtual time) the offsets from the start of the thread. *)
Fixpoint sched_loop (fuel : nat) (i T tt : Z) : list Z :=
  match fuel with
  | O => []
  | S f => if tt <? T then tt :: sched_loop f i T (tt + i) else []
  end.

(* enough iterations for the loop to end by its own condition when 0 < i
   (Proofs: schedule_fuel_irrelevant). *)
Definition sched_fuel (i T : Z) : nat := Z.to_nat (T / i + 1).
Definition schedule (i T : Z) : list Z := sched_loop (sched_fuel i T) i T 0.

(* ceiling of a / b for 0 < b (Proofs: cdiv_spec). *)
Definition cdiv (a b : Z) : Z := - ((- a) / b).

(* ---- state --------------------------------------------------------------- *)
(* DENMTransmissionManagement: vehicle_data.station_id, sequence_number *)
Record station := { st_id : Z; st_seq : Z }.
Definition SEQ_MOD : Z := 65536.

(* next_sequence_number *)
Definition next_seq (s : station) : Z * station :=
  (st_seq s, {| st_id := st_id s; st_seq := (st_seq s + 1) mod SEQ_MOD |}).

(* EmergencyVehicleApproachingService.event_position (latitude, longitude) *)
Record app := { a_lat : Z; a_lon : Z }.
Definition app_init : app := {| a_lat := 900000001; a_lon := 1800000001 |}.

(* trigger_denm_sending(tpv): keys "lat" / "lon" may be missing -> value kept *)
Definition app_update (a : app) (olat olon : option Z) : app :=
  {| a_lat := match olat with Some v => v | None => a_lat a end;
     a_lon := match olon with Some v => v | None => a_lon a end |}.

(* ---- requests ------------------------------------------------------------ *)
(* Ev  : EmergencyVehicleApproachingService.trigger_denm_sending at UTC time t0 with
         the service's denm_interval i and denm_duration T
         -> DENRequest.with_emergency_vehicle_approaching (snapshot of the position)
         -> request_denm_sending -> thread running trigger_denm_messages
   Crw : DENRequest.with_collision_risk_warning(position) at UTC time t0
         -> send_collision_risk_warning_denm (one DENM, in the caller's thread);
         conf_is_name = the altitude confidence of the position is an ASN.1
         enumeration name (str); an int makes the encoder raise (known finding). *)
Inductive req :=
| Ev (t0 : Z) (olat olon : option Z) (i T : Z)
| Crw (t0 : Z) (lat lon : Z) (conf_is_name : bool).

(* ---- messages and hand-over to BTP ------------------------------------------ *)
Record denm := { d_hdr_station : Z; d_orig_station : Z; d_seq : Z; d_ref : Z;
                 d_lat : Z; d_lon : Z }.

(* one BTPDataRequest as seen by the BTP router *)
Record tx := { tx_time : Z;                       (* UTC ms of the hand-over *)
               tx_port : Z;                       (* destination_port *)
               tx_shape : Z;                      (* 0 = GEOBROADCAST / GEOBROADCAST_CIRCLE *)
               tx_area_lat : Z; tx_area_lon : Z;  (* gn_area centre *)
               tx_a : Z; tx_b : Z; tx_angle : Z;  (* gn_area a (radius, m), b, angle *)
               tx_msg : denm }.

(* fullfill_with_vehicle_data + fullfill_with_denrequest / _collision_risk_warning *)
Definition mk_denm (sid seq now lat lon : Z) : denm :=
  {| d_hdr_station := sid; d_orig_station := sid; d_seq := seq; d_ref := its_of_utc now;
     d_lat := lat; d_lon := lon |}.

(* transmit_denm: the destination area is read from the message *)
Definition DEN_PORT : Z := 2002.
Definition DEN_RADIUS : Z := 100.
Definition transmit (now : Z) (m : denm) : tx :=
  {| tx_time := now; tx_port := DEN_PORT; tx_shape := 0;
     tx_area_lat := d_lat m; tx_area_lon := d_lon m;
     tx_a := DEN_RADIUS; tx_b := 0; tx_angle := 0; tx_msg := m |}.

(* what one request produces: kind (0 Ev, 1 Crw), the sequence number taken and
   the hand-overs in order *)
Record event := { ev_kind : Z; ev_seq : Z; ev_lat : Z; ev_lon : Z; ev_txs : list tx }.

Definition send_at (sid seq lat lon t : Z) : tx := transmit t (mk_denm sid seq t lat lon).

Definition step (sa : station * app) (r : req) : (station * app) * event :=
  let '(s, a) := sa in
  match r with
  | Ev t0 olat olon i T =>
      let a' := app_update a olat olon in
      let '(seq, s') := next_seq s in
      ((s', a'),
       {| ev_kind := 0; ev_seq := seq; ev_lat := a_lat a'; ev_lon := a_lon a';
          ev_txs := map (fun off => send_at (st_id s) seq (a_lat a') (a_lon a') (t0 + off))
                        (schedule i T) |})
  | Crw t0 lat lon ok =>
      let '(seq, s') := next_seq s in
      ((s', a),
       {| ev_kind := 1; ev_seq := seq; ev_lat := lat; ev_lon := lon;
          ev_txs := if ok then [send_at (st_id s) seq lat lon t0] else [] |})
  end.

Fixpoint run (sa : station * app) (rs : list req) : list event :=
  match rs with
  | [] => []
  | r :: rest => let '(sa', e) := step sa r in e :: run sa' rest
  end.

Fixpoint final (sa : station * app) (rs : list req) : station * app :=
  match rs with
  | [] => sa
  | r :: rest => final (fst (step sa r)) rest
  end.

(* ---- concurrency (seed C17-11) ------------------------------------------------
   The repetition threads of a station and the caller's threads of its requests run
   concurrently. Two things may then differ from the run in request order above.

   (1) Allocation order. Requests made at the same instant may reach
       next_sequence_number in any order (the counter is read and advanced under a
       lock, so each call gets the next number). [run_alloc] is [run] with the
       allocation order made explicit: ranks k = how many calls of the station
       preceded the call of the k-th request. Everything else of an event is computed
       from its own request and the application state, as in [step]. *)
Definition seq_at (s : station) (r : Z) : Z := (st_seq s + r) mod SEQ_MOD.

Definition event_with (sid seq : Z) (a : app) (r : req) : app * event :=
  match r with
  | Ev t0 olat olon i T =>
      let a' := app_update a olat olon in
      (a', {| ev_kind := 0; ev_seq := seq; ev_lat := a_lat a'; ev_lon := a_lon a';
              ev_txs := map (fun off => send_at sid seq (a_lat a') (a_lon a') (t0 + off))
                            (schedule i T) |})
  | Crw t0 lat lon ok =>
      (a, {| ev_kind := 1; ev_seq := seq; ev_lat := lat; ev_lon := lon;
             ev_txs := if ok then [send_at sid seq lat lon t0] else [] |})
  end.

Fixpoint run_alloc (s : station) (a : app) (rs : list req) (ranks : list Z) : list event :=
  match rs with
  | [] => []
  | r :: rest =>
      let '(a', e) := event_with (st_id s) (seq_at s (hd 0 ranks)) a r in
      e :: run_alloc s a' rest (tl ranks)
  end.

(* an event without its numbers: kind, position and every field of every hand-over
   except the sequence number *)
Definition tx_unnumbered (x : tx) : list Z :=
  let m := tx_msg x in
  [tx_time x; tx_port x; tx_shape x; tx_area_lat x; tx_area_lon x; tx_a x; tx_b x; tx_angle x;
   d_hdr_station m; d_orig_station m; d_ref m; d_lat m; d_lon m].
Definition event_unnumbered (e : event) : Z * Z * Z * list (list Z) :=
  (ev_kind e, ev_lat e, ev_lon e, map tx_unnumbered (ev_txs e)).

(* (2) Construction of a DENM, step by step. One repetition (or one collision risk
       request) builds its message in four steps:
         DecentralizedEnvironmentalNotificationMessage()  a white DENM - a dict of its own,
                                                          nested dicts included
         fullfill_with_vehicle_data                       station id (header, action id),
                                                          the event's sequence number
         fullfill_with_denrequest / _collision_risk_warning   reference time = clock,
                                                          event position of the request
         transmit_denm                                    encode, hand over
       The threads of different requests may be switched between any two steps (and
       between any two lines inside them). [interleave] runs the constructions that are
       in progress at one instant in an arbitrary order of steps: the k-th element of
       the order names the construction that makes its next step. The state of a
       construction is its own message: nothing of it is shared (Proofs:
       construction_private shows the interleaving is then irrelevant; the tie runs the
       real code with its threads suspended between lines). *)
Record job := { j_sid : Z; j_seq : Z; j_now : Z; j_lat : Z; j_lon : Z }.

Inductive build :=
| B_new
| B_white (m : denm)
| B_vehicle (m : denm)
| B_request (m : denm)
| B_sent (x : tx).

Definition white_denm : denm :=
  {| d_hdr_station := 0; d_orig_station := 0; d_seq := 0; d_ref := 0;
     d_lat := 900000001; d_lon := 1800000001 |}.

Definition build_step (j : job) (b : build) : build :=
  match b with
  | B_new => B_white white_denm
  | B_white m =>
      B_vehicle {| d_hdr_station := j_sid j; d_orig_station := j_sid j; d_seq := j_seq j;
                   d_ref := d_ref m; d_lat := d_lat m; d_lon := d_lon m |}
  | B_vehicle m =>
      B_request {| d_hdr_station := d_hdr_station m; d_orig_station := d_orig_station m;
                   d_seq := d_seq m; d_ref := its_of_utc (j_now j);
                   d_lat := j_lat j; d_lon := j_lon j |}
  | B_request m => B_sent (transmit (j_now j) m)
  | B_sent x => B_sent x
  end.

Fixpoint upd {A} (k : nat) (v : A) (l : list A) : list A :=
  match l, k with
  | [], _ => []
  | _ :: t, O => v :: t
  | h :: t, S k' => h :: upd k' v t
  end.

Fixpoint interleave (js : list job) (bs : list build) (order : list nat) : list build :=
  match order with
  | [] => bs
  | k :: rest =>
      match nth_error js k, nth_error bs k with
      | Some j, Some b => interleave js (upd k (build_step j b) bs) rest
      | _, _ => interleave js bs rest
      end
  end.

Fixpoint build_steps (n : nat) (j : job) (b : build) : build :=
  match n with O => b | S m => build_steps m j (build_step j b) end.

(* ---- wire image of the coordinates (UPER constrained whole numbers) --------
   Latitude (-900000000..900000001) 31 bits, Longitude (-1800000000..1800000001)
   32 bits, AltitudeValue (-100000..800001) 20 bits: value - lower bound. *)
Definition LAT_LO : Z := -900000000.
Definition LON_LO : Z := -1800000000.
Definition ALT_LO : Z := -100000.
Definition wire_enc (lo v : Z) : Z := v - lo.
Definition wire_dec (lo u : Z) : Z := lo + u.

(* ---- reception ---------------------------------------------------------------- *)
(* the management container of a received DENM; optional members as option,
   enumerations as their index *)
Record mgmt := { m_orig_station : Z; m_seq : Z; m_detection : Z; m_reference : Z;
                 m_termination : option Z;
                 m_lat : Z; m_lon : Z; m_alt : Z;
                 m_awareness : option Z; m_direction : option Z;
                 m_validity : option Z; m_interval : option Z; m_station_type : Z }.

(* the position part of the record handed to IF.LDM.3 add_provider_data by feed_ldm:
   Location.location_builder_circle(latitude, longitude, altitude, radius = 0) *)
Record ldm_loc := { l_lat : Z; l_lon : Z; l_alt : Z; l_radius : Z }.

Definition feed_ldm (m : mgmt) : ldm_loc :=
  {| l_lat := m_lat m; l_lon := m_lon m; l_alt := m_alt m; l_radius := 0 |}.

(* sender's coordinates -> wire -> decoder -> feed_ldm *)
Definition rx_wire (m : mgmt) (ulat ulon ualt : Z) : ldm_loc :=
  feed_ldm {| m_orig_station := m_orig_station m; m_seq := m_seq m; m_detection := m_detection m;
              m_reference := m_reference m; m_termination := m_termination m;
              m_lat := wire_dec LAT_LO ulat; m_lon := wire_dec LON_LO ulon;
              m_alt := wire_dec ALT_LO ualt;
              m_awareness := m_awareness m; m_direction := m_direction m;
              m_validity := m_validity m; m_interval := m_interval m;
              m_station_type := m_station_type m |}.

(* ---- driver entry point --------------------------------------------------------
   cmd 1: schedule i T                 -> offsets
   cmd 2: run; args = sid seq0 lat0 lon0 n, then n requests of 9 integers
            kind t0 has_lat lat has_lon lon i T ok
          -> [final seq; final app lat; final app lon] ++ per event
            kind seq ev_lat ev_lon ntx, then per tx 13 integers
            time port shape area_lat area_lon a b angle hdr_station orig_station seq ref lat lon
            (14 with both stations)
   cmd 3: wire image: lat lon alt      -> [ulat; ulon; ualt]
   cmd 4: reception: ulat ulon ualt    -> [lat; lon; alt; radius]
   cmd 5: cdiv a b                     -> [ceil]
   cmd 6: run_alloc; args as cmd 2, followed by n ranks (allocation order)
          -> per event as cmd 2 (no final state)
   cmd 7: interleave; args = n, then n jobs of 5 integers sid seq now lat lon, then the
          order (indices) -> per job: steps done (0..4, 4 = handed over), then the 14
          integers of the hand-over (zeros while not handed over) *)
Definition oz (has v : Z) : option Z := if z2b has then Some v else None.

Fixpoint decode_reqs (n : nat) (a : list Z) : list req :=
  match n with
  | O => []
  | S k =>
      let r := if arg 0 a =? 0
               then Ev (arg 1 a) (oz (arg 2 a) (arg 3 a)) (oz (arg 4 a) (arg 5 a)) (arg 6 a) (arg 7 a)
               else Crw (arg 1 a) (arg 3 a) (arg 5 a) (z2b (arg 8 a)) in
      r :: decode_reqs k (skipn 9 a)
  end.

Definition flat_tx (x : tx) : list Z :=
  let m := tx_msg x in
  [tx_time x; tx_port x; tx_shape x; tx_area_lat x; tx_area_lon x; tx_a x; tx_b x; tx_angle x;
   d_hdr_station m; d_orig_station m; d_seq m; d_ref m; d_lat m; d_lon m].

Definition flat_event (e : event) : list Z :=
  [ev_kind e; ev_seq e; ev_lat e; ev_lon e; Z.of_nat (length (ev_txs e))] ++ flat_map flat_tx (ev_txs e).

Definition mgmt_dummy : mgmt :=
  {| m_orig_station := 0; m_seq := 0; m_detection := 0; m_reference := 0; m_termination := None;
     m_lat := 0; m_lon := 0; m_alt := 0; m_awareness := None; m_direction := None;
     m_validity := None; m_interval := None; m_station_type := 0 |}.

Fixpoint decode_jobs (n : nat) (a : list Z) : list job :=
  match n with
  | O => []
  | S k => {| j_sid := arg 0 a; j_seq := arg 1 a; j_now := arg 2 a; j_lat := arg 3 a; j_lon := arg 4 a |}
           :: decode_jobs k (skipn 5 a)
  end.

Definition flat_build (b : build) : list Z :=
  match b with
  | B_new => 0 :: repeat 0 14%nat
  | B_white _ => 1 :: repeat 0 14%nat
  | B_vehicle _ => 2 :: repeat 0 14%nat
  | B_request _ => 3 :: repeat 0 14%nat
  | B_sent x => 4 :: flat_tx x
  end.

Definition dispatch (cmd : Z) (a : list Z) : list Z :=
  if cmd =? 1 then schedule (arg 0 a) (arg 1 a)
  else if cmd =? 2 then
    let sa := ({| st_id := arg 0 a; st_seq := arg 1 a |}, {| a_lat := arg 2 a; a_lon := arg 3 a |}) in
    let rs := decode_reqs (Z.to_nat (arg 4 a)) (skipn 5 a) in
    let '(s', a') := final sa rs in
    [st_seq s'; a_lat a'; a_lon a'] ++ flat_map flat_event (run sa rs)
  else if cmd =? 3 then
    [wire_enc LAT_LO (arg 0 a); wire_enc LON_LO (arg 1 a); wire_enc ALT_LO (arg 2 a)]
  else if cmd =? 4 then
    let l := rx_wire mgmt_dummy (arg 0 a) (arg 1 a) (arg 2 a) in
    [l_lat l; l_lon l; l_alt l; l_radius l]
  else if cmd =? 5 then [cdiv (arg 0 a) (arg 1 a)]
  else if cmd =? 6 then
    let s := {| st_id := arg 0 a; st_seq := arg 1 a |} in
    let n := Z.to_nat (arg 4 a) in
    let rs := decode_reqs n (skipn 5 a) in
    flat_map flat_event (run_alloc s {| a_lat := arg 2 a; a_lon := arg 3 a |} rs (skipn (5 + 9 * n)%nat a))
  else if cmd =? 7 then
    let n := Z.to_nat (arg 0 a) in
    let js := decode_jobs n (skipn 1 a) in
    flat_map flat_build (interleave js (map (fun _ => B_new) js) (map Z.to_nat (skipn (1 + 5 * n)%nat a)))
  else [].
