(* Model of flexstack.btp.router: header prepend at the source, demultiplexing by destination port at
   the receiver (frozen port map).  Definitions only. *)
From FlexVerif Require Import Base.Prelude Base.Bits Model.Wire.

(* btp_data_request: btp_type 1 = BTP-A [dest port; source port], 2 = BTP-B [dest port; dest port info];
   result: (next header for the GN request, GN payload) *)
Definition btp_request (btp_type p1 p2 : Z) (payload : list Z) : Z * list Z := (btp_type, btp_pdu p1 p2 payload).

(* btp_data_indication on a GN indication (header as built by Router.ind_hdr, data = GN payload):
   Some (dest port, source port / port info, payload) when the upper protocol is BTP-A/B and a handler is
   registered for the destination port; the two port fields are read from whatever octets are there *)
Definition btp_indicate (ports : list Z) (hdr data : list Z) : option (Z * Z * list Z) :=
  if (arg 0 hdr =? 1) || (arg 0 hdr =? 2) then
    let '(p1, p2) := match dec_btp data with
                     | Some v => (arg 0 v, arg 1 v)
                     | None => (of_bytes (firstn 2 data), of_bytes (firstn 2 (skipn 2 data)))   (* fewer than 4 octets *)
                     end in
    if existsb (Z.eqb p1) ports then Some (p1, p2, skipn 4 data) else None
  else None.
