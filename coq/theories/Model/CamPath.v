(* Model of the path history that CAMTransmissionManagement puts into the low-frequency
   container (cam_transmission_management.py):
     _path_history        cleared by start(), one entry per CAM that was sent from a report with
                          a position (_update_send_state), the newest 40 are kept;
     _get_path_history    the stored points relative to the current position, newest first, up to
                          the first one whose DeltaLatitude or DeltaLongitude lies outside the range
                          of its type, at most 23 points.
   Definitions only. A stored point is named by the id of the report it came from; the two deltas
   round((h - current) * 1e7) [0.1 microdegree] are inputs (the harness evaluates the same float
   expression on the reports), the model decides which points are emitted.
   The range -131071..131072 is that of DeltaLatitude / DeltaLongitude in the common data
   dictionary (ETSI TS 102 894-2), 23 the size bound of the path history inside the low-frequency
   container, 40 the size bound of PathHistory: constants of the message format, tied to the code
   by execution on displacements around them. *)
From FlexVerif Require Import Base.Prelude.
Open Scope Z_scope.

Definition PATH_DELTA_MIN : Z := -131071.
Definition PATH_DELTA_MAX : Z := 131072.
Definition PATH_POINTS_MAX : nat := 23.
Definition PATH_KEEP : nat := 40.

Definition delta_ok (d : Z) : bool := (PATH_DELTA_MIN <=? d) && (d <=? PATH_DELTA_MAX).
Definition point_ok (p : Z * Z) : bool := delta_ok (fst p) && delta_ok (snd p).

(* the loop of _get_path_history with `n` points still allowed *)
Fixpoint select (n : nat) (ds : list (Z * Z)) : list (Z * Z) :=
  match n, ds with
  | S k, d :: rest => if point_ok d then d :: select k rest else []
  | _, _ => []
  end.

Definition path_points (ds : list (Z * Z)) : list (Z * Z) := select PATH_POINTS_MAX ds.

(* the stored history, newest first *)
Inductive pop :=
| PClear               (* start() of the inactive service *)
| PSent (rid : Z).     (* a CAM built from report rid (which has a position) was handed over *)

Definition pstep (h : list Z) (o : pop) : list Z :=
  match o with
  | PClear => []
  | PSent r => firstn PATH_KEEP (r :: h)
  end.

Definition phist (ops : list pop) : list Z := fold_left pstep ops [].

(* ---- driver: flat integer encoding --------------------------------------
   stream:  0                                    PClear
            1 rid                                PSent rid
            2 idx haspos n (rid dlat dlon)*n     a CAM with the low-frequency container was sent at
                                                 operation idx; haspos = the current report has a
                                                 position; the newest stored points (all, or the
                                                 newest 23 - no later one can be emitted), newest
                                                 first, as the harness knows them, with their deltas
   result:  per container   1 idx m (dlat dlon)*m
            desync          2 idx len            (the harness's stored points are not the model's)
            bad input       3 idx *)
Fixpoint take3 (n : nat) (a : list Z) : option (list (Z * (Z * Z)) * list Z) :=
  match n with
  | O => Some ([], a)
  | S k =>
    match a with
    | r :: x :: y :: rest =>
      match take3 k rest with
      | Some (l, rest') => Some ((r, (x, y)) :: l, rest')
      | None => None
      end
    | _ => None
    end
  end.

Fixpoint flat (l : list (Z * Z)) : list Z :=
  match l with
  | [] => []
  | (x, y) :: r => x :: y :: flat r
  end.

Fixpoint zlist_eqb (a b : list Z) : bool :=
  match a, b with
  | [], [] => true
  | x :: a', y :: b' => (x =? y) && zlist_eqb a' b'
  | _, _ => false
  end.

Fixpoint pdrive (fuel : nat) (h : list Z) (a : list Z) : list Z :=
  match fuel with
  | O => []
  | S f =>
    match a with
    | [] => []
    | 0 :: rest => pdrive f (pstep h PClear) rest
    | 1 :: r :: rest => pdrive f (pstep h (PSent r)) rest
    | 2 :: idx :: hp :: n :: rest =>
      match take3 (Z.to_nat n) rest with
      | None => [3; idx]
      | Some (tr, rest') =>
        if z2b hp then
          if zlist_eqb (map fst tr) (firstn PATH_POINTS_MAX h) then
            let pts := path_points (map snd tr) in
            1 :: idx :: Z.of_nat (length pts) :: flat pts ++ pdrive f h rest'
          else [2; idx; Z.of_nat (length h)]
        else 1 :: idx :: 0 :: pdrive f h rest'
      end
    | _ => [3; -1]
    end
  end.

Definition path_dispatch (a : list Z) : list Z := pdrive (length a) [] a.
