(* Model of flexstack.geonet.location_table (after the fix: commits) and of the
   timestamp order of flexstack.geonet.position_vector.TST.  Definitions only. *)
From FlexVerif Require Import Base.Prelude.

(* TST.__gt__ (Annex C.2), on values in [0, 2^32) *)
Definition tst_gt (a b : Z) : bool :=
  ((b <? a) && (a - b <=? 2 ^ 31)) || ((a <? b) && (2 ^ 31 <? b - a)).

(* TST.__sub__ *)
Definition tst_sub (a b : Z) : Z := if a - b <? 0 then a - b + 2 ^ 32 else a - b.

(* An entry: GN address [m; st; mid], LPV view (9 fields, TST at index 3), "a position vector
   has been received", IS_NEIGHBOUR, LS_PENDING, duplicate packet list (oldest first). *)
Record entry := mkEntry {
  e_addr : list Z; e_pv : list Z; e_set : bool; e_nb : bool; e_ls : bool; e_dpl : list Z }.

Definition pv_tst (pv : list Z) : Z := arg 3 pv.
Definition pv_addr (pv : list Z) : list Z := firstn 3 pv.

Fixpoint list_eqb (a b : list Z) : bool :=
  match a, b with
  | [], [] => true
  | x :: a', y :: b' => (x =? y) && list_eqb a' b'
  | _, _ => false
  end.

(* dict lookup: the dataclass hash covers (m, st, mid), so keys are whole addresses *)
Fixpoint find (t : list entry) (a : list Z) : option entry :=
  match t with
  | [] => None
  | e :: r => if list_eqb (e_addr e) a then Some e else find r a
  end.

Fixpoint replace (t : list entry) (e' : entry) : list entry :=
  match t with
  | [] => []
  | e :: r => if list_eqb (e_addr e) (e_addr e') then e' :: r else e :: replace r e'
  end.

(* insert or replace, keeping dict insertion order *)
Definition upsert (t : list entry) (e' : entry) : list entry :=
  match find t (e_addr e') with Some _ => replace t e' | None => t ++ [e'] end.

Definition new_entry (a : list Z) : entry := mkEntry a [0; 0; 0; 0; 0; 0; 0; 0; 0] false false false [].

(* LocationTableEntry.update_position_vector *)
Definition update_pv (e : entry) (pv : list Z) : entry :=
  if negb (e_set e) then mkEntry (e_addr e) pv true (e_nb e) (e_ls e) (e_dpl e)
  else if tst_gt (pv_tst pv) (pv_tst (e_pv e)) then mkEntry (e_addr e) pv true (e_nb e) (e_ls e) (e_dpl e)
  else e.

(* LocationTableEntry.check_duplicate_sn with ring length len: None = duplicate *)
Definition check_dup (dpl : list Z) (sn : Z) (len : Z) : option (list Z) :=
  if existsb (Z.eqb sn) dpl then None
  else Some ((if Z.of_nat (length dpl) =? len then tl dpl else dpl) ++ [sn]).

(* LocationTable.refresh_table: now = local clock (ITS ms mod 2^32), life = lifetime in ms *)
Definition keep (now life : Z) (e : entry) : bool :=
  if e_set e then tst_gt (pv_tst (e_pv e)) now || (tst_sub now (pv_tst (e_pv e)) <=? life)
  else e_ls e.
Definition refresh (t : list entry) (now life : Z) : list entry := filter (keep now life) t.

(* the entry of a station as a packet of that station finds it: an entry whose lifetime has run out
   (LocationTable._is_current is false; no purge has removed it yet) is not re-used - the station is unknown again *)
Definition live (t : list entry) (a : list Z) (now life : Z) : option entry :=
  match find t a with Some e => if keep now life e then Some e else None | None => None end.

Definition get_or_new (t : list entry) (a : list Z) (now life : Z) : entry * bool :=
  match live t a now life with Some e => (e, false) | None => (new_entry a, true) end.

(* new_shb_packet (beacon and SHB): no duplicate detection; IS_NEIGHBOUR := TRUE *)
Definition rx_shb (t : list entry) (pv : list Z) (now life : Z) : list entry :=
  let '(e, _) := get_or_new t (pv_addr pv) now life in
  let e1 := update_pv e pv in
  let e2 := mkEntry (e_addr e1) (e_pv e1) (e_set e1) true (e_ls e1) (e_dpl e1) in
  refresh (upsert t e2) now life.

(* new_tsb / gbc / gac / guc / ls_request / ls_reply packet: duplicate detection on the sequence
   number; IS_NEIGHBOUR stays as it is (FALSE for a new entry, and an expired entry counts as none).
   None = duplicate: table untouched (the new-entry case cannot be a duplicate). *)
Definition rx_mh (t : list entry) (pv : list Z) (sn : Z) (now life dpl_len : Z) : option (list entry) :=
  let '(e, _) := get_or_new t (pv_addr pv) now life in
  match check_dup (e_dpl e) sn dpl_len with
  | None => None
  | Some d =>
    let e1 := update_pv (mkEntry (e_addr e) (e_pv e) (e_set e) (e_nb e) (e_ls e) d) pv in
    Some (refresh (upsert t e1) now life)
  end.

(* ensure_entry + ls_pending := TRUE (Router.gn_ls_request) *)
Definition set_ls (t : list entry) (a : list Z) (v : bool) : list entry :=
  match find t a with
  | Some e => replace t (mkEntry (e_addr e) (e_pv e) (e_set e) (e_nb e) v (e_dpl e))
  | None => if v then t ++ [mkEntry a [0; 0; 0; 0; 0; 0; 0; 0; 0] false false true []] else t
  end.

Definition neighbours (t : list entry) : list entry := filter e_nb t.
