(* Model of flexstack.management.dcc_reactive (DccReactive) and flexstack.management.dcc_adaptive
   (DccAdaptive, GateKeeper). Definitions only.

   Every Python float is represented by its exact rational value (Q). The reactive machine only
   compares floats, so the model is exact. The adaptive algorithm and the gate keeper compute with
   floats: the model computes the same expressions over Q without rounding (float rounding is NOT
   modelled; the correspondence check compares with a tolerance and excludes decisions that fall
   within a narrow band around a comparison threshold).
   Tables and constants come from Gen/C19Consts.v, regenerated from the source on every run. *)
From Coq Require Import ZArith QArith List Bool.
From FlexVerif Require Import Gen.C19Consts.
Import ListNotations.
Open Scope Q_scope.

(* float comparisons on finite values *)
Definition Qleb (a b : Q) : bool := Qle_bool a b.            (* a <= b *)
Definition Qltb (a b : Q) : bool := negb (Qle_bool b a).     (* a < b *)

(* Python's builtin min(a, b) / max(a, b) on two arguments: the first one unless the second is
   strictly smaller / larger. *)
Definition pymin (a b : Q) : Q := if Qltb b a then b else a.
Definition pymax (a b : Q) : Q := if Qltb a b then b else a.

(* ======================= reactive approach =============================== *)
Definition row : Type := (Z * (Q * Q * Q * Q))%type.   (* state, (cbr_min, cbr_max, rate, t_off) *)

(* DccReactive.__init__: table choice *)
Definition table_of (t_on_max_us : Z) : list row :=
  if (t_on_max_us <=? 500)%Z then gen_table_A2 else gen_table_A1.

(* DccReactive._target_state: first row (dict order) with cbr_min <= cbr < cbr_max, else RESTRICTIVE *)
Fixpoint target_state (tbl : list row) (cbr : Q) : Z :=
  match tbl with
  | [] => 4%Z
  | (s, (lo, hi, _, _)) :: r => if Qleb lo cbr && Qltb cbr hi then s else target_state r cbr
  end.

(* self._table[state] *)
Fixpoint lookup (tbl : list row) (s : Z) : option (Q * Q * Q * Q) :=
  match tbl with
  | [] => None
  | (k, cfg) :: r => if (k =? s)%Z then Some cfg else lookup r s
  end.

(* one step toward the target; states are identified with their position in _STATE_ORDER
   (gen_state_order = [0;1;2;3;4], see DccProofs.state_order_identity) *)
Definition reactive_next (cur tgt : Z) : Z :=
  if (cur <? tgt)%Z then (cur + 1)%Z else if (tgt <? cur)%Z then (cur - 1)%Z else cur.

Definition cbr_in_range (cbr : Q) : bool := Qleb 0 cbr && Qleb cbr 1.

(* DccReactive.update: (status, new state, rate, t_off); status 0 = ok, 1 = ValueError (state
   unchanged), 2 = KeyError (cannot happen with the five-row tables) *)
Definition reactive_update (tbl : list row) (idx : Z) (cbr : Q) : Z * Z * Q * Q :=
  if negb (cbr_in_range cbr) then (1%Z, idx, 0, 0)
  else
    let idx' := reactive_next idx (target_state tbl cbr) in
    match lookup tbl idx' with
    | Some (_, _, rate, toff) => (0%Z, idx', rate, toff)
    | None => (2%Z, idx', 0, 0)
    end.

Definition r_state (o : Z * Z * Q * Q) : Z := let '(_, s, _, _) := o in s.
Definition r_status (o : Z * Z * Q * Q) : Z := let '(st, _, _, _) := o in st.
Definition r_rate (o : Z * Z * Q * Q) : Q := let '(_, _, r, _) := o in r.
Definition r_toff (o : Z * Z * Q * Q) : Q := let '(_, _, _, t) := o in t.

(* a sequence of evaluations: outputs in order *)
Fixpoint reactive_run (tbl : list row) (idx : Z) (l : list Q) : list (Z * Z * Q * Q) :=
  match l with
  | [] => []
  | c :: r => let o := reactive_update tbl idx c in o :: reactive_run tbl (r_state o) r
  end.

Fixpoint reactive_final (tbl : list row) (idx : Z) (l : list Q) : Z :=
  match l with
  | [] => idx
  | c :: r => reactive_final tbl (r_state (reactive_update tbl idx c)) r
  end.

(* ======================= adaptive approach ================================ *)
Record aparams : Type := {
  p_alpha : Q; p_beta : Q; p_cbr_target : Q; p_delta_max : Q; p_delta_min : Q;
  p_delta_up_max : Q; p_delta_down_max : Q }.

Definition default_params : aparams :=
  {| p_alpha := gen_alpha; p_beta := gen_beta; p_cbr_target := gen_cbr_target;
     p_delta_max := gen_delta_max; p_delta_min := gen_delta_min;
     p_delta_up_max := gen_delta_up_max; p_delta_down_max := gen_delta_down_max |}.

Record astate : Type := { a_cbr_its : Q; a_delta : Q }.

(* DccAdaptive.__post_init__ *)
Definition adaptive_init (p : aparams) : astate := {| a_cbr_its := 0; a_delta := p_delta_min p |}.

(* DccAdaptive.update; None = ValueError (state unchanged). Only the two local values are range
   checked; the optional global values are used as they are. *)
Definition adaptive_update (p : aparams) (st : astate) (cl clp : Q) (g gp : option Q) : option astate :=
  if negb (cbr_in_range cl) then None
  else if negb (cbr_in_range clp) then None
  else
    let avg := match g, gp with
               | Some a, Some b => (a + b) / 2
               | _, _ => (cl + clp) / 2
               end in
    let c := (1 # 2) * a_cbr_its st + (1 # 2) * avg in
    let diff := p_cbr_target p - c in
    let off := if Qltb 0 diff then pymin (p_beta p * diff) (p_delta_up_max p)
               else pymax (p_beta p * diff) (p_delta_down_max p) in
    let d := (1 - p_alpha p) * a_delta st + off in
    let d := if Qltb (p_delta_max p) d then p_delta_max p else d in
    let d := if Qltb d (p_delta_min p) then p_delta_min p else d in
    Some {| a_cbr_its := Qred c; a_delta := Qred d |}.

Definition ainput : Type := (Q * Q * option Q * option Q)%type.

Definition adaptive_step (p : aparams) (st : astate) (i : ainput) : astate * bool :=
  let '(cl, clp, g, gp) := i in
  match adaptive_update p st cl clp g gp with
  | Some st' => (st', true)
  | None => (st, false)
  end.

(* outputs of a sequence of evaluations: (accepted, state after the call) *)
Fixpoint adaptive_run (p : aparams) (st : astate) (l : list ainput) : list (bool * astate) :=
  match l with
  | [] => []
  | i :: r => let '(st', ok) := adaptive_step p st i in (ok, st') :: adaptive_run p st' r
  end.

(* ======================= gate keeper ======================================= *)
Definition gmin : Q := gen_gate_min.
Definition gmax : Q := gen_gate_max.
Definition geps : Q := gen_gate_eps.

(* _t_pg and _t_go are None together (before the first admission) or set together *)
Record gstate : Type := { g_delta : Q; g_sched : option (Q * Q) (* (t_pg, t_go) *) }.

Definition gate_init (delta : Q) : gstate := {| g_delta := delta; g_sched := None |}.

(* GateKeeper.is_open *)
Definition is_open (st : gstate) (t : Q) : bool :=
  match g_sched st with
  | None => true
  | Some (_, go) => Qleb (go - geps) t
  end.

Definition clamp_interval (x : Q) : Q := pymin (pymax x gmin) gmax.

Inductive gop : Type :=
| GQuery (t : Q)              (* is_open(t) *)
| GAdmit (t t_on : Q)         (* admit_packet(t, t_on) *)
| GUpdate (t delta_new : Q).  (* update_delta(t, delta_new) *)

(* result codes: query 0 closed / 1 open; admit 0 rejected / 1 admitted / 2 ValueError;
   update 0 done / 2 ValueError. Requires g_delta <> 0 (the constructor does not check it; every
   value stored by update_delta is positive). *)
Definition gate_step (st : gstate) (op : gop) : gstate * Z :=
  match op with
  | GQuery t => (st, if is_open st t then 1%Z else 0%Z)
  | GAdmit t t_on =>
      if Qleb t_on 0 then (st, 2%Z)
      else if negb (is_open st t) then (st, 0%Z)
      else ({| g_delta := g_delta st;
               g_sched := Some (t, Qred (t + clamp_interval (t_on / g_delta st))) |}, 1%Z)
  | GUpdate t dnew =>
      if Qleb dnew 0 then (st, 2%Z)
      else
        match g_sched st with
        | None => ({| g_delta := dnew; g_sched := None |}, 0%Z)
        | Some (pg, go) =>
            if is_open st t then ({| g_delta := dnew; g_sched := Some (pg, go) |}, 0%Z)
            else ({| g_delta := dnew;
                     g_sched := Some (pg, Qred (pg + clamp_interval (g_delta st / dnew * (go - pg)))) |}, 0%Z)
        end
  end.

Fixpoint gate_run (st : gstate) (ops : list gop) : list (Z * gstate) :=
  match ops with
  | [] => []
  | op :: r => let '(st', res) := gate_step st op in (res, st') :: gate_run st' r
  end.

Fixpoint gate_final (st : gstate) (ops : list gop) : gstate :=
  match ops with
  | [] => st
  | op :: r => gate_final (fst (gate_step st op)) r
  end.

(* times of the admitted packets, in order *)
Fixpoint admitted (st : gstate) (ops : list gop) : list Q :=
  match ops with
  | [] => []
  | op :: r =>
      let '(st', res) := gate_step st op in
      match op with
      | GAdmit t _ => if (res =? 1)%Z then t :: admitted st' r else admitted st' r
      | _ => admitted st' r
      end
  end.

(* ======================= driver entry point ================================= *)
Definition mkq (n d : Z) : Q := Qmake n (Z.to_pos d).
Definition outq (x : Q) : list Z := let r := Qred x in [Qnum r; Zpos (Qden r)].

Fixpoint qs_of (l : list Z) : list Q :=
  match l with
  | n :: (d :: r) => mkq n d :: qs_of r
  | _ => []
  end.

Definition optq (flag : Z) (x : Q) : option Q := if (flag =? 0)%Z then None else Some x.

(* adaptive inputs: cl_n cl_d clp_n clp_d has_g g_n g_d has_gp gp_n gp_d *)
Fixpoint ainputs_of (l : list Z) : list ainput :=
  match l with
  | a :: (b :: (c :: (d :: (hg :: (gn :: (gd :: (hp :: (pn :: (pd :: r))))))))) =>
      (mkq a b, mkq c d, optq hg (mkq gn gd), optq hp (mkq pn pd)) :: ainputs_of r
  | _ => []
  end.

(* gate ops: kind t_n t_d x_n x_d *)
Fixpoint gops_of (l : list Z) : list gop :=
  match l with
  | k :: (tn :: (td :: (xn :: (xd :: r)))) =>
      (if (k =? 0)%Z then GQuery (mkq tn td)
       else if (k =? 1)%Z then GAdmit (mkq tn td) (mkq xn xd)
       else GUpdate (mkq tn td) (mkq xn xd)) :: gops_of r
  | _ => []
  end.

Definition out_gstate (st : gstate) : list Z :=
  match g_sched st with
  | None => [0%Z; 0%Z; 1%Z; 0%Z; 1%Z] ++ outq (g_delta st)
  | Some (pg, go) => [1%Z] ++ outq pg ++ outq go ++ outq (g_delta st)
  end.

Definition nthz (n : nat) (l : list Z) : Z := nth n l 0%Z.

(* cmd 1: reactive run     [t_on_max_us; start; (n d)*]              -> per step [status; state; rate n d; toff n d]
   cmd 2: adaptive run     [7 params (n d); cbr_its n d; delta n d; inputs (10 ints each)*]
                                                                     -> per step [ok; cbr_its n d; delta n d]
   cmd 3: gate run         [delta n d; has_sched; t_pg n d; t_go n d; ops (5 ints each)*]
                                                                     -> per op [res; has_sched; t_pg n d; t_go n d; delta n d]
   cmd 4: band of the specification-independent model target       [t_on_max_us; n; d] -> [target_state]
   cmd 5: default parameters and gate constants                     [] -> 10 rationals (n d) *)
Definition dispatch (cmd : Z) (a : list Z) : list Z :=
  if (cmd =? 1)%Z then
    match a with
    | ton :: (start :: r) =>
        flat_map (fun o : Z * Z * Q * Q => [r_status o; r_state o] ++ outq (r_rate o) ++ outq (r_toff o))
                 (reactive_run (table_of ton) start (qs_of r))
    | _ => []
    end
  else if (cmd =? 2)%Z then
    match qs_of (firstn 18 a) with
    | [al; be; ta; dmx; dmn; up; dn; c0; d0] =>
        let p := {| p_alpha := al; p_beta := be; p_cbr_target := ta; p_delta_max := dmx;
                    p_delta_min := dmn; p_delta_up_max := up; p_delta_down_max := dn |} in
        flat_map (fun o : bool * astate => let '(ok, st) := o in
                           [if ok then 1%Z else 0%Z] ++ outq (a_cbr_its st) ++ outq (a_delta st))
                 (adaptive_run p {| a_cbr_its := c0; a_delta := d0 |} (ainputs_of (skipn 18 a)))
    | _ => []
    end
  else if (cmd =? 3)%Z then
    let st0 := {| g_delta := mkq (nthz 0 a) (nthz 1 a);
                  g_sched := if (nthz 2 a =? 0)%Z then None
                             else Some (mkq (nthz 3 a) (nthz 4 a), mkq (nthz 5 a) (nthz 6 a)) |} in
    flat_map (fun o : Z * gstate => let '(res, st) := o in res :: out_gstate st) (gate_run st0 (gops_of (skipn 7 a)))
  else if (cmd =? 4)%Z then
    [target_state (table_of (nthz 0 a)) (mkq (nthz 1 a) (nthz 2 a))]
  else if (cmd =? 5)%Z then
    flat_map outq [gen_alpha; gen_beta; gen_cbr_target; gen_delta_max; gen_delta_min; gen_delta_up_max;
                   gen_delta_down_max; gmin; gmax; geps]
  else [].
