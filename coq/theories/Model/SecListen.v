(* C05 - receivers without a sign service (VerifyService(backend, library, sign_service=None):
   listen-only station, road-side monitor, router that is given a verify service only).
   VerifyService.verify issues no notification at such a station: the tickets it learns go into the
   certificate library, nothing else changes. Networks whose stations are configured either way.
   Definitions only; the model of a full station is Model/Sec.v (untouched). *)
From FlexVerif Require Import Base.Prelude Model.Sec.

Section Oracles.
Variable hash8 : cert -> Z.
Variable sig_ok : Z -> Z -> Z -> bool.
Variable sign : Z -> Z -> Z.
Variable enc_tbs : tbsdata -> Z.

(* verify_with_ticket without the 'if self.sign_service is not None' block *)
Definition verify_with_ticket_lo (sn : station) (e : entry) (m : msg) : station * res :=
  let c := e_cert e in
  match cert_verify hash8 sig_ok c (e_iss e) with
  | None => (sn, RCrash)
  | Some false => (sn, RVerify R_INVALID_CERTIFICATE 0 0)
  | Some true =>
      if negb (is_at c) then (sn, RVerify R_INVALID_CERTIFICATE 0 0)
      else match header_checks hash8 c (m_tbsd m) with
           | Some r => (sn, r)
           | None =>
               if (m_sig m =? 0) || (ckey c =? 0) then (sn, RCrash)
               else if sig_ok (ckey c) (m_tbs m) (m_sig m) then
                 if t_payload (m_tbsd m) =? 0 then (sn, RCrash)
                 else (sn, RVerify R_SUCCESS (hash8 c) (t_payload (m_tbsd m)))
               else (sn, RVerify R_FALSE_SIGNATURE (hash8 c) 0)
           end
  end.

Definition verify_msg_lo (sn : station) (m : msg) : station * res :=
  if negb (m_ok m) then (sn, RCrash)
  else
    let t := m_tbsd m in
    match m_signer m with
    | SCerts cs =>
        match cs with
        | [c0] =>
            let '(st1, cr) := verify_chain hash8 sig_ok (st_store sn) [c0] in
            match cr with
            | CErr => (mkStation st1 (st_sign sn), RCrash)
            | CNone => (mkStation st1 (st_sign sn), RVerify R_INCONSISTENT_CHAIN 0 0)
            | CSome e => verify_with_ticket_lo (mkStation st1 (st_sign sn)) e m
            end
        | _ => (sn, RVerify R_UNSUPPORTED_SIGNER 0 0)
        end
    | SDigest d =>
        if t_psid t =? 37 then (sn, RVerify R_UNSUPPORTED_SIGNER 0 0)
        else match find_key hash8 d (ats (st_store sn)) with
             | None => (sn, RVerify R_SIGNER_NOT_FOUND 0 0)
             | Some e => verify_with_ticket_lo sn e m
             end
    | SOther =>
        if t_psid t =? 37 then (sn, RVerify R_UNSUPPORTED_SIGNER 0 0) else (sn, RCrash)
    end.

(* cfg: per station, true = configured without sign service (default: a full station) *)
Definition listen_only (cfg : list bool) (j : nat) : bool := nth j cfg false.

Definition verify_at (cfg : list bool) (j : nat) (sn : station) (m : msg) : station * res :=
  if listen_only cfg j then verify_msg_lo sn m else verify_msg hash8 sig_ok sn m.

Definition deliver_to_cfg (cfg : list bool) (net : list station) (m : msg) (j : nat) : list station * res :=
  match nth_error net j with
  | Some sj => let '(sj', r) := verify_at cfg j sj m in (update j sj' net, r)
  | None => (net, RCrash)
  end.

Fixpoint deliver_all_cfg (cfg : list bool) (net : list station) (m : msg) (rcv : list nat)
  : list station * list res :=
  match rcv with
  | [] => (net, [])
  | j :: r => let '(net1, x) := deliver_to_cfg cfg net m j in
              let '(net2, xs) := deliver_all_cfg cfg net1 m r in (net2, x :: xs)
  end.

Definition net_step_cfg (cfg : list bool) (net : list station) (i : nat) (o : op) (rcv : list nat)
  : list station * (res * list res) :=
  match nth_error net i with
  | None => (net, (RCrash, []))
  | Some si =>
      let '(si', r) := step hash8 sig_ok sign enc_tbs si o in
      let net1 := update i si' net in
      match r with
      | RMsg m => let '(net2, rs) := deliver_all_cfg cfg net1 m rcv in (net2, (r, rs))
      | _ => (net1, (r, []))
      end
  end.

End Oracles.

(* ---------- marshalling ----------------------------------------------------- *)
(* cmd 3: several stations, some of them without sign service.
   [mode; nsig; sigs; ncert; cert*; nstations; flag * nstations; nops; (station op nrcv rcv* )*]
   reply: as cmd 2 *)
Fixpoint net_dump_cfg (sg : Z -> Z -> Z -> bool) (cfg : list bool) (net : list station)
         (ops : list (nat * op * list nat)) : list Z :=
  match ops with
  | [] => []
  | (i, o, rcv) :: r =>
      let '(net1, (x, xs)) := net_step_cfg model_hash8 sg model_sign model_enc cfg net i o rcv in
      wr_list (wr_list (wr_res x) ++ [Z.of_nat (length xs)] ++ flat_map (fun y => wr_list (wr_res y)) xs
               ++ flat_map (fun sn => wr_list (wr_station sn)) net1)
      ++ net_dump_cfg sg cfg net1 r
  end.

Definition cmd_net_cfg (a : list Z) : list Z :=
  match a with
  | mode :: r =>
      match rd_list rd_triple r with
      | Some (sigs, r1) =>
          match rd_list rd_cert r1 with
          | Some (tbl, r2) =>
              match rd_list rd_b r2 with
              | Some (cfg, r3) =>
                  match rd_list (rd_netop tbl) r3 with
                  | Some (ops, _) =>
                      let sg := if mode =? 0 then table_sig_ok sigs else (fun _ _ _ => true) in
                      net_dump_cfg sg cfg (repeat init_station (length cfg)) ops
                  | None => [-3]
                  end
              | None => [-4]
              end
          | None => [-2]
          end
      | None => [-1]
      end
  | [] => [-1]
  end.

Definition dispatch (cmd : Z) (a : list Z) : list Z :=
  if cmd =? 1 then cmd_history a
  else if cmd =? 2 then cmd_net a
  else if cmd =? 3 then cmd_net_cfg a
  else [].
