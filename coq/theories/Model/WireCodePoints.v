(* Code points of the GeoNetworking header fields as EN 302 636-4-1 prescribes them (clause 9.6 table 4: next header of
   the Basic Header; clause 9.7 tables 6-9: next header, header type and sub-type of the Common Header; clause 6.3: M and ST
   of the GN address), written by hand: (member name of the implementation's enumeration as character codes, value).
   Definitions only; Properties/C02.v states that the enumerations regenerated from the source (Gen/C02Consts.v) equal them. *)
From FlexVerif Require Import Base.Prelude.

(* ANY=0, BTP_A=1, BTP_B=2, IPV6=3 *)
Definition spec_CommonNH : list (list Z * Z) :=
  [([65; 78; 89], 0);
   ([66; 84; 80; 95; 65], 1);
   ([66; 84; 80; 95; 66], 2);
   ([73; 80; 86; 54], 3)].
(* ANY=0, BEACON=1, GEOUNICAST=2, GEOANYCAST=3, GEOBROADCAST=4, TSB=5, LS=6 *)
Definition spec_HeaderType : list (list Z * Z) :=
  [([65; 78; 89], 0);
   ([66; 69; 65; 67; 79; 78], 1);
   ([71; 69; 79; 85; 78; 73; 67; 65; 83; 84], 2);
   ([71; 69; 79; 65; 78; 89; 67; 65; 83; 84], 3);
   ([71; 69; 79; 66; 82; 79; 65; 68; 67; 65; 83; 84], 4);
   ([84; 83; 66], 5);
   ([76; 83], 6)].
(* GEOANYCAST_CIRCLE=0, GEOANYCAST_RECT=1, GEOANYCAST_ELIP=2 *)
Definition spec_GeoAnycastHST : list (list Z * Z) :=
  [([71; 69; 79; 65; 78; 89; 67; 65; 83; 84; 95; 67; 73; 82; 67; 76; 69], 0);
   ([71; 69; 79; 65; 78; 89; 67; 65; 83; 84; 95; 82; 69; 67; 84], 1);
   ([71; 69; 79; 65; 78; 89; 67; 65; 83; 84; 95; 69; 76; 73; 80], 2)].
(* GEOBROADCAST_CIRCLE=0, GEOBROADCAST_RECT=1, GEOBROADCAST_ELIP=2 *)
Definition spec_GeoBroadcastHST : list (list Z * Z) :=
  [([71; 69; 79; 66; 82; 79; 65; 68; 67; 65; 83; 84; 95; 67; 73; 82; 67; 76; 69], 0);
   ([71; 69; 79; 66; 82; 79; 65; 68; 67; 65; 83; 84; 95; 82; 69; 67; 84], 1);
   ([71; 69; 79; 66; 82; 79; 65; 68; 67; 65; 83; 84; 95; 69; 76; 73; 80], 2)].
(* SINGLE_HOP=0, MULTI_HOP=1 *)
Definition spec_TopoBroadcastHST : list (list Z * Z) :=
  [([83; 73; 78; 71; 76; 69; 95; 72; 79; 80], 0);
   ([77; 85; 76; 84; 73; 95; 72; 79; 80], 1)].
(* LS_REQUEST=0, LS_REPLY=1 *)
Definition spec_LocationServiceHST : list (list Z * Z) :=
  [([76; 83; 95; 82; 69; 81; 85; 69; 83; 84], 0);
   ([76; 83; 95; 82; 69; 80; 76; 89], 1)].
(* UNSPECIFIED=0 *)
Definition spec_HeaderSubType : list (list Z * Z) :=
  [([85; 78; 83; 80; 69; 67; 73; 70; 73; 69; 68], 0)].
(* ANY=0, COMMON_HEADER=1, SECURED_PACKET=2 *)
Definition spec_BasicNH : list (list Z * Z) :=
  [([65; 78; 89], 0);
   ([67; 79; 77; 77; 79; 78; 95; 72; 69; 65; 68; 69; 82], 1);
   ([83; 69; 67; 85; 82; 69; 68; 95; 80; 65; 67; 75; 69; 84], 2)].
(* UNKNOWN=0, PEDESTRIAN=1, CYCLIST=2, MOPED=3, MOTORCYCLE=4, PASSENGER_CAR=5, BUS=6, LIGHT_TRUCK=7, HEAVY_TRUCK=8, TRAILER=9, SPECIAL_VEHICLE=10, TRAM=11, ROAD_SIDE_UNIT=12 *)
Definition spec_ST : list (list Z * Z) :=
  [([85; 78; 75; 78; 79; 87; 78], 0);
   ([80; 69; 68; 69; 83; 84; 82; 73; 65; 78], 1);
   ([67; 89; 67; 76; 73; 83; 84], 2);
   ([77; 79; 80; 69; 68], 3);
   ([77; 79; 84; 79; 82; 67; 89; 67; 76; 69], 4);
   ([80; 65; 83; 83; 69; 78; 71; 69; 82; 95; 67; 65; 82], 5);
   ([66; 85; 83], 6);
   ([76; 73; 71; 72; 84; 95; 84; 82; 85; 67; 75], 7);
   ([72; 69; 65; 86; 89; 95; 84; 82; 85; 67; 75], 8);
   ([84; 82; 65; 73; 76; 69; 82], 9);
   ([83; 80; 69; 67; 73; 65; 76; 95; 86; 69; 72; 73; 67; 76; 69], 10);
   ([84; 82; 65; 77], 11);
   ([82; 79; 65; 68; 95; 83; 73; 68; 69; 95; 85; 78; 73; 84], 12)].
(* GN_UNICAST=0, GN_MULTICAST=1 *)
Definition spec_M : list (list Z * Z) :=
  [([71; 78; 95; 85; 78; 73; 67; 65; 83; 84], 0);
   ([71; 78; 95; 77; 85; 76; 84; 73; 67; 65; 83; 84], 1)].
