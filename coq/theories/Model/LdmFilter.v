(* Model of the query semantics of the FlexStack LDM (IF.LDM.4 request_data_objects ->
   LDMService.query -> DictionaryDataBase.search / TinyDB.search -> order_search_results),
   after the fix: commits of C13. Definitions only.

   A stored container is a JSON-like value (the dictionary AddDataProviderReq.to_dict builds,
   with the message under "dataObject"); strings are lists of code points; an ASN.1 CHOICE
   (a Python 2-tuple, a 2-element list after TinyDB's JSON round trip) is a JList. *)
From FlexVerif Require Import Base.Prelude.

Definition str := list Z.

Inductive jv :=
| JInt (n : Z)
| JStr (s : str)
| JBool (b : bool)
| JNull
| JObj (kvs : list (str * jv))
| JList (vs : list jv).

(* reference value of a filter statement: a scalar. A (finite) float is the exact rational num / den it denotes
   (float.as_integer_ratio(), den > 0) together with the text str() gives for it (the shortest-repr algorithm of
   Python is not modelled: the text is part of the input) *)
Inductive rv := RInt (n : Z) | RStr (s : str) | RBool (b : bool) | RFlt (num den : Z) (txt : str).

Fixpoint str_eqb (a b : str) : bool :=
  match a, b with
  | [], [] => true
  | x :: a', y :: b' => (x =? y) && str_eqb a' b'
  | _, _ => false
  end.

(* lexicographic comparison of integer lists = Python's comparison of str (code points) *)
Fixpoint lex_cmp (a b : list Z) : comparison :=
  match a, b with
  | [], [] => Eq
  | [], _ :: _ => Lt
  | _ :: _, [] => Gt
  | x :: a', y :: b' => match x ?= y with Eq => lex_cmp a' b' | c => c end
  end.

(* ---- attribute paths -------------------------------------------------------------- *)
Fixpoint assoc (k : str) (kvs : list (str * jv)) : option jv :=
  match kvs with
  | [] => None
  | (k', v) :: t => if str_eqb k' k then Some v else assoc k t
  end.

(* data[key] for every component; anything but a dictionary holding the key -> missing *)
Fixpoint lookup_path (path : list str) (v : jv) : option jv :=
  match path with
  | [] => Some v
  | k :: rest =>
      match v with
      | JObj kvs => match assoc k kvs with Some v' => lookup_path rest v' | None => None end
      | _ => None
      end
  end.

Definition data_object_key : str := [100; 97; 116; 97; 79; 98; 106; 101; 99; 116].  (* "dataObject" *)

(* ---- comparison of a stored value with a reference value (Python semantics) -------- *)
Definition num_of (v : jv) : option Z :=
  match v with JInt n => Some n | JBool b => Some (b2z b) | _ => None end.
(* the number a reference value denotes, as numerator and (positive) denominator *)
Definition rnum (r : rv) : option (Z * Z) :=
  match r with
  | RInt n => Some (n, 1)
  | RBool b => Some (b2z b, 1)
  | RFlt n d _ => Some (n, d)
  | RStr _ => None
  end.

(* v == r : numbers (bool is an int; int and float compare by exact value) by value, strings by content,
   everything else unequal.  a == n/d  iff  a*d == n  (d > 0) *)
Definition py_eq (v : jv) (r : rv) : bool :=
  match num_of v, rnum r with
  | Some a, Some (n, d) => a * d =? n
  | _, _ => match v, r with JStr s, RStr t => str_eqb s t | _, _ => false end
  end.

(* v < r etc.: defined for number/number and str/str, TypeError (None) otherwise *)
Definition py_cmp (v : jv) (r : rv) : option comparison :=
  match num_of v, rnum r with
  | Some a, Some (n, d) => Some (a * d ?= n)
  | _, _ => match v, r with JStr s, RStr t => Some (lex_cmp s t) | _, _ => None end
  end.

(* well-formed: the denominator of a float is positive *)
Definition rv_wf (r : rv) : Prop := match r with RFlt _ d _ => 0 < d | _ => True end.

(* r1 and r2 denote the same number (1, True and 1.0; 0, False and 0.0; n and float(n)) *)
Definition same_number (r1 r2 : rv) : Prop :=
  match rnum r1, rnum r2 with
  | Some (n1, d1), Some (n2, d2) => n1 * d2 = n2 * d1
  | _, _ => False
  end.

(* str(needle) *)
Fixpoint dec_digits (fuel : nat) (n : Z) (acc : str) : str :=
  match fuel with
  | O => acc
  | S f => if n <? 10 then (48 + n) :: acc else dec_digits f (n / 10) ((48 + n mod 10) :: acc)
  end.
Definition dec_str (n : Z) : str :=
  if n <? 0 then 45 :: dec_digits (S (Z.to_nat (Z.log2 (- n)))) (- n) []
  else dec_digits (S (Z.to_nat (Z.log2 n))) n [].
Definition rv_str (r : rv) : str :=
  match r with
  | RInt n => dec_str n
  | RStr s => s
  | RBool true => [84; 114; 117; 101]          (* "True" *)
  | RBool false => [70; 97; 108; 115; 101]     (* "False" *)
  | RFlt _ _ txt => txt
  end.

Fixpoint is_prefix (p s : str) : bool :=
  match p, s with
  | [], _ => true
  | x :: p', y :: s' => (x =? y) && is_prefix p' s'
  | _ :: _, [] => false
  end.
Fixpoint is_sub (p s : str) : bool :=
  is_prefix p s || match s with [] => false | _ :: s' => is_sub p s' end.

(* _value_contains(candidate, needle) *)
Definition like (v : jv) (r : rv) : bool :=
  match v with
  | JStr s => is_sub (rv_str r) s
  | JList vs => existsb (fun e => py_eq e r) vs
  | _ => false
  end.

(* ComparisonOperators: 0 ==, 1 !=, 2 >, 3 <, 4 >=, 5 <=, 6 like, 7 notlike *)
Definition apply_op (op : Z) (v : jv) (r : rv) : bool :=
  if op =? 0 then py_eq v r
  else if op =? 1 then negb (py_eq v r)
  else if op =? 2 then match py_cmp v r with Some Gt => true | _ => false end
  else if op =? 3 then match py_cmp v r with Some Lt => true | _ => false end
  else if op =? 4 then match py_cmp v r with Some Gt | Some Eq => true | _ => false end
  else if op =? 5 then match py_cmp v r with Some Lt | Some Eq => true | _ => false end
  else if op =? 6 then like v r
  else if op =? 7 then negb (like v r)
  else false.

Record stmt := mkStmt { s_path : list str; s_op : Z; s_ref : rv }.

Inductive flt :=
| FNone
| F1 (s : stmt)
| F2 (s1 : stmt) (lop : Z) (s2 : stmt).      (* LogicalOperators: 0 and, 1 or *)

(* a stored container *)
Record obj := mkObj { o_idx : Z; o_typ : Z; o_rec : jv }.

(* the attribute is resolved from the data object; missing -> the statement is not satisfied *)
Definition attr (o : obj) (path : list str) : option jv := lookup_path (data_object_key :: path) (o_rec o).

Definition eval_stmt (s : stmt) (o : obj) : bool :=
  match attr o (s_path s) with
  | Some v => apply_op (s_op s) v (s_ref s)
  | None => false
  end.

Definition eval_flt (f : flt) (o : obj) : bool :=
  match f with
  | FNone => true
  | F1 s => eval_stmt s o
  | F2 s1 lop s2 => if lop =? 0 then eval_stmt s1 o && eval_stmt s2 o else eval_stmt s1 o || eval_stmt s2 o
  end.

Definition mem (x : Z) (l : list Z) : bool := existsb (Z.eqb x) l.
Definition type_ok (types : list Z) (o : obj) : bool := mem (o_typ o) types.

(* ---- ordering ------------------------------------------------------------------------ *)
(* Utils.find_attribute + get_nested: first key with that NAME in a pre-order walk over nested
   dictionaries of the whole stored container *)
Fixpoint dfs (name : str) (v : jv) {struct v} : option jv :=
  match v with
  | JObj kvs =>
      (fix go (l : list (str * jv)) : option jv :=
         match l with
         | [] => None
         | (k, x) :: t =>
             if str_eqb k name then Some x
             else match dfs name x with Some y => Some y | None => go t end
         end) kvs
  | _ => None
  end.

(* sort key of a value as an integer list (total order); None = attribute missing (or null) *)
Definition skey (v : jv) : option (list Z) :=
  match v with
  | JInt n => Some [0; n]
  | JBool b => Some [0; b2z b]
  | JStr s => Some (1 :: s)
  | JNull => None
  | _ => Some [2]
  end.

Definition okey (o : obj) (name : str) : option (list Z) :=
  match dfs name (o_rec o) with Some v => skey v | None => None end.

Record order := mkOrder { ord_name : str; ord_desc : bool }.

(* one attribute: objects lacking it come last in either direction *)
Definition cmp1 (desc : bool) (ka kb : option (list Z)) : comparison :=
  match ka, kb with
  | None, None => Eq
  | None, Some _ => Gt
  | Some _, None => Lt
  | Some a, Some b => if desc then lex_cmp b a else lex_cmp a b
  end.

Fixpoint cmp_keys (orders : list order) (a b : obj) : comparison :=
  match orders with
  | [] => Eq
  | od :: rest =>
      match cmp1 (ord_desc od) (okey a (ord_name od)) (okey b (ord_name od)) with
      | Eq => cmp_keys rest a b
      | c => c
      end
  end.

Definition le_keys (orders : list order) (a b : obj) : bool :=
  match cmp_keys orders a b with Gt => false | _ => true end.

(* stable insertion sort *)
Fixpoint insert (le : obj -> obj -> bool) (x : obj) (l : list obj) : list obj :=
  match l with
  | [] => [x]
  | y :: t => if le x y then x :: y :: t else y :: insert le x t
  end.
Definition isort (le : obj -> obj -> bool) (l : list obj) : list obj := fold_right (insert le) [] l.

(* ---- the query ------------------------------------------------------------------------- *)
Record req := mkReq { q_types : list Z; q_flt : flt; q_orders : list order }.

Definition matching (st : list obj) (q : req) : list obj :=
  filter (fun o => type_ok (q_types q) o && eval_flt (q_flt q) o) st.

Definition query (st : list obj) (q : req) : list obj := isort (le_keys (q_orders q)) (matching st q).

(* ============================================================================== *)
(* driver protocol: JSON values and requests as flat integer lists                  *)
(* ============================================================================== *)
Definition take (n : Z) (l : list Z) : list Z := firstn (Z.to_nat n) l.
Definition drop (n : Z) (l : list Z) : list Z := skipn (Z.to_nat n) l.

(* tags: 0 int n | 1 str len codes | 2 bool b | 3 null | 4 obj n (len codes value)* | 5 list n value* *)
Fixpoint dec_jv (fuel : nat) (l : list Z) {struct fuel} : option (jv * list Z) :=
  match fuel with
  | O => None
  | S f =>
    match l with
    | [] => None
    | tag :: t =>
      if tag =? 0 then match t with n :: u => Some (JInt n, u) | _ => None end
      else if tag =? 1 then match t with n :: u => Some (JStr (take n u), drop n u) | _ => None end
      else if tag =? 2 then match t with b :: u => Some (JBool (z2b b), u) | _ => None end
      else if tag =? 3 then Some (JNull, t)
      else if tag =? 4 then
        match t with
        | n :: u =>
          match (fix kvs (k : nat) (l : list Z) : option (list (str * jv) * list Z) :=
                   match k with
                   | O => Some ([], l)
                   | S k' =>
                     match l with
                     | klen :: l1 =>
                       match dec_jv f (drop klen l1) with
                       | Some (v, l2) =>
                         match kvs k' l2 with
                         | Some (rest, l3) => Some ((take klen l1, v) :: rest, l3)
                         | None => None
                         end
                       | None => None
                       end
                     | [] => None
                     end
                   end) (Z.to_nat n) u with
          | Some (p, u') => Some (JObj p, u')
          | None => None
          end
        | _ => None
        end
      else if tag =? 5 then
        match t with
        | n :: u =>
          match (fix items (k : nat) (l : list Z) : option (list jv * list Z) :=
                   match k with
                   | O => Some ([], l)
                   | S k' =>
                     match dec_jv f l with
                     | Some (v, l2) =>
                       match items k' l2 with
                       | Some (rest, l3) => Some (v :: rest, l3)
                       | None => None
                       end
                     | None => None
                     end
                   end) (Z.to_nat n) u with
          | Some (p, u') => Some (JList p, u')
          | None => None
          end
        | _ => None
        end
      else None
    end
  end.

(* ref: 0 n | 1 len codes | 2 b | 3 num den len codes (den > 0) *)
Definition dec_rv (l : list Z) : option (rv * list Z) :=
  match l with
  | tag :: n :: u =>
      if tag =? 0 then Some (RInt n, u)
      else if tag =? 1 then Some (RStr (take n u), drop n u)
      else if tag =? 2 then Some (RBool (z2b n), u)
      else if tag =? 3 then
        match u with
        | d :: k :: w => if 0 <? d then Some (RFlt n d (take k w), drop k w) else None
        | _ => None
        end
      else None
  | _ => None
  end.

(* k strings, each as len codes *)
Fixpoint dec_strs (k : nat) (l : list Z) : option (list str * list Z) :=
  match k with
  | O => Some ([], l)
  | S k' =>
    match l with
    | n :: u => match dec_strs k' (drop n u) with
                | Some (rest, u') => Some (take n u :: rest, u')
                | None => None end
    | [] => None
    end
  end.

(* stmt: npath strs op ref *)
Definition dec_stmt (l : list Z) : option (stmt * list Z) :=
  match l with
  | n :: u =>
    match dec_strs (Z.to_nat n) u with
    | Some (p, op :: u1) =>
      match dec_rv u1 with Some (r, u2) => Some (mkStmt p op r, u2) | None => None end
    | _ => None
    end
  | [] => None
  end.

(* filter: 0 | 1 stmt | 2 stmt lop stmt *)
Definition dec_flt (l : list Z) : option (flt * list Z) :=
  match l with
  | tag :: u =>
    if tag =? 0 then Some (FNone, u)
    else if tag =? 1 then match dec_stmt u with Some (s, u1) => Some (F1 s, u1) | None => None end
    else if tag =? 2 then
      match dec_stmt u with
      | Some (s1, lop :: u1) =>
        match dec_stmt u1 with Some (s2, u2) => Some (F2 s1 lop s2, u2) | None => None end
      | _ => None
      end
    else None
  | [] => None
  end.

(* orders: k (len codes desc)* *)
Fixpoint dec_orders (k : nat) (l : list Z) : option (list order * list Z) :=
  match k with
  | O => Some ([], l)
  | S k' =>
    match l with
    | n :: u =>
      match drop n u with
      | d :: u1 => match dec_orders k' u1 with
                   | Some (rest, u2) => Some (mkOrder (take n u) (z2b d) :: rest, u2)
                   | None => None end
      | [] => None
      end
    | [] => None
    end
  end.

(* request: ntypes types filter norders orders *)
Definition dec_req (l : list Z) : option (req * list Z) :=
  match l with
  | nt :: u =>
    match dec_flt (drop nt u) with
    | Some (f, no :: u1) =>
      match dec_orders (Z.to_nat no) u1 with
      | Some (os, u2) => Some (mkReq (take nt u) f os, u2)
      | None => None
      end
    | _ => None
    end
  | [] => None
  end.

(* store: k (typ value)*, indices 0.. *)
Fixpoint dec_store (fuel : nat) (k : nat) (idx : Z) (l : list Z) : option (list obj * list Z) :=
  match k with
  | O => Some ([], l)
  | S k' =>
    match l with
    | typ :: u =>
      match dec_jv fuel u with
      | Some (v, u1) => match dec_store fuel k' (idx + 1) u1 with
                        | Some (rest, u2) => Some (mkObj idx typ v :: rest, u2)
                        | None => None end
      | None => None
      end
    | [] => None
    end
  end.

(* answers to k requests: per request [count; indices...]; [-1] for an undecodable request *)
Fixpoint run_reqs (st : list obj) (k : nat) (l : list Z) : list Z :=
  match k with
  | O => []
  | S k' =>
    match dec_req l with
    | Some (q, u) => let res := query st q in
                     Z.of_nat (length res) :: map o_idx res ++ run_reqs st k' u
    | None => [-1]
    end
  end.

(* cmd 1: [nobj; (typ value)*; nreq; requests...] -> answers
   cmd 2: [value] -> [1] if it decodes and nothing is left, else [0]  (protocol self check)
   cmd 3: [n] -> str(n) *)
Definition dispatch (cmd : Z) (a : list Z) : list Z :=
  if cmd =? 1 then
    match a with
    | n :: u =>
      match dec_store (length u) (Z.to_nat n) 0 u with
      | Some (st, nr :: u1) => run_reqs st (Z.to_nat nr) u1
      | _ => [-2]
      end
    | [] => [-2]
    end
  else if cmd =? 2 then
    match dec_jv (length a) a with Some (_, []) => [1] | _ => [0] end
  else if cmd =? 3 then dec_str (arg 0 a)
  else [].
