(* Model of flexstack.facilities.ca_basic_service.cam_transmission_management.
   CAMTransmissionManagement: start / stop / location_service_callback /
   _check_cam_conditions (the T_CheckCamGen timer callback) with
   _evaluate_and_maybe_send, _check_dynamics, _should_include_lf,
   _generate_and_send_cam and _update_send_state.
   Definitions only. Time is Python int milliseconds -> Z. Heading (degrees),
   speed (m/s) and the metric distance to the position of the last CAM are
   exact rationals (every finite double is one). The haversine distance is an
   input of the Check operation: the model never computes a transcendental. *)
From FlexVerif Require Import Base.Prelude Gen.C10Consts.
From Coq Require Import QArith Qabs.
Open Scope Z_scope.

Record params := {
  p_min : Z;      (* T_GenCamMin *)
  p_max : Z;      (* T_GenCamMax *)
  p_check : Z;    (* T_CheckCamGen *)
  p_dcc : Z;      (* T_GenCam_DCC *)
  p_n : Z;        (* N_GenCam *)
  p_lf : Z;       (* low-frequency container period *)
  p_half : Q;     (* 180.0 *)
  p_full : Q;     (* 360.0 *)
  p_thr_h : Q;    (* heading threshold, degrees *)
  p_thr_d : Q;    (* position threshold, metres *)
  p_thr_s : Q     (* speed threshold, m/s *)
}.

(* the parameters of the working tree, regenerated on every run *)
Definition gen_params : params := {|
  p_min := T_GEN_CAM_MIN; p_max := T_GEN_CAM_MAX; p_check := T_CHECK_CAM_GEN;
  p_dcc := T_GEN_CAM_DCC; p_n := N_GEN_CAM_DEFAULT; p_lf := T_GEN_CAM_LF_MS;
  p_half := CAM_HEADING_HALF_TURN; p_full := CAM_HEADING_FULL_TURN;
  p_thr_h := CAM_THR_HEADING; p_thr_d := CAM_THR_POSITION; p_thr_s := CAM_THR_SPEED |}.

(* A position report (gpsd TPV). r_id identifies the report (its index in the
   input), r_ts is its time as ITS timestamp in ms; track / speed / position
   are optional keys. *)
Record report := {
  r_id : Z;
  r_ts : Z;
  r_track : option Q;
  r_haspos : bool;
  r_speed : option Q
}.

Inductive op :=
| Start
| Stop
| Rep (r : report)
| Check (now : Z) (dist : Q)    (* timer callback at clock `now`; dist = metres
                                  between the current report and the position of
                                  the last CAM (only read when both exist) *)
| CheckFail (now : Z).          (* timer callback at clock `now` at which no CAM can be
                                  handed over: the construction / encoding of a CAM from
                                  the current report fails or the lower layer raises
                                  (Annex B.2.5: the transmission is skipped) *)

Inductive out :=
| Cam (time : Z) (lf : bool) (gdt : Z) (rid : Z).

Record st := {
  active : bool;
  tpv : option report;          (* _current_tpv *)
  last_time : option Z;         (* _last_cam_time_ms *)
  t_gen : Z;                    (* t_gen_cam *)
  n_cnt : Z;                    (* _n_gen_cam_counter *)
  last_heading : option Q;      (* _last_cam_heading *)
  last_pos : option Z;          (* _last_cam_lat/_lon: id of the report they came from *)
  last_speed : option Q;        (* _last_cam_speed *)
  cam_count : Z;                (* _cam_count *)
  last_lf : option Z            (* _last_lf_time_ms *)
}.

Definition init (p : params) : st := {|
  active := false; tpv := None; last_time := None; t_gen := p_max p; n_cnt := 0;
  last_heading := None; last_pos := None; last_speed := None; cam_count := 0; last_lf := None |}.

Definition Qltb (a b : Q) : bool := negb (Qle_bool b a).

(* |a - b| folded over the 0/360 wrap exactly as _check_dynamics does *)
Definition hdiff (p : params) (a b : Q) : Q :=
  let d := Qabs (a - b) in
  if Qltb (p_half p) d then (p_full p - d)%Q else d.

Definition heading_exceeds (p : params) (s : st) (r : report) : bool :=
  match r_track r, last_heading s with
  | Some a, Some b => Qltb (p_thr_h p) (hdiff p a b)
  | _, _ => false
  end.

Definition pos_exceeds (p : params) (s : st) (r : report) (dist : Q) : bool :=
  match last_pos s with
  | Some _ => r_haspos r && Qltb (p_thr_d p) dist
  | None => false
  end.

Definition speed_exceeds (p : params) (s : st) (r : report) : bool :=
  match r_speed r, last_speed s with
  | Some a, Some b => Qltb (p_thr_s p) (Qabs (a - b))
  | _, _ => false
  end.

(* _check_dynamics *)
Definition dynamics (p : params) (s : st) (r : report) (dist : Q) : bool :=
  match last_heading s with
  | None => true
  | Some _ => heading_exceeds p s r || pos_exceeds p s r dist || speed_exceeds p s r
  end.

(* _should_include_lf *)
Definition include_lf (p : params) (s : st) (now : Z) : bool :=
  if cam_count s =? 0 then true
  else match last_lf s with
       | None => true
       | Some t => p_lf p <=? now - t
       end.

Definition gdt_of (ts : Z) : Z := ts mod 65536.

Definition opt_or {A} (o : option A) (d : option A) : option A :=
  match o with Some x => Some x | None => d end.

(* _generate_and_send_cam + _update_send_state (the transmission succeeds) *)
Definition send (p : params) (s : st) (r : report) (now : Z) (cond : Z) : st * list out :=
  let elapsed := match last_time s with Some t => now - t | None => 0 end in
  let lf := include_lf p s now in
  let '(tg, n) :=
    if cond =? 1 then
      let tg1 := Z.max (p_min p) (Z.min (p_max p) elapsed) in
      let n1 := n_cnt s + 1 in
      if p_n p <=? n1 then (p_max p, 0) else (tg1, n1)
    else (p_max p, 0) in
  ({| active := active s; tpv := tpv s; last_time := Some now; t_gen := tg; n_cnt := n;
      last_heading := opt_or (r_track r) (last_heading s);
      last_pos := if r_haspos r then Some (r_id r) else last_pos s;
      last_speed := opt_or (r_speed r) (last_speed s);
      cam_count := cam_count s + 1;
      last_lf := if lf then Some now else last_lf s |},
   [Cam now lf (gdt_of (r_ts r)) (r_id r)]).

(* _evaluate_and_maybe_send *)
Definition evaluate (p : params) (s : st) (now : Z) (dist : Q) : st * list out :=
  match tpv s with
  | None => (s, [])
  | Some r =>
    match last_time s with
    | None => send p s r now 1
    | Some t =>
      let elapsed := now - t in
      if (p_dcc p <=? elapsed) && dynamics p s r dist then send p s r now 1
      else if (t_gen s <=? elapsed) && (p_dcc p <=? elapsed) then send p s r now 2
      else (s, [])
    end
  end.

Definition start (p : params) (s : st) : st :=
  if active s then s
  else {| active := true; tpv := tpv s; last_time := None; t_gen := p_max p; n_cnt := 0;
          last_heading := None; last_pos := None; last_speed := None; cam_count := 0;
          last_lf := None |}.

Definition stop (s : st) : st :=
  {| active := false; tpv := tpv s; last_time := last_time s; t_gen := t_gen s; n_cnt := n_cnt s;
     last_heading := last_heading s; last_pos := last_pos s; last_speed := last_speed s;
     cam_count := cam_count s; last_lf := last_lf s |}.

Definition set_tpv (s : st) (r : report) : st :=
  {| active := active s; tpv := Some r; last_time := last_time s; t_gen := t_gen s; n_cnt := n_cnt s;
     last_heading := last_heading s; last_pos := last_pos s; last_speed := last_speed s;
     cam_count := cam_count s; last_lf := last_lf s |}.

Definition step (p : params) (s : st) (o : op) : st * list out :=
  match o with
  | Start => (start p s, [])
  | Stop => (stop s, [])
  | Rep r => (set_tpv s r, [])
  | Check now dist => if active s then evaluate p s now dist else (s, [])
  | CheckFail _ => (s, [])      (* no CAM, and nothing of the bookkeeping advances:
                                   _update_send_state only runs after a successful hand-over *)
  end.

Fixpoint run (p : params) (s : st) (ops : list op) : st * list out :=
  match ops with
  | [] => (s, [])
  | o :: rest =>
    let '(s1, o1) := step p s o in
    let '(s2, o2) := run p s1 rest in
    (s2, o1 ++ o2)
  end.

(* ---- driver: flat integer encoding ------------------------------------- *)
(* op stream:  0                                   Start
               1                                   Stop
               2 id ts ht tn td hp hs sn sd        Report (ht/hp/hs presence flags,
                                                   tn/td track, sn/sd speed as num/den)
               3 now ref dn dd                     Check; ref = id of the report whose
                                                   position the harness measured dist from
                                                   (-1: none)
               4 now                               CheckFail (a check at which the encoder or the
                                                   lower layer was seen to refuse the CAM)
   result:     for every CAM   1 opindex time lf gdt rid t_gen n_cnt
               desync          2 opindex expected_ref    (the harness measured the distance
                                                   from another report than the model's last
                                                   CAM position: the comparison stops there) *)
Definition mkq (n d : Z) : Q := Qmake n (Z.to_pos d).

Definition ref_ok (s : st) (ref : Z) : bool :=
  match tpv s, last_pos s with
  | Some r, Some i => negb (active s) || negb (r_haspos r) || (i =? ref)
  | _, _ => true
  end.

Fixpoint drive (p : params) (fuel : nat) (idx : Z) (s : st) (a : list Z) : list Z :=
  match fuel with
  | O => []
  | S fuel' =>
    match a with
    | [] => []
    | 0 :: rest => drive p fuel' (idx + 1) (start p s) rest
    | 1 :: rest => drive p fuel' (idx + 1) (stop s) rest
    | 2 :: id :: ts :: ht :: tn :: td :: hp :: hs :: sn :: sd :: rest =>
      let r := {| r_id := id; r_ts := ts;
                  r_track := if z2b ht then Some (mkq tn td) else None;
                  r_haspos := z2b hp;
                  r_speed := if z2b hs then Some (mkq sn sd) else None |} in
      drive p fuel' (idx + 1) (set_tpv s r) rest
    | 3 :: now :: ref :: dn :: dd :: rest =>
      if ref_ok s ref then
        let '(s1, o) := step p s (Check now (mkq dn dd)) in
        match o with
        | Cam t lf g rid :: _ =>
          1 :: idx :: t :: b2z lf :: g :: rid :: t_gen s1 :: n_cnt s1 :: drive p fuel' (idx + 1) s1 rest
        | [] => drive p fuel' (idx + 1) s1 rest
        end
      else [2; idx; match last_pos s with Some i => i | None => -1 end]
    | 4 :: now :: rest => drive p fuel' (idx + 1) (fst (step p s (CheckFail now))) rest
    | _ => [3; idx]
    end
  end.

Definition cam_dispatch (a : list Z) : list Z := drive gen_params (length a) 0 (init gen_params) a.
