(* C19 - specification side, written by hand from ETSI TS 102 687 V1.2.1 (2018-04):
   Annex A (Tables A.1 / A.2, reactive approach), clause 5.4 (adaptive approach, equations 1-6 and
   Table 3) and Annex B (gate keeper, equations B.1 / B.2), in the reading documented by the
   repository (docstrings of dcc_reactive.py / dcc_adaptive.py) and pinned by its tests
   (tests/flexstack/management/test_dcc_reactive.py: Restrictive from 0.60 in A.1 and from 0.65 in A.2).
   Definitions only. Nothing here is generated and nothing here looks at the model. *)
From Coq Require Import ZArith QArith Qabs Qminmax List Bool.
Import ListNotations.
Open Scope Q_scope.

(* ---- Annex A -------------------------------------------------------------- *)
(* Decimal reading of the tables: (state, (lower CBR bound, packet rate in Hz, T_off in ms)).
   A state's band is [its lower bound, lower bound of the next state); Restrictive is unbounded above. *)
Definition annexA1_decimal : list (Z * (Q * Q * Q)) :=
  [ (0%Z, (0 # 100, 10 # 1, 100 # 1));      (* Relaxed      < 30 %        10 Hz   100 ms *)
    (1%Z, (30 # 100, 5 # 1, 200 # 1));      (* Active 1     30 % .. 40 %   5 Hz   200 ms *)
    (2%Z, (40 # 100, 25 # 10, 400 # 1));    (* Active 2     40 % .. 50 %   2.5 Hz 400 ms *)
    (3%Z, (50 # 100, 2 # 1, 500 # 1));      (* Active 3     50 % .. 60 %   2 Hz   500 ms *)
    (4%Z, (60 # 100, 1 # 1, 1000 # 1)) ].   (* Restrictive  >= 60 %        1 Hz  1000 ms *)

Definition annexA2_decimal : list (Z * (Q * Q * Q)) :=
  [ (0%Z, (0 # 100, 20 # 1, 50 # 1));       (* Relaxed      < 30 %        20 Hz    50 ms *)
    (1%Z, (30 # 100, 10 # 1, 100 # 1));     (* Active 1     30 % .. 40 %  10 Hz   100 ms *)
    (2%Z, (40 # 100, 5 # 1, 200 # 1));      (* Active 2     40 % .. 50 %   5 Hz   200 ms *)
    (3%Z, (50 # 100, 4 # 1, 250 # 1));      (* Active 3     50 % .. 65 %   4 Hz   250 ms *)
    (4%Z, (65 # 100, 1 # 1, 1000 # 1)) ].   (* Restrictive  >= 65 %        1 Hz  1000 ms *)

(* The same thresholds as IEEE-754 binary64 values (the double nearest to each decimal), because a
   channel-busy ratio is handed over as a double and compared with doubles. Written by hand. *)
Definition dbl_0_30 : Q := 5404319552844595 # 18014398509481984.   (* 0.299999999999999988897769753748... *)
Definition dbl_0_40 : Q := 3602879701896397 # 9007199254740992.    (* 0.40000000000000002220446049250... *)
Definition dbl_0_50 : Q := 1 # 2.
Definition dbl_0_60 : Q := 5404319552844595 # 9007199254740992.    (* 0.59999999999999997779553950749... *)
Definition dbl_0_65 : Q := 5854679515581645 # 9007199254740992.    (* 0.65000000000000002220446049250... *)
(* upper end of the Restrictive row: any number above 1 (the tables give none); the code uses 1.01 *)
Definition dbl_1_01 : Q := 4548635623644201 # 4503599627370496.

(* Rows as the implementation stores them: (state, (cbr_min, cbr_max, packet_rate_hz, t_off_ms)). *)
Definition annexA_table_1 : list (Z * (Q * Q * Q * Q)) :=
  [ (0%Z, (0 # 1, dbl_0_30, 10 # 1, 100 # 1));
    (1%Z, (dbl_0_30, dbl_0_40, 5 # 1, 200 # 1));
    (2%Z, (dbl_0_40, dbl_0_50, 5 # 2, 400 # 1));
    (3%Z, (dbl_0_50, dbl_0_60, 2 # 1, 500 # 1));
    (4%Z, (dbl_0_60, dbl_1_01, 1 # 1, 1000 # 1)) ].

Definition annexA_table_2 : list (Z * (Q * Q * Q * Q)) :=
  [ (0%Z, (0 # 1, dbl_0_30, 20 # 1, 50 # 1));
    (1%Z, (dbl_0_30, dbl_0_40, 10 # 1, 100 # 1));
    (2%Z, (dbl_0_40, dbl_0_50, 5 # 1, 200 # 1));
    (3%Z, (dbl_0_50, dbl_0_65, 4 # 1, 250 # 1));
    (4%Z, (dbl_0_65, dbl_1_01, 1 # 1, 1000 # 1)) ].

(* Table A.2 applies when the packet duration T_on is at most 500 us, Table A.1 otherwise (up to 1 ms). *)
Definition annex_table (t_on_max_us : Z) : list (Z * (Q * Q * Q * Q)) :=
  if (t_on_max_us <=? 500)%Z then annexA_table_2 else annexA_table_1.

(* "x is the double nearest to the decimal d" for thresholds in [1/4, 1): within half a unit in the
   last place of that range (2^-54 covers [1/2,1), and is at most one ulp in [1/4,1/2)). *)
Definition near_decimal (x d : Q) : bool :=
  Qle_bool (x - d) (1 # 18014398509481984) && Qle_bool (d - x) (1 # 18014398509481984).

(* row of the double table agrees with the row of the decimal table *)
Definition row_agrees (r : Z * (Q * Q * Q * Q)) (dr : Z * (Q * Q * Q)) : bool :=
  let '(s, (lo, _, rate, toff)) := r in
  let '(s', (dlo, drate, dtoff)) := dr in
  (s =? s')%Z && near_decimal lo dlo && Qeq_bool rate drate && Qeq_bool toff dtoff.

Fixpoint rows_agree (t : list (Z * (Q * Q * Q * Q))) (d : list (Z * (Q * Q * Q))) : bool :=
  match t, d with
  | [], [] => true
  | r :: t', dr :: d' => row_agrees r dr && rows_agree t' d'
  | _, _ => false
  end.

(* The band of a CBR value: index of the last lower bound that is <= cbr (lower bounds increasing). *)
Definition lower_bounds (t : list (Z * (Q * Q * Q * Q))) : list Q :=
  map (fun r => let '(_, (lo, _, _, _)) := r in lo) t.

Definition band (lows : list Q) (cbr : Q) : Z :=
  (Z.of_nat (length (filter (fun lo => Qle_bool lo cbr) lows)) - 1)%Z.

(* Annex A outputs of a state: row number s of the table. *)
Definition annex_rate (t : list (Z * (Q * Q * Q * Q))) (s : Z) : Q :=
  let '(_, (_, _, rate, _)) := nth (Z.to_nat s) t (0%Z, (0, 0, 0, 0)) in rate.
Definition annex_toff (t : list (Z * (Q * Q * Q * Q))) (s : Z) : Q :=
  let '(_, (_, _, _, toff)) := nth (Z.to_nat s) t (0%Z, (0, 0, 0, 0)) in toff.

(* consecutive elements of s :: l differ by at most one (clause 5.3: a state is only reached from a
   neighbouring state) *)
Fixpoint adjacent_chain (s : Z) (l : list Z) : Prop :=
  match l with
  | [] => True
  | x :: r => (Z.abs (x - s) <= 1)%Z /\ adjacent_chain x r
  end.

(* ---- clause 5.4, Table 3 ---------------------------------------------------- *)
Definition table3_alpha : Q := 16 # 1000.
Definition table3_beta : Q := 12 # 10000.
Definition table3_cbr_target : Q := 68 # 100.
Definition table3_delta_max : Q := 3 # 100.
Definition table3_delta_min : Q := 6 # 10000.
Definition table3_delta_up_max : Q := 5 # 10000.
Definition table3_delta_down_max : Q := - (25 # 100000).

(* "x is the double nearest to d": relative error at most 2^-53 *)
Definition near_rel (x d : Q) : bool :=
  Qle_bool ((x - d) * (9007199254740992 # 1)) (Qabs d) && Qle_bool ((d - x) * (9007199254740992 # 1)) (Qabs d).

(* Step 1, equation (1). CBR_L_0_Hop / CBR_L_0_Hop_Previous, replaced by CBR_G / CBR_G_Previous when
   both global values are available (NOTE in clause 5.4). *)
Definition eq1 (cbr_its cbr0 cbr0_prev : Q) : Q := (1 # 2) * cbr_its + (1 # 2) * ((cbr0 + cbr0_prev) / 2).

(* Step 2, equations (2) and (3). *)
Definition eq2 (beta target cbr_its up_max : Q) : Q := Qmin (beta * (target - cbr_its)) up_max.
Definition eq3 (beta target cbr_its down_max : Q) : Q := Qmax (beta * (target - cbr_its)) down_max.
Definition step2 (beta target cbr_its up_max down_max : Q) : Q :=
  match (target - cbr_its) ?= 0 with
  | Gt => eq2 beta target cbr_its up_max          (* sign(CBR_target - CBR_ITS-S) positive *)
  | _ => eq3 beta target cbr_its down_max
  end.

(* Step 3, equation (4). *)
Definition eq4 (alpha delta offset : Q) : Q := (1 - alpha) * delta + offset.

(* Steps 4 and 5, equations (5) and (6). *)
Definition eq5 (delta_max d : Q) : Q := match d ?= delta_max with Gt => delta_max | _ => d end.
Definition eq6 (delta_min d : Q) : Q := match d ?= delta_min with Lt => delta_min | _ => d end.

(* the pair of CBR values that enters equation (1): the global ones when both are available *)
Definition eq1_inputs (cl clp : Q) (g gp : option Q) : Q * Q :=
  match g, gp with
  | Some a, Some b => (a, b)
  | _, _ => (cl, clp)
  end.

(* one evaluation, steps 1 to 5: (new CBR_ITS-S, new delta) *)
Definition adaptive_spec (alpha beta target delta_max delta_min up_max down_max : Q)
                         (cbr_its delta : Q) (cl clp : Q) (g gp : option Q) : Q * Q :=
  let '(c0, c1) := eq1_inputs cl clp g gp in
  let c := eq1 cbr_its c0 c1 in
  (c, eq6 delta_min (eq5 delta_max (eq4 alpha delta (step2 beta target c up_max down_max)))).

(* ---- Annex B ----------------------------------------------------------------- *)
Definition ms25 : Q := 1 # 40.     (* 25 ms *)
Definition s1 : Q := 1 # 1.        (* 1 s *)

(* B.1: t_go = t_pg + min(max(T_on_pp / delta, 0.025), 1) *)
Definition B1 (lo hi t_pg t_on delta : Q) : Q := t_pg + Qmin (Qmax (t_on / delta) lo) hi.
(* B.2: t_go = t_pg + min(max(delta_old / delta_new * (t_go - t_pg), 0.025), 1) *)
Definition B2 (lo hi t_pg t_go delta_old delta_new : Q) : Q :=
  t_pg + Qmin (Qmax (delta_old / delta_new * (t_go - t_pg)) lo) hi.

(* times t1 :: t2 :: ... with consecutive elements at least d apart; the first at least d after lo *)
Fixpoint chain (d : Q) (lo : option Q) (l : list Q) : Prop :=
  match l with
  | [] => True
  | t :: r => match lo with None => True | Some p => p + d <= t end /\ chain d (Some t) r
  end.
