(* C15: the router's shared objects as atomic operations.  Each operation below is ONE critical section of
   the code (that the critical sections are contiguous under the right lock is the obligation on the
   regenerated Gen/LockSummary.v; that critical sections of one lock exclude each other and that the lock
   order is deadlock free is proved in Base/Interleave.v for every interleaving).  A concurrent execution
   therefore induces, per lock, a total order of the critical sections; the theorems here hold for EVERY such
   order, i.e. for every list of operations.  Definitions only. *)
From FlexVerif Require Import Base.Prelude Base.Interleave Model.Wire Model.LocT.

(* protection policy of the router and the location table (field and lock numbers are those of
   Gen/LockSummary.v; checked against the generated names in Proofs/ConcProofs.v) *)
Definition router_write (f : Z) : option Z :=
  if f =? 0 then Some 0                                   (* sequence_number        : sequence_number_lock *)
  else if f =? 1 then Some 1                              (* _cbf_buffer            : _cbf_lock *)
  else if (f =? 2) || (f =? 3) || (f =? 4) then Some 2    (* _ls_timers/_counters/_buffers : _ls_lock *)
  else if f =? 5 then Some 3                              (* ego_position_vector    : ego_position_vector_lock *)
  else if f =? 6 then Some 4                              (* loc_t                  : loc_t_lock *)
  else if f =? 7 then Some 5                              (* entry.position_vector  : position_vector_lock *)
  else if f =? 8 then Some 6                              (* entry.tst              : tst_lock *)
  else if f =? 9 then Some 7                              (* entry.pdr              : pdr_lock *)
  else if (f =? 10) || (f =? 11) then Some 8              (* entry.dpl_set/deque    : dpl_lock *)
  else None.
(* reading the ego / entry position vector is a single attribute load of an immutable object: no lock *)
Definition router_read (f : Z) : option Z := if (f =? 5) || (f =? 7) then None else router_write f.
Definition router_policy : policy := mkPolicy router_read router_write.
Definition TOP_LOCK : Z := 4.                             (* loc_t_lock: the only lock taken while another is held *)

(* ---- sequence numbers ------------------------------------------------------------------------ *)
Fixpoint sn_after (k : nat) (sn : Z) : Z := match k with O => sn | S k' => next_sn (sn_after k' sn) end.
(* values returned by the first n calls, in the order in which their critical sections ran *)
Definition sn_returned (n : nat) (sn0 : Z) : list Z := map (fun k => sn_after k sn0) (seq 1 n).

(* ---- contention-based forwarding buffer ------------------------------------------------------ *)
Inductive cbf_op :=
| CBuf (k : list Z) (p : list Z)      (* gn_area_cbf_forwarding: buffer, or drop the copy if the key is there *)
| CCancel (k : list Z)                (* _cbf_discard: a duplicate was overheard *)
| CTimeout (k : list Z).              (* _cbf_timeout: check-and-remove; the packet is sent iff it was there *)

Fixpoint buf_find (b : list (list Z * list Z)) (k : list Z) : option (list Z) :=
  match b with [] => None | (k', p) :: r => if list_eqb k' k then Some p else buf_find r k end.
Definition buf_remove (b : list (list Z * list Z)) (k : list Z) := filter (fun kp => negb (list_eqb (fst kp) k)) b.

(* output: Some p = packet p is handed to the link layer *)
Definition cbf_step (b : list (list Z * list Z)) (o : cbf_op) : list (list Z * list Z) * option (list Z) :=
  match o with
  | CBuf k p => match buf_find b k with Some _ => (buf_remove b k, None) | None => (b ++ [(k, p)], None) end
  | CCancel k => (buf_remove b k, None)
  | CTimeout k => match buf_find b k with Some p => (buf_remove b k, Some p) | None => (b, None) end
  end.

Fixpoint cbf_run (b : list (list Z * list Z)) (ops : list cbf_op) : list (list Z * list Z) * list (option (list Z)) :=
  match ops with
  | [] => (b, [])
  | o :: r => let '(b1, out) := cbf_step b o in let '(b2, outs) := cbf_run b1 r in (b2, out :: outs)
  end.

(* ---- ego position vector ----------------------------------------------------------------------- *)
Inductive ego_op := EWrite (pv : list Z) | ERead.
Fixpoint ego_run (cur : list Z) (ops : list ego_op) : list (list Z) :=      (* values returned by the reads *)
  match ops with
  | [] => []
  | EWrite pv :: r => ego_run pv r
  | ERead :: r => cur :: ego_run cur r
  end.

(* ---- location service buffers (one destination) ------------------------------------------------ *)
Inductive ls_op :=
| LReq (r : list Z)      (* gn_ls_request with a request to buffer *)
| LReply                 (* the reply arrived: pop the buffer, flush it *)
| LRetry (max : Z)       (* retransmit timer: give up when the counter has reached max *)
| LForget.               (* the placeholder entry vanished: the next request starts a new lookup (overwrites) *)

Inductive ls_out := LFlushed (rs : list (list Z)) | LDropped (rs : list (list Z)) | LOverwritten (rs : list (list Z)) | LNone.

(* state: None = no lookup; Some (pending flag of the entry, counter, buffer) *)
Definition ls_st := option (bool * Z * list (list Z)).
Definition ls_step1 (s : ls_st) (o : ls_op) : ls_st * ls_out :=
  match s, o with
  | None, LReq r => (Some (true, 0, [r]), LNone)
  | Some (true, c, b), LReq r => (Some (true, c, b ++ [r]), LNone)
  | Some (false, c, b), LReq r => (Some (true, 0, [r]), LOverwritten b)
  | Some (_, _, b), LReply => (None, LFlushed b)
  | None, LReply => (None, LFlushed [])
  | Some (p, c, b), LRetry max => if max <=? c then (None, LDropped b) else (Some (p, c + 1, b), LNone)
  | None, LRetry _ => (None, LNone)
  | Some (_, c, b), LForget => (Some (false, c, b), LNone)
  | None, LForget => (None, LNone)
  end.

Fixpoint ls_run1 (s : ls_st) (ops : list ls_op) : ls_st * list ls_out :=
  match ops with
  | [] => (s, [])
  | o :: r => let '(s1, out) := ls_step1 s o in let '(s2, outs) := ls_run1 s1 r in (s2, out :: outs)
  end.

Definition batch (o : ls_out) : list (list Z) :=
  match o with LFlushed b | LDropped b | LOverwritten b => b | LNone => [] end.
Definition issued (ops : list ls_op) : list (list Z) :=
  flat_map (fun o => match o with LReq r => [r] | _ => [] end) ops.
Definition buffered (s : ls_st) : list (list Z) := match s with Some (_, _, b) => b | None => [] end.
