(* Reception of a SECURED packet (Basic Header NH = 2) by flexstack.geonet.router.Router: process_basic_header ->
   process_security_header -> process_common_header.  Definitions only.

   The verify service is an oracle: `plain` is the plain message it returns with report SUCCESS (Common Header +
   Extended Header + payload); a packet that does not verify is discarded (C03).  The router then runs the
   common-header stage on `plain` under the RECEIVED Basic Header with its next-header field rewritten to 1 - so the
   forwarders, which assemble their frame from that Basic Header and the decoded headers, emit an UNSECURED packet
   (known finding KF-C06-1). *)
From FlexVerif Require Import Base.Prelude Base.Bits Model.Wire Model.LocT Model.Router.

Definition bv_nh (bv : list Z) (nh : Z) : list Z := [arg 0 bv; nh; arg 2 bv; arg 3 bv; arg 4 bv; arg 5 bv].

Definition rx_secured (m : mib) (s : state) (now : Z) (g : geo) (pkt plain : list Z) : state * list output :=
  match dec_basic pkt with
  | None => (s, [ODiscard R_BASIC])
  | Some bv =>
    if negb (arg 0 bv =? 1) then (s, [ODiscard R_VERSION]) else
    if arg 1 bv =? 2 then rx m s now g (enc_basic (bv_nh bv 1) ++ plain)
    else rx m s now g pkt
  end.
