(* LDM subscriptions with consumers that ACT on their notifications (seed C14-11). Definitions only.

   Model/LdmSub.v describes an attendance as one indivisible step: fine as long as callbacks only
   record. A callback is the consumer's code, though, and may call back into the LDM while the
   notification is still being delivered: add data (IF.LDM.3; on the reactive service that addition
   attends the subscriptions again, nested in the attendance under way), attend, subscribe, unsubscribe,
   (de)register. The service is sequential here (threads are C16), so such a history is still a sequence
   of small steps - but the loop of attend_subscriptions is cut open between two subscriptions.

   This file is the machine that runs those small steps, faithful to the code after the fix: commits:

     attend_subscriptions():  snapshot := copy of the subscription list
                              for u in snapshot:          (frame FAtt rest marked ..)
                                 consumer of u not registered NOW -> mark u for removal, next
                                 data := search NOW; empty / fewer than multiplicity -> next
                                 process_notifications(u, data):
                                    u not in the subscription list NOW (cancelled since the snapshot) -> next
                                    last := recorded time of u, NOW truncated if there is none
                                    interval not passed -> next
                                    record NOW truncated as the time of u      <- before the callback
                                    callback(u, data)  -> what the consumer does runs here (frame FOps false)
                              remove the marked subscriptions
     LDMServiceReactive.add_provider_data(): insert; if 500 ms passed since last_subscription_time:
                              attend_subscriptions(); last_subscription_time := NOW     <- after the attendance

   `script`: what a consumer does from inside the 1st, 2nd, ... invocation of its callback (None = nothing).
   The operations of the history proper and those performed by callbacks are the `op` of LdmSub; the ones
   that do not attend are executed by LdmSub.step. *)
From FlexVerif Require Import Base.Prelude Model.LdmFilter Model.LdmSub.

(* what a consumer does from inside one invocation of its callback: an operation, or the unsubscription of the
   identifier that the subscribe operation number idx of the history returned (a bogus identifier if that operation
   has not succeeded so far) *)
Inductive rop := ROp (o : op) | RUnsub (aid idx : Z).
Definition script := list (option rop).

Inductive frame :=
| FOps (top : bool) (i : Z) (ops : list op)
    (* operations still to be executed: the history itself (top = true, i = index of the next one) or what a
       callback does (top = false) *)
| FAtt (rest : list sub) (marked : list Z) (mk : bool) (out : list Z).
    (* an attendance under way: snapshot entries still ahead, callbacks of the subscriptions marked for removal,
       mk = it is the attendance of an addition (last_subscription_time is set when it ends), out = the response
       of the operation the attendance belongs to *)

Record cfg := mkCfg {
  c_st : st;
  c_scripts : list (Z * script);     (* callback number -> what is left of its consumer's script *)
  c_ids : list (Z * Z);              (* index of a successful subscribe operation of the history -> identifier *)
  c_stack : list frame               (* innermost first *)
}.

Inductive ev :=
| ECall (u : sub) (d : list Z) (t : Z)    (* callback of u invoked with the store positions d, at second t (ITS ms) *)
| EBegin                                   (* an operation performed by the callback just invoked begins *)
| EEnd (out : list Z) (dmp : list Z).      (* an operation (of the history or of a callback) has ended: response, observable state *)

Definition with_subs (s : st) (l : list sub) : st :=
  mkSt (store s) (next_idx s) (conss s) l (next_cb s) (now s) (last_attend s).
Definition mark_attended (s : st) : st :=
  mkSt (store s) (next_idx s) (conss s) (subs s) (next_cb s) (now s) (now s).
Definition insert (s : st) (typ : Z) (v : jv) : st :=
  mkSt (store s ++ [mkObj (next_idx s) typ v]) (next_idx s + 1) (conss s) (subs s) (next_cb s) (now s) (last_attend s).

(* last_checked_subscriptions_time.get(u), and the current second when u has no record (any more) *)
Definition cur_last (s : st) (u : sub) : Z :=
  match find (fun v => u_cb v =? u_cb u) (subs s) with
  | Some v => u_last v
  | None => trunc_s (now s)
  end.
(* `subscription in self.subscriptions`, looked up when the attendance reaches u: still in the list, not cancelled
   (unsubscription, deregistration of its consumer) since the snapshot was made *)
Definition listed (s : st) (u : sub) : bool := mem (u_cb u) (map u_cb (subs s)).
Definition interval_passed (t : Z) (nt : option Z) (last : Z) : bool :=
  match nt with None => true | Some n => last + n <=? trunc_s t end.
Definition stamp (s : st) (cb t : Z) : st :=
  with_subs s (map (fun v => if u_cb v =? cb then set_last v t else v) (subs s)).
Definition sweep (s : st) (marked : list Z) : st :=
  with_subs s (filter (fun v => negb (mem (u_cb v) marked)) (subs s)).

Fixpoint pop_script (cb : Z) (l : list (Z * script)) : option rop * list (Z * script) :=
  match l with
  | [] => (None, [])
  | (c, sc) :: t =>
      if c =? cb then
        match sc with
        | [] => (None, l)
        | r :: sc' => (r, (c, sc') :: t)
        end
      else let '(r, t') := pop_script cb t in (r, (c, sc) :: t')
  end.
Definition script_of (i : Z) (tbl : list (Z * script)) : script :=
  match find (fun p => fst p =? i) tbl with Some p => snd p | None => [] end.

Definition id_of (idx : Z) (ids : list (Z * Z)) : Z :=
  match find (fun p => fst p =? idx) ids with Some p => snd p | None => -1 end.
Definition push_reaction (ids : list (Z * Z)) (r : option rop) (k : list frame) : list frame :=
  match r with
  | Some (ROp o) => FOps false 0 [o] :: k
  | Some (RUnsub aid idx) => FOps false 0 [Unsubscribe aid (id_of idx ids)] :: k
  | None => k
  end.

(* one small step; None = nothing left to do *)
Definition mstep (tbl : list (Z * script)) (c : cfg) : option (cfg * list ev) :=
  let s := c_st c in
  match c_stack c with
  | [] => None
  | FOps top i [] :: k => Some (mkCfg s (c_scripts c) (c_ids c) k, [])
  | FOps top i (o :: ops) :: k =>
      let k' := FOps top (i + 1) ops :: k in
      let b := if top then [] else [EBegin] in
      match o with
      | Attend => Some (mkCfg s (c_scripts c) (c_ids c) (FAtt (subs s) [] false [] :: k'), b)
      | AddObj typ v =>
          let s1 := insert s typ v in
          if 500 <=? now s - last_attend s
          then Some (mkCfg s1 (c_scripts c) (c_ids c) (FAtt (subs s1) [] true [next_idx s] :: k'), b)
          else Some (mkCfg s1 (c_scripts c) (c_ids c) k', b ++ [EEnd [next_idx s] (dump s1)])
      | _ =>
          let x := step s o in
          let fresh := match o with Subscribe r => top && (validate s r =? 0) | _ => false end in
          let scr := if fresh then (next_cb s, script_of i tbl) :: c_scripts c else c_scripts c in
          let ids := match o with
                     | Subscribe r => if fresh then (i, r_key r) :: c_ids c else c_ids c
                     | _ => c_ids c
                     end in
          Some (mkCfg (st_of x) scr ids k', b ++ [EEnd (out_of x) (dump (st_of x))])
      end
  | FAtt [] marked mk out :: k =>
      let s1 := sweep s marked in
      let s2 := if mk then mark_attended s1 else s1 in
      Some (mkCfg s2 (c_scripts c) (c_ids c) k, [EEnd out (dump s2)])
  | FAtt (u :: rest) marked mk out :: k =>
      if negb (mem (u_app u) (conss s))
      then Some (mkCfg s (c_scripts c) (c_ids c) (FAtt rest (u_cb u :: marked) mk out :: k), [])
      else
        let data := data_of s u in
        if negb (nonempty data) || negb (mult_ok u (length data)) || negb (listed s u)
           || negb (interval_passed (now s) (u_nt u) (cur_last s u))
        then Some (mkCfg s (c_scripts c) (c_ids c) (FAtt rest marked mk out :: k), [])
        else
          let '(r, scr) := pop_script (u_cb u) (c_scripts c) in
          Some (mkCfg (stamp s (u_cb u) (trunc_s (now s))) scr (c_ids c)
                      (push_reaction (c_ids c) r (FAtt rest marked mk out :: k)),
                [ECall u (map o_idx data) (trunc_s (now s))])
  end.

(* the events of a run, and whether it came to its end within the fuel *)
Fixpoint mrun (fuel : nat) (tbl : list (Z * script)) (c : cfg) : list ev * bool :=
  match fuel with
  | O => ([], false)
  | S f =>
      match mstep tbl c with
      | None => ([], true)
      | Some (c', evs) => let '(r, fin) := mrun f tbl c' in (evs ++ r, fin)
      end
  end.

(* the configurations of a run, for the statements about states *)
Fixpoint mcfg (fuel : nat) (tbl : list (Z * script)) (c : cfg) : cfg :=
  match fuel with
  | O => c
  | S f => match mstep tbl c with None => c | Some (c', _) => mcfg f tbl c' end
  end.

(* exactly n small steps *)
Fixpoint msteps (n : nat) (tbl : list (Z * script)) (c : cfg) : option (cfg * list ev) :=
  match n with
  | O => Some (c, [])
  | S k =>
      match mstep tbl c with
      | None => None
      | Some (c1, e1) =>
          match msteps k tbl c1 with
          | Some (c2, e2) => Some (c2, e1 ++ e2)
          | None => None
          end
      end
  end.
(* the callback invocations among the events, as LdmSub records them *)
Definition calls_in (evs : list ev) : list call :=
  flat_map (fun e => match e with ECall u d _ => [(u_cb u, d)] | _ => [] end) evs.
Definition all_empty (scr : list (Z * script)) : Prop := Forall (fun p => snd p = []) scr.

Definition start_in (s : st) (ops : list op) : cfg := mkCfg s [] [] [FOps true 0 ops].
Definition start (t0 : Z) (ops : list op) : cfg := start_in (init t0) ops.
(* all events of a history with acting consumers *)
Definition history (fuel : nat) (tbl : list (Z * script)) (t0 : Z) (ops : list op) : list ev :=
  fst (mrun fuel tbl (start t0 ops)).

(* ---- vocabulary of the statements ------------------------------------------------------------ *)
Definition is_call_of (cb : Z) (e : ev) : Prop := match e with ECall u _ _ => u_cb u = cb | _ => False end.
(* most recent notification of a callback in a history given most recent first *)
Fixpoint last_call (cb : Z) (h : list ev) : option Z :=
  match h with
  | [] => None
  | ECall u _ t :: r => if u_cb u =? cb then Some t else last_call cb r
  | _ :: r => last_call cb r
  end.
(* a subscription is cancelled: no subscription with its callback is in the list (callback numbers are handed out
   once: cb < next_cb means the number will not be used again) *)
Definition cancelled (cb : Z) (c : cfg) : Prop :=
  ~ In cb (map u_cb (subs (c_st c))) /\ cb < next_cb (c_st c).

(* "after its cancellation (unsubscription, deregistration) the callback of a subscription is not invoked again", for
   histories with acting consumers. A step of a history cancels u when u is in the subscription list before it and no
   subscription with that callback is in the list after it. Whatever is under way at that moment - in particular an
   attendance that took its snapshot of the list before the cancellation and still has u ahead of it (the cancellation
   was made from inside a notification callback of that attendance) - no later event of the history is a call of u. *)
Definition no_call_after_cancel_stmt : Prop :=
  forall tbl t0 ops n c' evs u,
    let c := mcfg n tbl (start t0 ops) in
    mstep tbl c = Some (c', evs) ->
    In u (subs (c_st c)) -> ~ In (u_cb u) (map u_cb (subs (c_st c'))) ->
    forall fuel e, In e (fst (mrun fuel tbl c')) -> ~ is_call_of (u_cb u) e.

(* ============================================================================== *)
(* driver protocol                                                                   *)
(* ============================================================================== *)
Definition flat_ev (e : ev) : list Z :=
  match e with
  | ECall u d _ => 10 :: u_cb u :: Z.of_nat (length d) :: d
  | EBegin => [11]
  | EEnd out dmp => 12 :: Z.of_nat (length out) :: out ++ dmp
  end.

(* script entries: 0 | 1 len <one encoded operation> | 2 aid idx *)
Fixpoint dec_entries (n : nat) (l : list Z) : script * list Z :=
  match n with
  | O => ([], l)
  | S k =>
      match l with
      | f :: u =>
          if f =? 0 then let '(sc, r) := dec_entries k u in (None :: sc, r)
          else if f =? 2 then
            match u with
            | aid :: idx :: w => let '(sc, r) := dec_entries k w in (Some (RUnsub aid idx) :: sc, r)
            | _ => ([], [])
            end
          else match u with
               | len :: w => let '(sc, r) := dec_entries k (drop len w) in
                             (option_map ROp (hd_error (decode 1 (take len w))) :: sc, r)
               | [] => ([], [])
               end
      | [] => ([], [])
      end
  end.
(* table: index of the subscribe operation, number of entries, entries *)
Fixpoint dec_tbl (n : nat) (l : list Z) : list (Z * script) * list Z :=
  match n with
  | O => ([], l)
  | S k =>
      match l with
      | idx :: ne :: u =>
          let '(sc, r) := dec_entries (Z.to_nat ne) u in
          let '(t, r2) := dec_tbl k r in ((idx, sc) :: t, r2)
      | _ => ([], [])
      end
  end.

(* cmd 3: [t0; fuel; number of scripts; scripts...; ops...] -> events (13 at the end: out of fuel);
   cmd 1, 2: as LdmSub.dispatch (written out: the extracted file has to hold one function of that name) *)
Definition dispatch (cmd : Z) (a : list Z) : list Z :=
  if cmd =? 3 then
    let '(tbl, l) := dec_tbl (Z.to_nat (arg 2 a)) (skipn 3 a) in
    let '(evs, fin) := mrun (Z.to_nat (arg 1 a)) tbl (start (arg 0 a) (decode (length l) l)) in
    flat_map flat_ev evs ++ (if fin then [] else [13])
  else
    let l := skipn 1 a in
    if cmd =? 1 then run_dump (init (arg 0 a)) (decode (length l) l)
    else if cmd =? 2 then [Z.of_nat (length (decode (length l) l))]
    else [].
