(* C16: the LDM's shared objects as atomic operations (one operation = one critical section of the
   DictionaryDataBase RLock; the obligation that they are critical sections is on Gen/LdmLockSummary.v).
   A concurrent execution induces a total order of the critical sections of one lock; the theorems hold for
   EVERY such order, i.e. for every list of operations.  Object contents are opaque tokens.  Definitions only. *)
From FlexVerif Require Import Base.Prelude Base.Interleave.

Record dbs := mkDb { d_items : list (Z * Z); d_next : Z }.        (* (id, value) in insertion order; next id *)

Inductive dop :=
| DIns (v : Z)            (* insert *)
| DGet (i : Z)
| DUpd (i v : Z)          (* update: only an existing id (returns whether it existed) *)
| DRemId (i : Z)          (* remove_by_id *)
| DRemVal (v : Z)         (* remove: the first record equal to v (garbage collection deletes by value) *)
| DExists (i : Z)
| DAll.

Inductive dres := RId (i : Z) | RVal (o : option Z) | RBool (b : bool) | RAll (l : list (Z * Z)).

Fixpoint lookup (l : list (Z * Z)) (i : Z) : option Z :=
  match l with [] => None | (k, v) :: r => if k =? i then Some v else lookup r i end.
Fixpoint set_val (l : list (Z * Z)) (i v : Z) : list (Z * Z) :=
  match l with [] => [] | (k, x) :: r => if k =? i then (k, v) :: r else (k, x) :: set_val r i v end.
Fixpoint del_id (l : list (Z * Z)) (i : Z) : list (Z * Z) :=
  match l with [] => [] | (k, x) :: r => if k =? i then r else (k, x) :: del_id r i end.
Fixpoint del_val (l : list (Z * Z)) (v : Z) : list (Z * Z) :=
  match l with [] => [] | (k, x) :: r => if x =? v then r else (k, x) :: del_val r v end.
Definition has_val (l : list (Z * Z)) (v : Z) : bool := existsb (fun kx => snd kx =? v) l.

Definition db_step (s : dbs) (o : dop) : dbs * dres :=
  match o with
  | DIns v => (mkDb (d_items s ++ [(d_next s, v)]) (d_next s + 1), RId (d_next s))
  | DGet i => (s, RVal (lookup (d_items s) i))
  | DUpd i v => match lookup (d_items s) i with
                | Some _ => (mkDb (set_val (d_items s) i v) (d_next s), RBool true)
                | None => (s, RBool false)
                end
  | DRemId i => match lookup (d_items s) i with
                | Some _ => (mkDb (del_id (d_items s) i) (d_next s), RBool true)
                | None => (s, RBool false)
                end
  | DRemVal v => (mkDb (del_val (d_items s) v) (d_next s), RBool (has_val (d_items s) v))
  | DExists i => (s, RBool (match lookup (d_items s) i with Some _ => true | None => false end))
  | DAll => (s, RAll (d_items s))
  end.

Fixpoint db_run (s : dbs) (ops : list dop) : dbs * list dres :=
  match ops with
  | [] => (s, [])
  | o :: r => let '(s1, x) := db_step s o in let '(s2, xs) := db_run s1 r in (s2, x :: xs)
  end.

(* number of successful deletions of id i in a run *)
Fixpoint succ_dels (i : Z) (s : dbs) (ops : list dop) : nat :=
  match ops with
  | [] => 0%nat
  | o :: r => let '(s1, x) := db_step s o in
              Nat.add (match o, x with DRemId j, RBool true => if j =? i then 1%nat else 0%nat | _, _ => 0%nat end) (succ_dels i s1 r)
  end.

(* a method summary that is ONE critical section of lock l (or touches nothing at all) *)
Fixpoint closes_at_end (depth : nat) (p : list action) : bool :=
  match p with
  | [] => false
  | Acq _ :: r => closes_at_end (S depth) r
  | Rel _ :: r => match depth with
                  | O => false
                  | S O => match r with [] => true | _ => false end
                  | S d => closes_at_end d r
                  end
  | _ :: r => closes_at_end depth r
  end.
Definition one_section (l : Z) (p : list action) : bool :=
  match p with [] => true | Acq l' :: r => (l' =? l) && closes_at_end 1 r | _ => false end.

(* a method summary performs a given access somewhere *)
Definition act_eqb (a b : action) : bool :=
  match a, b with
  | Acq x, Acq y | Rel x, Rel y | Rd x, Rd y | Wr x, Wr y => x =? y
  | _, _ => false
  end.
Definition touches (a : action) (m : list action) : bool := existsb (act_eqb a) m.

Definition db_init : dbs := mkDb [] 0.
Definition keys (s : dbs) : list Z := map fst (d_items s).
Definition inserted_ids (rs : list dres) : list Z := flat_map (fun r => match r with RId i => [i] | _ => [] end) rs.

(* protection policy of the LDM classes (numbers as in Gen/LdmLockSummary.v; checked in the proofs file) *)
Definition ldm_write (f : Z) : option Z :=
  if (f =? 0) || (f =? 1) then Some 0                          (* database, _next_id : DictionaryDataBase._lock *)
  else if f =? 3 then Some 2                                   (* last_trash_collection_time : reactive lock *)
  else if (f =? 4) || (f =? 5) || (f =? 6) || (f =? 7) then Some 3   (* registries, subscriptions : LDMService._lock *)
  else if f =? 8 then Some 5                                   (* last_subscription_time : reactive lock *)
  else None.                                                   (* new_data_recieved_flag: NOT protected (observation) *)
(* the two reactive time stamps are read without their lock (a stale read only delays a maintenance pass) *)
Definition ldm_read (f : Z) : option Z := if (f =? 3) || (f =? 8) then None else ldm_write f.
Definition ldm_policy : policy := mkPolicy ldm_read ldm_write.
(* the database lock is innermost; the state lock of the service is OUTERMOST: an IF.LDM.3 add holds it around the
   insertion (maintenance lock, then database lock) so that "provider registered? then insert" is one step with respect
   to a deregistration; nothing below the service (maintenance, database) ever takes the service lock *)
Definition ldm_rank (l : Z) : Z := if l =? 0 then 2 else if l =? 3 then 0 else 1.
Definition ldm_reent (l : Z) : bool := (l =? 0) || (l =? 3).    (* the two RLocks *)

(* ---- registries and subscriptions of the service (critical sections of LDMService._lock) ---- *)
Definition smem (a : Z) (l : list Z) : bool := existsb (fun x => x =? a) l.
Definition sadd (a : Z) (l : list Z) : list Z := if smem a l then l else l ++ [a].
Definition sdel (a : Z) (l : list Z) : list Z := filter (fun x => negb (x =? a)) l.

Record ldm := mkLdm { l_db : dbs; l_prov : list Z; l_cons : list Z; l_subs : list (Z * Z);   (* subs: (token, owner) *)
                      l_gc : list (Z * Z) }.   (* maintenance passes in progress: (pass, value seen expired) *)

Inductive lop :=
| LDb (o : dop)
| LPReg (a : Z) | LPDereg (a : Z) | LPSnap
| LCReg (a : Z) | LCDereg (a : Z) | LCSnap          (* deregistration of a consumer ends its subscriptions *)
| LSAdd (s a : Z)                                   (* subscribe: only a registered consumer *)
| LSDel (s a : Z)                                   (* unsubscribe: registered consumer, existing subscription *)
| LSSnap
| LAdd (v a : Z)                                    (* IF.LDM.3 add: only a registered provider; -1 otherwise *)
| LQuery (a : Z)                                    (* IF.LDM.4 request: only a registered consumer; empty otherwise *)
| LGcSnap (g i : Z)                                 (* maintenance pass g reads the store: it sees the value of the expired object i *)
| LGcRem (g : Z).                                   (* ... and later removes, BY VALUE, what it saw *)

Inductive lres := LR (r : dres) | LSet (l : list Z).

Definition sub_has (s : Z) (l : list (Z * Z)) : bool := existsb (fun x => fst x =? s) l.

Definition with_db (st : ldm) (d : dbs) : ldm := mkLdm d (l_prov st) (l_cons st) (l_subs st) (l_gc st).
Definition with_prov (st : ldm) (l : list Z) : ldm := mkLdm (l_db st) l (l_cons st) (l_subs st) (l_gc st).
Definition with_cons (st : ldm) (l : list Z) (su : list (Z * Z)) : ldm := mkLdm (l_db st) (l_prov st) l su (l_gc st).
Definition with_subs (st : ldm) (su : list (Z * Z)) : ldm := mkLdm (l_db st) (l_prov st) (l_cons st) su (l_gc st).
Definition with_gc (st : ldm) (g : list (Z * Z)) : ldm := mkLdm (l_db st) (l_prov st) (l_cons st) (l_subs st) g.

Definition ldm_step (st : ldm) (o : lop) : ldm * lres :=
  match o with
  | LDb d => let '(db', r) := db_step (l_db st) d in (with_db st db', LR r)
  | LPReg a => (with_prov st (sadd a (l_prov st)), LR (RBool true))
  | LPDereg a => (with_prov st (sdel a (l_prov st)), LR (RBool (smem a (l_prov st))))
  | LPSnap => (st, LSet (l_prov st))
  | LCReg a => (with_cons st (sadd a (l_cons st)) (l_subs st), LR (RBool true))
  | LCDereg a => (with_cons st (sdel a (l_cons st)) (filter (fun x => negb (snd x =? a)) (l_subs st)),
                  LR (RBool (smem a (l_cons st))))
  | LCSnap => (st, LSet (l_cons st))
  | LSAdd s a => if smem a (l_cons st) then (with_subs st (l_subs st ++ [(s, a)]), LR (RBool true))
                 else (st, LR (RBool false))
  | LSDel s a => if smem a (l_cons st) && sub_has s (l_subs st)
                 then (with_subs st (filter (fun x => negb (fst x =? s)) (l_subs st)), LR (RBool true))
                 else (st, LR (RBool false))
  | LSSnap => (st, LSet (map fst (l_subs st)))
  | LAdd v a => if smem a (l_prov st)
                then let '(db', r) := db_step (l_db st) (DIns v) in (with_db st db', LR r)
                else (st, LR (RId (-1)))
  | LQuery a => if smem a (l_cons st) then (st, LR (RAll (d_items (l_db st)))) else (st, LR (RAll []))
  | LGcSnap g i => match lookup (d_items (l_db st)) i with
                   | Some v => (with_gc st ((g, v) :: l_gc st), LR (RBool true))
                   | None => (st, LR (RBool false))
                   end
  | LGcRem g => match lookup (l_gc st) g with
                | Some v => let '(db', r) := db_step (l_db st) (DRemVal v) in (with_db st db', LR r)
                | None => (st, LR (RBool false))
                end
  end.

Fixpoint ldm_run (st : ldm) (ops : list lop) : ldm * list lres :=
  match ops with
  | [] => (st, [])
  | o :: r => let '(s1, x) := ldm_step st o in let '(s2, xs) := ldm_run s1 r in (s2, x :: xs)
  end.
Definition ldm_init : ldm := mkLdm db_init [] [] [] [].

(* the last registration operation naming a decides membership *)
Fixpoint last_preg (a : Z) (ops : list lop) (acc : option bool) : option bool :=
  match ops with
  | [] => acc
  | LPReg b :: r => last_preg a r (if b =? a then Some true else acc)
  | LPDereg b :: r => last_preg a r (if b =? a then Some false else acc)
  | _ :: r => last_preg a r acc
  end.
Fixpoint last_creg (a : Z) (ops : list lop) (acc : option bool) : option bool :=
  match ops with
  | [] => acc
  | LCReg b :: r => last_creg a r (if b =? a then Some true else acc)
  | LCDereg b :: r => last_creg a r (if b =? a then Some false else acc)
  | _ :: r => last_creg a r acc
  end.

(* ---- a QUIESCENT attendance pass (attend_subscriptions while no other operation is in flight) ----
   It serves exactly the stored subscriptions - every subscription of this check matches every stored object - provided
   the store holds an object at all, and changes nothing of the specified state.  What a pass serves is therefore a
   function of the state: state that an implementation keeps beside it (the last-checked map) must never decide it. *)
Definition served (st : ldm) : list Z :=
  match d_items (l_db st) with [] => [] | _ :: _ => map fst (l_subs st) end.

(* ---- interface for the correspondence check (linearizability against this sequential specification) ----
   dispatch 1 [ops as triples code a b] = results flattened, then 99, next id, n items, (id value)*, n prov, prov*,
   n cons, cons*, n subs, (token owner)*.
   codes: 1 ins v | 2 get i | 3 upd i v | 4 remid i | 5 remval v | 6 exists i | 7 all | 8 preg a | 9 pdereg a | 10 psnap
          | 11 creg a | 12 cdereg a | 13 csnap | 14 sadd s a | 15 sdel s a | 16 ssnap | 17 add v provider | 18 query consumer | 19 gcsnap pass id | 20 gcrem pass.
   result kinds: 1 id | 2 value (payload -1 = none) | 3 bool | 4 n (id v)*n | 5 n x*n
   dispatch 2 [ops] = the output of dispatch 1, then 98, n, the n subscription tokens a quiescent attendance pass serves
   in the final state. *)
Fixpoint dec_ops (l : list Z) (fuel : nat) : list lop :=
  match fuel with
  | O => []
  | S f => match l with
           | c :: a :: b :: r =>
               (if c =? 1 then [LDb (DIns a)] else if c =? 2 then [LDb (DGet a)] else if c =? 3 then [LDb (DUpd a b)]
                else if c =? 4 then [LDb (DRemId a)] else if c =? 5 then [LDb (DRemVal a)] else if c =? 6 then [LDb (DExists a)]
                else if c =? 7 then [LDb DAll] else if c =? 8 then [LPReg a] else if c =? 9 then [LPDereg a]
                else if c =? 10 then [LPSnap] else if c =? 11 then [LCReg a] else if c =? 12 then [LCDereg a]
                else if c =? 13 then [LCSnap] else if c =? 14 then [LSAdd a b] else if c =? 15 then [LSDel a b]
                else if c =? 16 then [LSSnap] else if c =? 17 then [LAdd a b] else if c =? 18 then [LQuery a]
                else if c =? 19 then [LGcSnap a b] else if c =? 20 then [LGcRem a] else []) ++ dec_ops r f
           | _ => []
           end
  end.
Definition enc_items (l : list (Z * Z)) : list Z := flat_map (fun kv => [fst kv; snd kv]) l.
Definition enc_res (r : lres) : list Z :=
  match r with
  | LR (RId i) => [1; i]
  | LR (RVal (Some v)) => [2; v]
  | LR (RVal None) => [2; -1]
  | LR (RBool b) => [3; if b then 1 else 0]
  | LR (RAll l) => [4; Z.of_nat (length l)] ++ enc_items l
  | LSet l => [5; Z.of_nat (length l)] ++ l
  end.
Definition dispatch (cmd : Z) (args : list Z) : list Z :=
  if cmd =? 1 then
    let '(s, rs) := ldm_run ldm_init (dec_ops args (length args)) in
    flat_map enc_res rs ++ [99; d_next (l_db s); Z.of_nat (length (d_items (l_db s)))] ++ enc_items (d_items (l_db s))
      ++ [Z.of_nat (length (l_prov s))] ++ l_prov s ++ [Z.of_nat (length (l_cons s))] ++ l_cons s
      ++ [Z.of_nat (length (l_subs s))] ++ enc_items (l_subs s)
  else if cmd =? 2 then
    let '(s, rs) := ldm_run ldm_init (dec_ops args (length args)) in
    flat_map enc_res rs ++ [99; d_next (l_db s); Z.of_nat (length (d_items (l_db s)))] ++ enc_items (d_items (l_db s))
      ++ [Z.of_nat (length (l_prov s))] ++ l_prov s ++ [Z.of_nat (length (l_cons s))] ++ l_cons s
      ++ [Z.of_nat (length (l_subs s))] ++ enc_items (l_subs s)
      ++ [98; Z.of_nat (length (served s))] ++ served s
  else [].
