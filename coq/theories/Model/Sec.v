(* Model of flexstack.security (certificate.py, certificate_library.py,
   verify_service.py, sign_service.py) and of the security branch of
   flexstack.geonet.router (process_basic_header / process_security_header).
   Definitions only.

   Cryptography is an oracle: the model is parameterised (Section variables) by
     hash8   : certificate -> HashedId8 (as an integer)
     sig_ok  : key -> to-be-signed bytes -> signature -> bool   (ECDSA verify)
     sign    : key -> to-be-signed bytes -> signature           (ECDSA sign)
     enc_tbs : ToBeSignedData -> bytes                          (OER encoder)
   Keys, byte strings and signatures are integer identifiers; 0 is the
   identifier of "not in the supported format" (compressed key, rSig other
   than x-only, ...). HashedId8 values are the 64-bit integers themselves, so
   that HashedId3 is [d mod 2^24] exactly as the code's [hashedid8[-3:]].
   The model describes the code after the fix: commits recorded in
   known_findings/C09.json and C05.json. *)
From FlexVerif Require Import Base.Prelude.

(* ---------- certificates -------------------------------------------------- *)
Inductive issuer_ref :=
| IssSelf                  (* ("self", "sha256") *)
| IssSelfOther             (* ("self", other hash algorithm) *)
| IssDigest (d : Z)        (* ("sha256AndDigest", d) *)
| IssDigestOther (d : Z).  (* ("sha384AndDigest", d) *)

Inductive subj_perm := PAll | PExplicit (l : list Z).
Record perm_entry := mkPE { pe_sub : subj_perm; pe_chain : Z (* minChainLength *) }.

Record cert := mkCert {
  cid : Z;                          (* identity of the OER encoding (harness bookkeeping only) *)
  cdig : Z;                         (* HashedId8 computed by the harness; the extracted model uses it as hash8 *)
  cissuer : issuer_ref;
  cidnone : bool;                   (* toBeSigned.id is the choice none *)
  capp : option (list Z);           (* PSIDs of appPermissions; None = field absent *)
  cissue : option (list perm_entry);(* certIssuePermissions; None = field absent *)
  cstart : Z; cend : Z;             (* validity period, microseconds since the ITS epoch *)
  ckey : Z;                         (* verification key id; 0 = not an uncompressed NIST P-256 point *)
  csig : Z;                         (* signature id; 0 = not (ecdsaNistP256Signature, x-only) *)
  ctbs : Z;                         (* id of the OER bytes of ToBeSignedCertificate *)
  ctype_ok : bool;                  (* version is 3 and type/verifyKeyIndicator agree (first tests of Certificate.verify) *)
  calg_ok : bool                    (* signature is ecdsaNistP256Signature and key is verificationKey/ecdsaNistP256 *)
}.

(* ---------- secured messages --------------------------------------------- *)
Inductive signer := SDigest (d : Z) | SCerts (cs : list cert) | SOther.

Record tbsdata := mkTbs {
  t_psid : Z;
  t_gen : option Z;                 (* generationTime, microseconds *)
  t_genloc : bool;                  (* generationLocation present *)
  t_learn : bool;                   (* p2pcdLearningRequest present *)
  t_crl : bool;                     (* missingCrlIdentifier present *)
  t_expiry : bool;
  t_enckey : bool;
  t_inline : option (list Z);       (* inlineP2pcdRequest: HashedId3 list *)
  t_reqcert : option cert;          (* requestedCertificate *)
  t_payload : Z                     (* id of payload.data.content unsecuredData bytes; 0 = absent *)
}.

Record msg := mkMsg {
  m_ok : bool;                      (* decodes as EtsiTs103097Data with content signedData *)
  m_signer : signer;
  m_tbsd : tbsdata;
  m_tbs : Z;                        (* id of the OER bytes of tbsData, as re-encoded by the verifier *)
  m_sig : Z                         (* signature id; 0 = unsupported format *)
}.

(* ---------- stores and station state ------------------------------------- *)
(* A dictionary value is the Certificate object: its contents and the issuer
   object attached to it by whoever created it. *)
Record entry := mkEntry { e_cert : cert; e_iss : option cert }.

Record store := mkStore {
  roots : list entry; aas : list entry; ats : list entry; owns : list entry }.

Record sstate := mkSS {
  unknown : list Z;                 (* SignService.unknown_ats (HashedId3) *)
  requested : list Z;               (* SignService.requested_ats *)
  last_full : Z;                    (* cam_handler.last_signer_full_certificate_time, in clock ticks *)
  req_own : bool                    (* cam_handler.requested_own_certificate *)
}.

Record station := mkStation { st_store : store; st_sign : sstate }.

Definition empty_store : store := mkStore [] [] [] [].
Definition init_station : station := mkStation empty_store (mkSS [] [] 0 false).

(* ReportVerify values *)
Definition R_SUCCESS := 0.
Definition R_FALSE_SIGNATURE := 1.
Definition R_INVALID_CERTIFICATE := 2.
Definition R_INCONSISTENT_CHAIN := 4.
Definition R_INVALID_TIMESTAMP := 5.
Definition R_SIGNER_NOT_FOUND := 9.
Definition R_UNSUPPORTED_SIGNER := 10.
Definition R_INCOMPATIBLE_PROTOCOL := 11.

(* The virtual clock hands TimeService.time() doubles that are integer multiples
   of 2^-22 s (all doubles in [2^30, 2^31) are); one second in those ticks. *)
Definition one_second : Z := 4194304.

Definition zmem (x : Z) (l : list Z) : bool := existsb (Z.eqb x) l.
Definition h3 (d : Z) : Z := d mod 16777216.

Fixpoint remove_first (x : Z) (l : list Z) : list Z :=
  match l with
  | [] => []
  | y :: r => if x =? y then r else y :: remove_first x r
  end.

Inductive res :=
| RUnit
| RCrash                                   (* an exception leaves the API *)
| RChain (o : option entry)                (* verify_sequence_of_certificates *)
| RVerify (code certid payload : Z)        (* SNVERIFYConfirm *)
| RCert (c : cert) (signed : bool)         (* issue_certificate *)
| RMsg (m : msg)                           (* a signed message *)
| RDeliver (p : Z)                         (* process_common_header is entered with bytes p *)
| RDrop.

Inductive op :=
| OAddRoot (c : cert) (io : option cert)
| OAddAA (c : cert) (io : option cert)
| OAddAT (c : cert) (io : option cert)
| OAddOwn (c : cert) (io : option cert)
| OVerifyChain (cs : list cert)
| OVerify (m : msg)
| OIssue (req iss : cert) (ndig ntbs nsig : Z)
| OSignCam (now psid gen payload : Z)
| OSignDenm (psid gen payload : Z)
| OSignOther (psid gen payload : Z)
| ORx (sec_enabled has_vs version_ok : bool) (nh : Z) (body : Z) (m : msg).

Section Oracles.
Variable hash8 : cert -> Z.
Variable sig_ok : Z -> Z -> Z -> bool.
Variable sign : Z -> Z -> Z.
Variable enc_tbs : tbsdata -> Z.

(* certificate signatures: every exception of the backend is caught -> False *)
Definition sig_valid (k t s : Z) : bool := (0 <? k) && (0 <? s) && sig_ok k t s.

(* ---------- Certificate ---------------------------------------------------- *)
Definition is_all (pe : perm_entry) : bool :=
  match pe_sub pe with PAll => true | PExplicit _ => false end.

Definition has_all (c : cert) : bool :=
  match cissue c with Some l => existsb is_all l | None => false end.

Definition explicit_psids (l : list perm_entry) : list Z :=
  flat_map (fun pe => match pe_sub pe with PExplicit ps => ps | PAll => [] end) l.

Definition issue_psids (c : cert) : list Z :=
  match cissue c with Some l => explicit_psids l | None => [] end.

(* get_list_of_needed_permissions: KeyError (None) when appPermissions is absent *)
Definition needed (c : cert) : option (list Z) :=
  match capp c with Some a => Some (issue_psids c ++ a) | None => None end.

Definition subset (a b : list Z) : bool := forallb (fun p => zmem p b) a.

(* check_issuer_has_subject_permissions; None = exception *)
Definition perms_ok (c i : cert) : option bool :=
  if has_all i then Some true
  else if has_all c then Some false
  else match needed c with
       | Some n => Some (subset n (issue_psids i))
       | None => None
       end.

(* Certificate.verify(backend) of an object with contents c and issuer object io *)
Definition cert_verify (c : cert) (io : option cert) : option bool :=
  if negb (ctype_ok c) then Some false
  else match io, cissuer c with
       | Some i, IssDigest d =>
           if d =? hash8 i then
             match perms_ok c i with
             | None => None
             | Some false => Some false
             | Some true => Some (calg_ok c && sig_valid (ckey i) (ctbs c) (csig c))
             end
           else Some false
       | _, IssSelf => Some (calg_ok c && sig_valid (ckey c) (ctbs c) (csig c))
       | _, _ => Some false
       end.

Definition is_digest_issuer (c : cert) : bool :=
  match cissuer c with IssDigest _ | IssDigestOther _ => true | _ => false end.

Definition is_at (c : cert) : bool :=
  is_digest_issuer c && cidnone c &&
  match cissue c with None => true | Some _ => false end &&
  match capp c with Some _ => true | None => false end.

Definition authorizes (c : cert) (psid : Z) : bool :=
  match capp c with Some a => zmem psid a | None => false end.

Definition valid_at (c : cert) (t : Z) : bool := (cstart c <=? t) && (t <=? cend c).

(* ---------- CertificateLibrary -------------------------------------------- *)
Definition key_of (e : entry) : Z := hash8 (e_cert e).
Definition find_key (d : Z) (l : list entry) : option entry :=
  find (fun e => key_of e =? d) l.
Definition mem_key (d : Z) (l : list entry) : bool :=
  existsb (fun e => key_of e =? d) l.
(* dict[key] = value : overwrite in place, else append (insertion order) *)
Definition put (e : entry) (l : list entry) : list entry :=
  if mem_key (key_of e) l
  then map (fun x => if key_of x =? key_of e then e else x) l
  else l ++ [e].

Inductive lookup_res := LErr | LNone | LFound (e : entry).

Definition get_issuer (st : store) (c : cert) : lookup_res :=
  match cissuer c with
  | IssSelf | IssSelfOther => LNone
  | IssDigest d =>
      match find_key d (roots st) with
      | Some e => LFound e
      | None => match find_key d (aas st) with Some e => LFound e | None => LNone end
      end
  | IssDigestOther _ => LErr
  end.

Definition set_roots (st : store) l := mkStore l (aas st) (ats st) (owns st).
Definition set_aas (st : store) l := mkStore (roots st) l (ats st) (owns st).
Definition set_ats (st : store) l := mkStore (roots st) (aas st) l (owns st).
Definition set_owns (st : store) l := mkStore (roots st) (aas st) (ats st) l.

Definition add_root (st : store) (c : cert) (io : option cert) : store * bool (* crashed *) :=
  match cert_verify c io with
  | None => (st, true)
  | Some true => (set_roots st (put (mkEntry c io) (roots st)), false)
  | Some false => (st, false)
  end.

Definition add_aa (st : store) (c : cert) (io : option cert) : store * bool :=
  if mem_key (hash8 c) (aas st) then (st, false)
  else match get_issuer st c with
       | LErr => (st, true)
       | LNone => (st, false)
       | LFound _ =>
           match cert_verify c io with
           | None => (st, true)
           | Some true => (set_aas st (aas st ++ [mkEntry c io]), false)
           | Some false => (st, false)
           end
       end.

Definition add_at (st : store) (c : cert) (io : option cert) : store * bool :=
  if mem_key (hash8 c) (ats st) then (st, false)
  else match get_issuer st c with
       | LErr => (st, true)
       | LNone => (st, false)
       | LFound _ =>
           match cert_verify c io with
           | None => (st, true)
           | Some true => (set_ats st (ats st ++ [mkEntry c io]), false)
           | Some false => (st, false)
           end
       end.

Definition add_own (st : store) (c : cert) (io : option cert) : store * bool :=
  match get_issuer st c with
  | LErr => (st, true)
  | LNone => (st, false)
  | LFound _ =>
      match cert_verify c io with
      | None => (st, true)
      | Some true => (set_owns st (put (mkEntry c io) (owns st)), false)
      | Some false => (st, false)
      end
  end.

Inductive chain_res := CErr | CNone | CSome (e : entry).

(* verify_sequence_of_certificates with one certificate *)
Definition verify_chain1 (st : store) (c : cert) : store * chain_res :=
  match find_key (hash8 c) (ats st) with
  | Some e => (st, CSome e)
  | None =>
      match get_issuer st c with
      | LErr => (st, CErr)
      | LNone => (st, CNone)
      | LFound ie =>
          let io := Some (e_cert ie) in
          match cert_verify c io with
          | None => (st, CErr)
          | Some false => (st, CNone)
          | Some true =>
              let '(st1, crashed) := add_at st c io in
              if crashed then (st1, CErr) else (st1, CSome (mkEntry c io))
          end
      end
  end.

(* ... with two certificates: [ticket; authority], authority issued by a known root *)
Definition verify_chain2 (st : store) (c a : cert) : store * chain_res :=
  match cissuer a with
  | IssDigestOther _ => (st, CErr)
  | IssSelf | IssSelfOther => (st, CNone)
  | IssDigest d =>
      match find_key d (roots st) with
      | None => (st, CNone)
      | Some r =>
          let aio := Some (e_cert r) in
          match cert_verify a aio with
          | None => (st, CErr)
          | Some false => (st, CNone)
          | Some true =>
              let '(st1, crashed) := add_aa st a aio in
              if crashed then (st1, CErr)
              else match cert_verify c (Some a) with
                   | None => (st1, CErr)
                   | Some false => (st1, CNone)
                   | Some true =>
                       let '(st2, crashed2) := add_at st1 c (Some a) in
                       if crashed2 then (st2, CErr) else (st2, CSome (mkEntry c (Some a)))
                   end
          end
      end
  end.

Definition verify_chain (st : store) (cs : list cert) : store * chain_res :=
  match cs with
  | [c] => verify_chain1 st c
  | [c; a] => verify_chain2 st c a
  | [c; a; r] => if mem_key (hash8 r) (roots st) then verify_chain2 st c a else (st, CNone)
  | _ => (st, CNone)
  end.

(* get_ca_certificate_by_hashedid3 *)
Definition ca_by_h3 (st : store) (h : Z) : option entry :=
  match find (fun e => h3 (key_of e) =? h) (aas st) with
  | Some e => Some e
  | None => find (fun e => h3 (key_of e) =? h) (roots st)
  end.

(* ---------- SignService notifications ------------------------------------- *)
Definition notify_unknown (ss : sstate) (d : Z) : sstate :=
  mkSS (if zmem (h3 d) (unknown ss) then unknown ss else unknown ss ++ [h3 d])
       (requested ss) (last_full ss) true.

(* the ticket has just been learnt: stop asking for it (fix D18) *)
Definition notify_known (ss : sstate) (d : Z) : sstate :=
  mkSS (remove_first (h3 d) (unknown ss)) (requested ss) (last_full ss) (req_own ss).

Definition notify_inline (st : store) (ss : sstate) (l : list Z) : sstate :=
  let own_asked := existsb (fun e => zmem (h3 (key_of e)) l) (owns st) in
  let req := fold_left (fun acc h =>
               match ca_by_h3 st h with
               | Some _ => if zmem h acc then acc else acc ++ [h]
               | None => acc
               end) l (requested ss) in
  mkSS (unknown ss) req (last_full ss) (req_own ss || own_asked).

Definition notify_received (sn : station) (c : cert) : station * bool :=
  let h := h3 (hash8 c) in
  let ss := st_sign sn in
  let ss' := mkSS (remove_first h (unknown ss)) (remove_first h (requested ss)) (last_full ss) (req_own ss) in
  let '(st', crashed) := add_aa (st_store sn) c None in
  (mkStation st' ss', crashed).

(* ---------- VerifyService.verify ------------------------------------------ *)
Definition denm_forbidden (t : tbsdata) : bool :=
  t_expiry t || t_enckey t ||
  match t_inline t with Some _ => true | None => false end ||
  match t_reqcert t with Some _ => true | None => false end.

(* header and authorisation tests once the ticket c is accepted; None = go on *)
Definition header_checks (c : cert) (t : tbsdata) : option res :=
  match t_gen t with
  | None => Some (RVerify R_INVALID_TIMESTAMP (hash8 c) 0)
  | Some g =>
      if t_learn t || t_crl t then Some (RVerify R_INCOMPATIBLE_PROTOCOL (hash8 c) 0)
      else if (t_psid t =? 37) && (negb (t_genloc t) || denm_forbidden t)
      then Some (RVerify R_INCOMPATIBLE_PROTOCOL (hash8 c) 0)
      else if negb (authorizes c (t_psid t)) then Some (RVerify R_INVALID_CERTIFICATE (hash8 c) 0)
      else if negb (valid_at c g) then Some (RVerify R_INVALID_TIMESTAMP (hash8 c) 0)
      else None
  end.

Definition after_success (sn : station) (c : cert) (t : tbsdata) : station * res :=
  let sn1 := match t_inline t with
             | Some l => mkStation (st_store sn) (notify_inline (st_store sn) (st_sign sn) l)
             | None => sn
             end in
  match t_reqcert t with
  | Some rc =>
      let '(sn2, crashed) := notify_received sn1 rc in
      if crashed then (sn2, RCrash) else (sn2, RVerify R_SUCCESS (hash8 c) (t_payload t))
  | None => (sn1, RVerify R_SUCCESS (hash8 c) (t_payload t))
  end.

(* the part of verify after the authorization ticket object e has been found *)
Definition verify_with_ticket (sn : station) (e : entry) (m : msg) : station * res :=
  let c := e_cert e in
  match cert_verify c (e_iss e) with
  | None => (sn, RCrash)
  | Some false => (sn, RVerify R_INVALID_CERTIFICATE 0 0)
  | Some true =>
      if negb (is_at c) then (sn, RVerify R_INVALID_CERTIFICATE 0 0)
      else match header_checks c (m_tbsd m) with
           | Some r => (sn, r)
           | None =>
               if (m_sig m =? 0) || (ckey c =? 0) then (sn, RCrash)   (* ValueError: format not supported *)
               else if sig_ok (ckey c) (m_tbs m) (m_sig m) then
                 if t_payload (m_tbsd m) =? 0 then (sn, RCrash)
                 else after_success sn c (m_tbsd m)
               else (sn, RVerify R_FALSE_SIGNATURE (hash8 c) 0)
           end
  end.

Definition unknown_issuer_notice (ss : sstate) (c : cert) : sstate :=
  match cissuer c with
  | IssDigest d | IssDigestOther d => notify_unknown ss d
  | _ => ss
  end.

Definition verify_msg (sn : station) (m : msg) : station * res :=
  if negb (m_ok m) then (sn, RCrash)
  else
    let t := m_tbsd m in
    match m_signer m with
    | SCerts cs =>
        match cs with
        | [c0] =>
            let '(st1, cr) := verify_chain (st_store sn) [c0] in
            match cr with
            | CErr => (mkStation st1 (st_sign sn), RCrash)
            | CNone => (mkStation st1 (unknown_issuer_notice (st_sign sn) c0),
                        RVerify R_INCONSISTENT_CHAIN 0 0)
            | CSome e =>
                verify_with_ticket (mkStation st1 (notify_known (st_sign sn) (key_of e))) e m
            end
        | _ => (sn, RVerify R_UNSUPPORTED_SIGNER 0 0)
        end
    | SDigest d =>
        if t_psid t =? 37 then (sn, RVerify R_UNSUPPORTED_SIGNER 0 0)
        else match find_key d (ats (st_store sn)) with
             | None => (mkStation (st_store sn) (notify_unknown (st_sign sn) d),
                        RVerify R_SIGNER_NOT_FOUND 0 0)
             | Some e => verify_with_ticket sn e m
             end
    | SOther =>
        if t_psid t =? 37 then (sn, RVerify R_UNSUPPORTED_SIGNER 0 0) else (sn, RCrash)
    end.

(* ---------- issuing API ---------------------------------------------------- *)
Definition chain_budget_ok (i : cert) : option bool :=
  match cissue i with
  | Some l => Some (forallb (fun pe => 1 <=? pe_chain pe) l)
  | None => None      (* KeyError *)
  end.

Definition last_all_chain (l : list perm_entry) : Z :=
  fold_left (fun acc pe => if is_all pe then pe_chain pe else acc) l 0.

(* set_chain_length_issue_permissions; None = exception *)
Definition set_chain (c i : cert) : option (option (list perm_entry)) :=
  match cissue c with
  | None => Some None
  | Some pes =>
      let wanted := explicit_psids pes in
      let step1 :=
        if has_all i then
          match cissue i with
          | Some il => Some (map (fun pe => mkPE (pe_sub pe) (last_all_chain il)) pes)
          | None => None
          end
        else match cissue i with
             | Some il =>
                 Some (flat_map (fun ipe =>
                         match pe_sub ipe with
                         | PExplicit ps => flat_map (fun p => if zmem p wanted then [ipe] else []) ps
                         | PAll => []
                         end) il)
             | None => None
             end in
      match step1 with
      | None => None
      | Some l => Some (Some (filter (fun pe => 1 <=? pe_chain pe)
                                     (map (fun pe => mkPE (pe_sub pe) (pe_chain pe - 1)) l)))
      end
  end.

(* OwnCertificate.issue_certificate(request) by the holder of certificate i.
   ndig/ntbs/nsig: identifiers of the issued certificate's digest, to-be-signed
   bytes and signature (outputs of the encoder and of ECDSA, given by the harness). *)
Definition issue (req i : cert) (ndig ntbs nsig : Z) : res :=
  match cissuer req with
  | IssSelf =>
      RCert (mkCert (cid req) ndig IssSelf (cidnone req) (capp req) (cissue req) (cstart req) (cend req)
                    (ckey req) nsig ntbs (ctype_ok req) (calg_ok req)) true
  | _ =>
      match perms_ok req i with
      | None => RCrash
      | Some false => RCert req false
      | Some true =>
          match chain_budget_ok i with
          | None => RCrash
          | Some false => RCert req false
          | Some true =>
              match set_chain req i with
              | None => RCrash
              | Some iss' =>
                  RCert (mkCert (cid req) ndig (IssDigest (hash8 i)) (cidnone req) (capp req) iss'
                                (cstart req) (cend req) (ckey req) nsig ntbs (ctype_ok req) (calg_ok req)) true
              end
          end
      end
  end.

(* ---------- SignService ---------------------------------------------------- *)
Definition present_at (st : store) (psid : Z) : option entry :=
  find (fun e => authorizes (e_cert e) psid) (owns st).

Definition mk_signed (c : cert) (sg : signer) (t : tbsdata) : msg :=
  mkMsg true sg t (enc_tbs t) (sign (ckey c) (enc_tbs t)).

(* CooperativeAwarenessMessageSecurityHandler.set_up_signer *)
Definition full_cert_due (ss : sstate) (now : Z) : bool :=
  (one_second <? now - last_full ss) || req_own ss.

Definition sign_cam (sn : station) (now psid gen payload : Z) : station * res :=
  let ss := st_sign sn in
  let st := st_store sn in
  let inline := match unknown ss with [] => None | l => Some l end in
  let '(req', rc, crashed) :=
    match requested ss with
    | [] => ([], None, false)
    | h :: r => match ca_by_h3 st h with
                | Some e => (r, Some (e_cert e), false)
                | None => (r, None, true)
                end
    end in
  let ss1 := mkSS (unknown ss) req' (last_full ss) (req_own ss) in
  if crashed then (mkStation st ss1, RCrash)
  else match present_at st psid with
       | None => (mkStation st ss1, RCrash)
       | Some e =>
           let c := e_cert e in
           let t := mkTbs psid (Some gen) false false false false false inline rc payload in
           if full_cert_due ss now
           then (mkStation st (mkSS (unknown ss) req' now false), RMsg (mk_signed c (SCerts [c]) t))
           else (mkStation st ss1, RMsg (mk_signed c (SDigest (hash8 c)) t))
       end.

Definition sign_denm (sn : station) (psid gen payload : Z) : station * res :=
  match present_at (st_store sn) psid with
  | None => (sn, RCrash)
  | Some e =>
      let c := e_cert e in
      (sn, RMsg (mk_signed c (SCerts [c]) (mkTbs psid (Some gen) true false false false false None None payload)))
  end.

Definition sign_other (sn : station) (psid gen payload : Z) : station * res :=
  match present_at (st_store sn) psid with
  | None => (sn, RCrash)
  | Some e =>
      let c := e_cert e in
      (sn, RMsg (mk_signed c (SDigest (hash8 c)) (mkTbs psid (Some gen) false false false false false None None payload)))
  end.

(* ---------- router: process_basic_header / process_security_header -------- *)
(* nh: BasicNH (0 ANY, 1 COMMON_HEADER, 2 SECURED_PACKET); body: id of the bytes
   after the basic header (used when they are handed on unsecured). *)
Definition rx (sn : station) (sec_enabled has_vs version_ok : bool) (nh body : Z) (m : msg) : station * res :=
  (* Router.gn_data_indicate discards a frame whose processing raises (repository fix dce9f7f): an unknown protocol
     version, a next-header value other than common / secured, or an exception inside the verification service all end
     in a drop - nothing is delivered and no exception leaves the receive path *)
  if negb version_ok then (sn, RDrop)
  else if nh =? 1 then (if sec_enabled then (sn, RDrop) else (sn, RDeliver body))
  else if nh =? 2 then
    (if negb has_vs then (sn, RDrop)
     else match verify_msg sn m with
          | (sn', RVerify code _ p) => if code =? R_SUCCESS then (sn', RDeliver p) else (sn', RDrop)
          | (sn', _) => (sn', RDrop)
          end)
  else (sn, RDrop).

(* ---------- one API call ---------------------------------------------------- *)
Definition lift (sn : station) (r : store * bool) : station * res :=
  (mkStation (fst r) (st_sign sn), if snd r then RCrash else RUnit).

Definition step (sn : station) (o : op) : station * res :=
  match o with
  | OAddRoot c io => lift sn (add_root (st_store sn) c io)
  | OAddAA c io => lift sn (add_aa (st_store sn) c io)
  | OAddAT c io => lift sn (add_at (st_store sn) c io)
  | OAddOwn c io => lift sn (add_own (st_store sn) c io)
  | OVerifyChain cs =>
      let '(st1, cr) := verify_chain (st_store sn) cs in
      (mkStation st1 (st_sign sn),
       match cr with CErr => RCrash | CNone => RChain None | CSome e => RChain (Some e) end)
  | OVerify m => verify_msg sn m
  | OIssue req i ndig ntbs nsig => (sn, issue req i ndig ntbs nsig)
  | OSignCam now psid gen payload => sign_cam sn now psid gen payload
  | OSignDenm psid gen payload => sign_denm sn psid gen payload
  | OSignOther psid gen payload => sign_other sn psid gen payload
  | ORx se vs vo nh body m => rx sn se vs vo nh body m
  end.

Fixpoint run (sn : station) (ops : list op) : station * list res :=
  match ops with
  | [] => (sn, [])
  | o :: r => let '(sn1, x) := step sn o in
              let '(sn2, xs) := run sn1 r in (sn2, x :: xs)
  end.

Definition final (sn : station) (ops : list op) : station := fst (run sn ops).

(* ---------- several stations (C05) ----------------------------------------- *)
(* station i performs o; when the result is a signed message, the stations
   listed in rcv verify it (in that order). *)
Fixpoint update {A} (n : nat) (x : A) (l : list A) : list A :=
  match l, n with
  | [], _ => []
  | _ :: r, O => x :: r
  | y :: r, S k => y :: update k x r
  end.

Definition deliver_to (net : list station) (m : msg) (j : nat) : list station * res :=
  match nth_error net j with
  | Some sj => let '(sj', r) := verify_msg sj m in (update j sj' net, r)
  | None => (net, RCrash)
  end.

Fixpoint deliver_all (net : list station) (m : msg) (rcv : list nat) : list station * list res :=
  match rcv with
  | [] => (net, [])
  | j :: r => let '(net1, x) := deliver_to net m j in
              let '(net2, xs) := deliver_all net1 m r in (net2, x :: xs)
  end.

Definition net_step (net : list station) (i : nat) (o : op) (rcv : list nat)
  : list station * (res * list res) :=
  match nth_error net i with
  | None => (net, (RCrash, []))
  | Some si =>
      let '(si', r) := step si o in
      let net1 := update i si' net in
      match r with
      | RMsg m => let '(net2, rs) := deliver_all net1 m rcv in (net2, (r, rs))
      | _ => (net1, (r, []))
      end
  end.

End Oracles.

(* ======================================================================== *)
(* Driver entry point: flat integer requests -> flat integer replies.        *)
(* ======================================================================== *)

Definition rd (A : Type) := list Z -> option (A * list Z).

Definition rd_z : rd Z := fun l => match l with x :: r => Some (x, r) | [] => None end.
Definition rd_b : rd bool := fun l => match l with x :: r => Some (z2b x, r) | [] => None end.

Fixpoint rd_n {A} (f : rd A) (n : nat) : rd (list A) := fun l =>
  match n with
  | O => Some ([], l)
  | S k => match f l with
           | Some (x, r) => match rd_n f k r with
                            | Some (xs, r') => Some (x :: xs, r')
                            | None => None
                            end
           | None => None
           end
  end.

(* length-prefixed list *)
Definition rd_list {A} (f : rd A) : rd (list A) := fun l =>
  match l with n :: r => rd_n f (Z.to_nat n) r | [] => None end.

Definition rd_optlist : rd (option (list Z)) := fun l =>
  match l with
  | p :: r => match rd_list rd_z r with
              | Some (xs, r') => Some (if z2b p then Some xs else None, r')
              | None => None
              end
  | [] => None
  end.

Definition rd_entry : rd perm_entry := fun l =>
  match l with
  | k :: ch :: r => match rd_list rd_z r with
                    | Some (ps, r') => Some (mkPE (if k =? 0 then PAll else PExplicit ps) ch, r')
                    | None => None
                    end
  | _ => None
  end.

Definition mk_issuer (k d : Z) : issuer_ref :=
  if k =? 0 then IssSelf else if k =? 1 then IssSelfOther else if k =? 2 then IssDigest d else IssDigestOther d.

Definition rd_cert : rd cert := fun l =>
  match l with
  | i :: dg :: ik :: idg :: idn :: r =>
      match rd_optlist r with
      | Some (app, ip :: r1) =>
          match rd_list rd_entry r1 with
          | Some (es, st :: en :: k :: sg :: tb :: ty :: al :: r2) =>
              Some (mkCert i dg (mk_issuer ik idg) (z2b idn) app (if z2b ip then Some es else None)
                           st en k sg tb (z2b ty) (z2b al), r2)
          | _ => None
          end
      | _ => None
      end
  | _ => None
  end.

Definition dummy_cert : cert :=
  mkCert 0 0 IssSelfOther false None None 0 0 0 0 0 false false.

Definition getc (tbl : list cert) (i : Z) : cert := nth (Z.to_nat (i - 1)) tbl dummy_cert.
Definition geto (tbl : list cert) (i : Z) : option cert := if i <=? 0 then None else Some (getc tbl i).

Definition rd_signer (tbl : list cert) : rd signer := fun l =>
  match l with
  | k :: r =>
      if k =? 0 then match r with d :: r' => Some (SDigest d, r') | [] => None end
      else if k =? 1 then match rd_list rd_z r with
                          | Some (ix, r') => Some (SCerts (map (getc tbl) ix), r')
                          | None => None
                          end
      else Some (SOther, r)
  | [] => None
  end.

Definition rd_msg (tbl : list cert) : rd msg := fun l =>
  match l with
  | ok :: r =>
      match rd_signer tbl r with
      | Some (sg, ps :: gp :: g :: gl :: le :: cr :: ex :: ek :: r1) =>
          match rd_optlist r1 with
          | Some (inlq, rc :: pl :: tb :: s :: r2) =>
              Some (mkMsg (z2b ok) sg
                          (mkTbs ps (if z2b gp then Some g else None) (z2b gl) (z2b le) (z2b cr) (z2b ex) (z2b ek)
                                 inlq (geto tbl rc) pl) tb s, r2)
          | _ => None
          end
      | _ => None
      end
  | [] => None
  end.

Definition rd_op (tbl : list cert) : rd op := fun l =>
  match l with
  | code :: r =>
      if (1 <=? code) && (code <=? 4) then
        match r with
        | c :: io :: r' =>
            let cc := getc tbl c in let ii := geto tbl io in
            Some (if code =? 1 then OAddRoot cc ii else if code =? 2 then OAddAA cc ii
                  else if code =? 3 then OAddAT cc ii else OAddOwn cc ii, r')
        | _ => None
        end
      else if code =? 5 then
        match rd_list rd_z r with
        | Some (ix, r') => Some (OVerifyChain (map (getc tbl) ix), r')
        | None => None
        end
      else if code =? 6 then
        match rd_msg tbl r with Some (m, r') => Some (OVerify m, r') | None => None end
      else if code =? 7 then
        match r with
        | a :: b :: d :: t :: s :: r' => Some (OIssue (getc tbl a) (getc tbl b) d t s, r')
        | _ => None
        end
      else if code =? 8 then
        match r with
        | now :: ps :: g :: pl :: r' => Some (OSignCam now ps g pl, r')
        | _ => None
        end
      else if (code =? 9) || (code =? 10) then
        match r with
        | ps :: g :: pl :: r' => Some (if code =? 9 then OSignDenm ps g pl else OSignOther ps g pl, r')
        | _ => None
        end
      else if code =? 11 then
        match r with
        | se :: vs :: vo :: nh :: body :: r' =>
            match rd_msg tbl r' with
            | Some (m, r'') => Some (ORx (z2b se) (z2b vs) (z2b vo) nh body m, r'')
            | None => None
            end
        | _ => None
        end
      else None
  | [] => None
  end.

Definition rd_triple : rd (Z * Z * Z) := fun l =>
  match l with a :: b :: c :: r => Some ((a, b, c), r) | _ => None end.

Definition table_sig_ok (tbl : list (Z * Z * Z)) (k t s : Z) : bool :=
  existsb (fun x => let '(a, b, c) := x in (a =? k) && (b =? t) && (c =? s)) tbl.

(* ---- output ---- *)
Definition wr_list (l : list Z) : list Z := Z.of_nat (length l) :: l.
Definition wr_optcid (o : option cert) : Z := match o with Some c => cid c | None => -1 end.
Definition wr_entries (l : list entry) : list Z :=
  Z.of_nat (length l) :: flat_map (fun e => [cdig (e_cert e); cid (e_cert e); wr_optcid (e_iss e)]) l.
Definition wr_issuer (i : issuer_ref) : list Z :=
  match i with IssSelf => [0; 0] | IssSelfOther => [1; 0] | IssDigest d => [2; d] | IssDigestOther d => [3; d] end.
Definition wr_optlist (o : option (list Z)) : list Z :=
  match o with Some l => 1 :: wr_list l | None => [0; 0] end.
Definition wr_pe (pe : perm_entry) : list Z :=
  match pe_sub pe with PAll => [0; pe_chain pe; 0] | PExplicit ps => 1 :: pe_chain pe :: wr_list ps end.
Definition wr_issue (o : option (list perm_entry)) : list Z :=
  match o with
  | Some l => 1 :: Z.of_nat (length l) :: flat_map wr_pe l
  | None => [0; 0]
  end.
Definition wr_signer (s : signer) : list Z :=
  match s with
  | SDigest d => [0; d]
  | SCerts cs => 1 :: wr_list (map cid cs)
  | SOther => [2]
  end.
Definition wr_tbs (t : tbsdata) : list Z :=
  [t_psid t; match t_gen t with Some _ => 1 | None => 0 end; match t_gen t with Some g => g | None => 0 end;
   b2z (t_genloc t); b2z (t_learn t); b2z (t_crl t); b2z (t_expiry t); b2z (t_enckey t)]
  ++ wr_optlist (t_inline t) ++ [wr_optcid (t_reqcert t); t_payload t].

Definition wr_res (r : res) : list Z :=
  match r with
  | RUnit => [0]
  | RCrash => [1]
  | RChain None => [2; 0]
  | RChain (Some e) => [2; 1; cid (e_cert e); wr_optcid (e_iss e)]
  | RVerify code certid p => [3; code; certid; p]
  | RCert c signed => [4; b2z signed] ++ wr_issuer (cissuer c) ++ wr_optlist (capp c) ++ wr_issue (cissue c)
  | RMsg m => [5] ++ wr_signer (m_signer m) ++ wr_tbs (m_tbsd m)
  | RDeliver p => [6; p]
  | RDrop => [7]
  end.

Definition wr_sstate (ss : sstate) : list Z :=
  wr_list (unknown ss) ++ wr_list (requested ss) ++ [last_full ss; b2z (req_own ss)].

Definition wr_station (sn : station) : list Z :=
  wr_entries (roots (st_store sn)) ++ wr_entries (aas (st_store sn)) ++
  wr_entries (ats (st_store sn)) ++ wr_entries (owns (st_store sn)) ++ wr_sstate (st_sign sn).

Definition model_hash8 (c : cert) : Z := cdig c.
Definition model_sign (_ _ : Z) : Z := 1.
Definition model_enc (_ : tbsdata) : Z := 1.

(* cmd 1: one station.
   [mode; nsig; (k t s)*; ncert; cert*; nops; op*]  mode 0: signature table, 1: every signature verifies
   reply: for each op  [len; result...; station dump...] *)
Fixpoint run_dump (sg : Z -> Z -> Z -> bool) (sn : station) (ops : list op) : list Z :=
  match ops with
  | [] => []
  | o :: r =>
      let '(sn1, x) := step model_hash8 sg model_sign model_enc sn o in
      wr_list (wr_res x ++ wr_station sn1) ++ run_dump sg sn1 r
  end.

Definition cmd_history (a : list Z) : list Z :=
  match a with
  | mode :: r =>
      match rd_list rd_triple r with
      | Some (sigs, r1) =>
          match rd_list rd_cert r1 with
          | Some (tbl, r2) =>
              match rd_list (rd_op tbl) r2 with
              | Some (ops, _) =>
                  let sg := if mode =? 0 then table_sig_ok sigs else (fun _ _ _ => true) in
                  run_dump sg init_station ops
              | None => [-3]
              end
          | None => [-2]
          end
      | None => [-1]
      end
  | [] => [-1]
  end.

(* cmd 2: several stations.
   [mode; nsig; sigs; ncert; cert*; nstations; nops; (station op nrcv rcv* )*]
   reply: for each op [len; sender result; nrcv; receiver results (each len-prefixed); all stations' dumps] *)
Definition rd_netop (tbl : list cert) : rd (nat * op * list nat) := fun l =>
  match l with
  | i :: r =>
      match rd_op tbl r with
      | Some (o, r1) =>
          match rd_list rd_z r1 with
          | Some (rcv, r2) => Some ((Z.to_nat i, o, map Z.to_nat rcv), r2)
          | None => None
          end
      | None => None
      end
  | [] => None
  end.

Fixpoint net_dump (sg : Z -> Z -> Z -> bool) (net : list station) (ops : list (nat * op * list nat)) : list Z :=
  match ops with
  | [] => []
  | (i, o, rcv) :: r =>
      let '(net1, (x, xs)) := net_step model_hash8 sg model_sign model_enc net i o rcv in
      wr_list (wr_list (wr_res x) ++ [Z.of_nat (length xs)] ++ flat_map (fun y => wr_list (wr_res y)) xs
               ++ flat_map (fun sn => wr_list (wr_station sn)) net1)
      ++ net_dump sg net1 r
  end.

Definition cmd_net (a : list Z) : list Z :=
  match a with
  | mode :: r =>
      match rd_list rd_triple r with
      | Some (sigs, r1) =>
          match rd_list rd_cert r1 with
          | Some (tbl, n :: r2) =>
              match rd_list (rd_netop tbl) r2 with
              | Some (ops, _) =>
                  let sg := if mode =? 0 then table_sig_ok sigs else (fun _ _ _ => true) in
                  net_dump sg (repeat init_station (Z.to_nat n)) ops
              | None => [-3]
              end
          | _ => [-2]
          end
      | None => [-1]
      end
  | [] => [-1]
  end.

Definition dispatch (cmd : Z) (a : list Z) : list Z :=
  if cmd =? 1 then cmd_history a
  else if cmd =? 2 then cmd_net a
  else [].
