(* Model of the FlexStack Local Dynamic Map seen through IF.LDM.3 / IF.LDM.4
   (if_ldm_3.py, if_ldm_4.py, ldm_service*.py, ldm_maintenance*.py,
   dictionary_database.py) - the store, the registries and the garbage
   collection. Definitions only.

   Part 1: the concrete model - the state as the code keeps it (insertion
           ordered association list id -> container, next id, registries as
           lists without duplicates, clock).
   Part 2: the abstract specification - a finite map id -> container given as
           a function Z -> option rec, registries as predicates.
   Part 3: decoding of flat operation sequences for the driver.

   Time is the ITS clock in integer milliseconds; time.monotonic of the reactive
   maintenance is the same virtual clock. The content of a data object is an
   opaque pair (type code, token). *)
From FlexVerif Require Import Base.Prelude.

(* ---- stored data container (AddDataProviderReq.to_dict) ------------------ *)
Record rec := mkRec {
  r_app : Z;    (* application_id of the provider that added it *)
  r_ts : Z;     (* timestamp, ITS ms, as given by the provider *)
  r_lat : Z;    (* location.referencePosition.latitude, 1e-7 degree *)
  r_lon : Z;
  r_alt : Z;    (* altitudeValue, cm *)
  r_locx : Z;   (* all remaining location fields, packed by the harness *)
  r_val : Z;    (* timeValidity, seconds *)
  r_typ : Z;    (* data object type 1..21 (key of DATA_OBJECT_TYPE_ID), 0 = none *)
  r_tok : Z     (* opaque content token *)
}.

Definition rec_eqb (a b : rec) : bool :=
  (r_app a =? r_app b) && (r_ts a =? r_ts b) && (r_lat a =? r_lat b) && (r_lon a =? r_lon b) &&
  (r_alt a =? r_alt b) && (r_locx a =? r_locx b) && (r_val a =? r_val b) && (r_typ a =? r_typ b) &&
  (r_tok a =? r_tok b).

(* IF.LDM.3 update: only the data object (type + content) is replaced. *)
Definition set_content (r : rec) (typ tok : Z) : rec :=
  mkRec (r_app r) (r_ts r) (r_lat r) (r_lon r) (r_alt r) (r_locx r) (r_val r) typ tok.

(* ---- configuration: the LDM's own location (area of maintenance) ---------- *)
Record cfg := mkCfg { c_lat : Z; c_lon : Z; c_alt : Z; c_rd : Z }.

(* ---- operations ------------------------------------------------------------ *)
Inductive op :=
| RegProv (aid : Z) (perms : list Z)
| DeregProv (aid : Z)
| RegCons (aid : Z) (perms : list Z)
| DeregCons (aid : Z)
| Add (r : rec)                         (* r_app r is the requesting application id *)
| Update (aid id typ tok : Z)
| Delete (aid id : Z)
| Request (aid prio : Z) (types : list Z)   (* no filter, no order; prio -1 = None *)
| Advance (ms : Z)
| Maintain.                              (* explicit LDMMaintenance.collect_trash() *)

(* ---- small list helpers ------------------------------------------------------ *)
Definition mem (x : Z) (l : list Z) : bool := existsb (Z.eqb x) l.
Definition set_add (x : Z) (l : list Z) : list Z := if mem x l then l else l ++ [x].
Definition set_del (x : Z) (l : list Z) : list Z := filter (fun y => negb (x =? y)) l.

Definition valid_aid (a : Z) : bool := (1 <=? a) && (a <=? 21).           (* VALID_ITS_AID *)
Definition valid_type (t : Z) : bool := (1 <=? t) && (t <=? 21).          (* DATA_OBJECT_TYPE_ID *)
Definition nonempty (l : list Z) : bool := match l with [] => false | _ => true end.

(* InterfaceLDM3.check_its_aid / check_permissions *)
Definition reg_prov_ok (aid : Z) (perms : list Z) : bool :=
  valid_aid aid && nonempty perms && ((aid =? 1) || mem aid perms).
(* InterfaceLDM4.check_its_aid / check_permissions (DENM, SPATEM, MAPEM always pass) *)
Definition reg_cons_ok (aid : Z) (perms : list Z) : bool :=
  valid_aid aid && nonempty perms && (mem aid perms || (aid =? 1) || (aid =? 4) || (aid =? 5)).

(* ============================================================================ *)
(* Part 1: concrete model                                                        *)
(* ============================================================================ *)
Record st := mkSt {
  store : list (Z * rec);   (* DictionaryDataBase.database, in insertion order *)
  next_id : Z;              (* DictionaryDataBase._next_id *)
  provs : list Z;           (* LDMService.data_provider_its_aid *)
  conss : list Z;           (* LDMService.data_consumer_its_aid *)
  now : Z;                  (* ITS time, ms *)
  last_gc : Z               (* LDMMaintenanceReactive.last_trash_collection_time, same clock *)
}.

Definition init (t0 : Z) : st := mkSt [] 0 [] [] t0 t0.

Definition lookup (id : Z) (db : list (Z * rec)) : option rec :=
  match find (fun e => fst e =? id) db with Some e => Some (snd e) | None => None end.
Definition has_id (id : Z) (db : list (Z * rec)) : bool := existsb (fun e => fst e =? id) db.

(* DictionaryDataBase.remove(value): delete the FIRST entry equal to the value. *)
Fixpoint remove_first (r : rec) (db : list (Z * rec)) : list (Z * rec) :=
  match db with
  | [] => []
  | e :: t => if rec_eqb (snd e) r then t else e :: remove_first r t
  end.

(* check_and_delete_*: iterate over a snapshot of the values, delete by value. *)
Definition gc_pass (p : rec -> bool) (db : list (Z * rec)) : list (Z * rec) :=
  fold_left (fun d r => if p r then remove_first r d else d) (map snd db) db.

(* check_and_delete_time_validity: validity*1000 + timestamp < now truncated to whole seconds *)
Definition expired (t : Z) (r : rec) : bool := r_val r * 1000 + r_ts r <? (t / 1000) * 1000.

(* RelevanceDistance.compare_with_int(int(euclidian distance)) on the squared raw distance *)
Definition near (rd s : Z) : bool :=
  if rd =? 0 then s <? 50 * 50 else if rd =? 1 then s <? 100 * 100
  else if rd =? 2 then s <? 200 * 200 else if rd =? 3 then s <? 500 * 500
  else if rd =? 4 then s <? 1000 * 1000 else if rd =? 5 then s <? 5000 * 5000
  else if rd =? 6 then s <? 10000 * 10000 else 20001 * 20001 <=? s.

(* check_and_delete_area_of_maintenance AS THE CODE HAS IT (known finding KF-C12-1):
   deletes what is near (raw units) and whose altitude difference xor 2 is below 15. *)
Definition in_zone (c : cfg) (r : rec) : bool :=
  near (c_rd c) ((r_lat r - c_lat c) * (r_lat r - c_lat c) + (r_lon r - c_lon c) * (r_lon r - c_lon c))
  && (Z.lxor (r_alt r - c_alt c) 2 <? 15).

(* collect_trash *)
Definition gc (c : cfg) (t : Z) (db : list (Z * rec)) : list (Z * rec) :=
  gc_pass (in_zone c) (gc_pass (expired t) db).

Definition with_store (s : st) (db : list (Z * rec)) : st :=
  mkSt db (next_id s) (provs s) (conss s) (now s) (last_gc s).

Definition flat_rec (r : rec) : list Z :=
  [r_app r; r_ts r; r_lat r; r_lon r; r_alt r; r_locx r; r_val r; r_typ r; r_tok r].

(* result of an unfiltered request: the containers whose type is selected, store order *)
Definition select (types : list Z) (db : list (Z * rec)) : list rec :=
  map snd (filter (fun e => mem (r_typ (snd e)) types) db).

Definition prio_ok (p : Z) : bool := (p =? -1) || ((0 <=? p) && (p <=? 255)).

(* does the reactive maintenance run inside this operation? *)
Definition gc_due (s : st) : bool := 1000 <=? now s - last_gc s.

Definition step (c : cfg) (s : st) (o : op) : st * list Z :=
  match o with
  | RegProv aid perms =>
      if reg_prov_ok aid perms
      then (mkSt (store s) (next_id s) (set_add aid (provs s)) (conss s) (now s) (last_gc s), [0])
      else (s, [1])
  | DeregProv aid =>
      if mem aid (provs s)
      then (mkSt (store s) (next_id s) (set_del aid (provs s)) (conss s) (now s) (last_gc s), [0])
      else (s, [1])
  | RegCons aid perms =>
      if reg_cons_ok aid perms
      then (mkSt (store s) (next_id s) (provs s) (set_add aid (conss s)) (now s) (last_gc s), [0])
      else (s, [2])
  | DeregCons aid =>
      if mem aid (conss s)
      then (mkSt (store s) (next_id s) (provs s) (set_del aid (conss s)) (now s) (last_gc s), [0])
      else (s, [1])
  | Add r =>
      if mem (r_app r) (provs s) then
        let db := store s ++ [(next_id s, r)] in
        if gc_due s
        then (mkSt (gc c (now s) db) (next_id s + 1) (provs s) (conss s) (now s) (now s), [next_id s])
        else (mkSt db (next_id s + 1) (provs s) (conss s) (now s) (last_gc s), [next_id s])
      else (s, [-1])
  | Update aid id typ tok =>
      (* no registration check (known finding KF-C12-2); the new message must carry the type
         of the stored one (exists(<type name>, id) looks inside the addressed container) *)
      match lookup id (store s) with
      | Some r =>
        if valid_type typ && (r_typ r =? typ)
        then (with_store s (map (fun e => if fst e =? id then (fst e, set_content (snd e) typ tok) else e)
                                (store s)), [0])
        else (s, [2])
      | None => (s, [1])
      end
  | Delete aid id =>
      if has_id id (store s)
      then (with_store s (filter (fun e => negb (fst e =? id)) (store s)), [0])
      else (s, [1])
  | Request aid prio types =>
      if negb (mem aid (conss s)) then (s, [1])
      else if negb (forallb valid_type types) then (s, [2])
      else if negb (prio_ok prio) then (s, [3])
      else (s, 0 :: flat_map flat_rec (select types (store s)))
  | Advance ms => (mkSt (store s) (next_id s) (provs s) (conss s) (now s + ms) (last_gc s), [])
  | Maintain => (with_store s (gc c (now s) (store s)), [])
  end.

Fixpoint run (c : cfg) (s : st) (ops : list op) : st * list (list Z) :=
  match ops with
  | [] => (s, [])
  | o :: t => let '(s1, out) := step c s o in
              let '(s2, outs) := run c s1 t in (s2, out :: outs)
  end.

Definition state_after (c : cfg) (t0 : Z) (ops : list op) : st := fst (run c (init t0) ops).
Definition outputs (c : cfg) (t0 : Z) (ops : list op) : list (list Z) := snd (run c (init t0) ops).

(* ============================================================================ *)
(* Part 2: abstract specification - a finite map                                  *)
(* ============================================================================ *)
Record ast := mkAst {
  a_map : Z -> option rec;
  a_next : Z;
  a_prov : Z -> bool;
  a_cons : Z -> bool;
  a_now : Z;
  a_last_gc : Z
}.

Definition a_init (t0 : Z) : ast :=
  mkAst (fun _ => None) 0 (fun _ => false) (fun _ => false) t0 t0.

Definition upd {A} (m : Z -> A) (k : Z) (v : A) : Z -> A := fun x => if x =? k then v else m x.

(* the contents of the map in ascending key order *)
Definition aenum (m : Z -> option rec) (n : Z) : list (Z * rec) :=
  flat_map (fun k => match m k with Some r => [(k, r)] | None => [] end) (zrange 0 (Z.to_nat n)).

(* an object is removed by maintenance when it has lapsed or lies in the deletion zone *)
Definition dead (c : cfg) (t : Z) (r : rec) : bool := expired t r || in_zone c r.

Definition a_gc (c : cfg) (t : Z) (m : Z -> option rec) : Z -> option rec :=
  fun k => match m k with Some r => if dead c t r then None else Some r | None => None end.

Definition a_with_map (a : ast) (m : Z -> option rec) : ast :=
  mkAst m (a_next a) (a_prov a) (a_cons a) (a_now a) (a_last_gc a).

Definition a_defined (m : Z -> option rec) (k : Z) : bool :=
  match m k with Some _ => true | None => false end.

Definition a_gc_due (a : ast) : bool := 1000 <=? a_now a - a_last_gc a.

Definition a_step (c : cfg) (a : ast) (o : op) : ast * list Z :=
  match o with
  | RegProv aid perms =>
      if reg_prov_ok aid perms
      then (mkAst (a_map a) (a_next a) (upd (a_prov a) aid true) (a_cons a) (a_now a) (a_last_gc a), [0])
      else (a, [1])
  | DeregProv aid =>
      if a_prov a aid
      then (mkAst (a_map a) (a_next a) (upd (a_prov a) aid false) (a_cons a) (a_now a) (a_last_gc a), [0])
      else (a, [1])
  | RegCons aid perms =>
      if reg_cons_ok aid perms
      then (mkAst (a_map a) (a_next a) (a_prov a) (upd (a_cons a) aid true) (a_now a) (a_last_gc a), [0])
      else (a, [2])
  | DeregCons aid =>
      if a_cons a aid
      then (mkAst (a_map a) (a_next a) (a_prov a) (upd (a_cons a) aid false) (a_now a) (a_last_gc a), [0])
      else (a, [1])
  | Add r =>
      if a_prov a (r_app r) then
        let m := upd (a_map a) (a_next a) (Some r) in
        if a_gc_due a
        then (mkAst (a_gc c (a_now a) m) (a_next a + 1) (a_prov a) (a_cons a) (a_now a) (a_now a), [a_next a])
        else (mkAst m (a_next a + 1) (a_prov a) (a_cons a) (a_now a) (a_last_gc a), [a_next a])
      else (a, [-1])
  | Update aid id typ tok =>
      match a_map a id with
      | Some r =>
          if valid_type typ && (r_typ r =? typ)
          then (a_with_map a (upd (a_map a) id (Some (set_content r typ tok))), [0])
          else (a, [2])
      | None => (a, [1])
      end
  | Delete aid id =>
      match a_map a id with
      | Some _ => (a_with_map a (upd (a_map a) id None), [0])
      | None => (a, [1])
      end
  | Request aid prio types =>
      if negb (a_cons a aid) then (a, [1])
      else if negb (forallb valid_type types) then (a, [2])
      else if negb (prio_ok prio) then (a, [3])
      else (a, 0 :: flat_map flat_rec (select types (aenum (a_map a) (a_next a))))
  | Advance ms => (mkAst (a_map a) (a_next a) (a_prov a) (a_cons a) (a_now a + ms) (a_last_gc a), [])
  | Maintain => (a_with_map a (a_gc c (a_now a) (a_map a)), [])
  end.

Fixpoint a_run (c : cfg) (a : ast) (ops : list op) : ast * list (list Z) :=
  match ops with
  | [] => (a, [])
  | o :: t => let '(a1, out) := a_step c a o in
              let '(a2, outs) := a_run c a1 t in (a2, out :: outs)
  end.

(* the refinement relation: the concrete store is the ascending enumeration of the map *)
Definition refines (s : st) (a : ast) : Prop :=
  store s = aenum (a_map a) (a_next a) /\
  (forall k, k < 0 \/ a_next a <= k -> a_map a k = None) /\
  next_id s = a_next a /\ 0 <= a_next a /\
  (forall x, mem x (provs s) = a_prov a x) /\
  (forall x, mem x (conss s) = a_cons a x) /\
  now s = a_now a /\ last_gc s = a_last_gc a.

(* ---- vocabulary of the property statements ----------------------------------- *)
(* does operation o run the garbage collection when executed in state s? *)
Definition runs_gc (s : st) (o : op) : bool :=
  match o with
  | Add r => mem (r_app r) (provs s) && gc_due s
  | Maintain => true
  | _ => false
  end.

(* same container up to the content *)
Definition same_but_content (a b : rec) : Prop :=
  r_app a = r_app b /\ r_ts a = r_ts b /\ r_lat a = r_lat b /\ r_lon a = r_lon b /\
  r_alt a = r_alt b /\ r_locx a = r_locx b /\ r_val a = r_val b.

(* the object with identifier i is neither deleted nor collected while ops execute
   from s. r0 carries the fields that decide collection (they never change).
   `zone` says whether the deletion zone of the known finding is taken into account. *)
Fixpoint undisturbed (zone : bool) (c : cfg) (i : Z) (r0 : rec) (s : st) (ops : list op) : Prop :=
  match ops with
  | [] => True
  | o :: t =>
      match o with Delete _ j => j <> i | _ => True end /\
      (runs_gc s o = true -> expired (now s) r0 = false /\ (zone = true -> in_zone c r0 = false)) /\
      undisturbed zone c i r0 (fst (step c s o)) t
  end.

(* the content object i has after ops: the last successful update wins *)
Definition content_step (i : Z) (o : op) (out : list Z) (cur : Z * Z) : Z * Z :=
  match o with
  | Update _ j typ tok => if (j =? i) && (hd 1 out =? 0) then (typ, tok) else cur
  | _ => cur
  end.

Fixpoint content_after (c : cfg) (i : Z) (s : st) (ops : list op) (cur : Z * Z) : Z * Z :=
  match ops with
  | [] => cur
  | o :: t => let '(s1, out) := step c s o in content_after c i s1 t (content_step i o out cur)
  end.

(* identifiers handed out by successful additions, in order *)
Fixpoint added_ids (c : cfg) (s : st) (ops : list op) : list Z :=
  match ops with
  | [] => []
  | o :: t =>
      let '(s1, out) := step c s o in
      match o with
      | Add _ => if 0 <=? hd (-1) out then hd (-1) out :: added_ids c s1 t else added_ids c s1 t
      | _ => added_ids c s1 t
      end
  end.

(* the application the request comes from is not registered for it *)
Definition by_unregistered (s : st) (o : op) : bool :=
  match o with
  | Add r => negb (mem (r_app r) (provs s))
  | Update aid _ _ _ => negb (mem aid (provs s))
  | Delete aid _ => negb (mem aid (provs s))
  | Request aid _ _ => negb (mem aid (conss s))
  | _ => false
  end.
Definition gated (o : op) : bool :=
  match o with Add _ | Request _ _ _ => true | _ => false end.

(* identifier j after operation o (state s -> s1): untouched, or collected by the maintenance
   that ran inside o because it had lapsed or lay in the deletion zone *)
Definition kept_or_collected (c : cfg) (s : st) (o : op) (s1 : st) (j : Z) : Prop :=
  lookup j (store s1) = lookup j (store s) \/
  (lookup j (store s1) = None /\ runs_gc s o = true /\
   exists rj, lookup j (store s) = Some rj /\ dead c (now s) rj = true).

(* the frame clause, per kind of operation *)
Definition frame_stmt (c : cfg) (s : st) (o : op) : Prop :=
  let s1 := fst (step c s o) in
  match o with
  | Update _ i _ _ | Delete _ i =>
      (forall j, j <> i -> lookup j (store s1) = lookup j (store s)) /\
      provs s1 = provs s /\ conss s1 = conss s /\ next_id s1 = next_id s
  | Add _ =>
      (forall j, j <> next_id s -> kept_or_collected c s o s1 j) /\ provs s1 = provs s /\ conss s1 = conss s
  | Maintain =>
      (forall j, kept_or_collected c s o s1 j) /\ provs s1 = provs s /\ conss s1 = conss s /\
      next_id s1 = next_id s
  | RegProv a _ | DeregProv a =>
      store s1 = store s /\ next_id s1 = next_id s /\ conss s1 = conss s /\
      (forall x, x <> a -> mem x (provs s1) = mem x (provs s))
  | RegCons a _ | DeregCons a =>
      store s1 = store s /\ next_id s1 = next_id s /\ provs s1 = provs s /\
      (forall x, x <> a -> mem x (conss s1) = mem x (conss s))
  | Request _ _ _ | Advance _ =>
      store s1 = store s /\ next_id s1 = next_id s /\ provs s1 = provs s /\ conss s1 = conss s
  end.

(* the identifier an operation is about *)
Definition target (s : st) (o : op) : option Z :=
  match o with
  | Update _ j _ _ => Some j
  | Delete _ j => Some j
  | _ => None
  end.

(* "an object added by a registered provider is returned ... with the content, timestamp, location
   and validity it was added with until it is deleted or its validity lapses":
   zone = false is the clause as the property states it (FALSE of the code, see Properties/C12.v),
   zone = true adds the hypothesis that the object is outside the collector's deletion zone. *)
Definition added_returned_stmt (zone : bool) : Prop :=
  forall c t0 ops1 r ops2,
  let s1 := state_after c t0 ops1 in
  let i := next_id s1 in
  mem (r_app r) (provs s1) = true ->
  undisturbed zone c i r s1 (Add r :: ops2) ->
  let s3 := state_after c t0 (ops1 ++ Add r :: ops2) in
  let ct := content_after c i s1 (Add r :: ops2) (r_typ r, r_tok r) in
  snd (step c s1 (Add r)) = [i] /\
  lookup i (store s3) = Some (set_content r (fst ct) (snd ct)) /\
  forall aid prio types,
    mem aid (conss s3) = true -> forallb valid_type types = true -> prio_ok prio = true ->
    mem (fst ct) types = true ->
    exists recs, snd (step c s3 (Request aid prio types)) = 0 :: flat_map flat_rec recs /\
                 In (set_content r (fst ct) (snd ct)) recs.

(* "requests of unregistered providers or consumers are refused without effect":
   only_gated = false is the clause for every request kind (FALSE of the code for update/delete),
   only_gated = true restricts it to add and request. *)
Definition unregistered_refused_stmt (only_gated : bool) : Prop :=
  forall c t0 ops o,
  let s := state_after c t0 ops in
  (only_gated = true -> gated o = true) -> by_unregistered s o = true -> fst (step c s o) = s.

(* ============================================================================ *)
(* Part 3: driver protocol                                                        *)
(* ============================================================================ *)
Definition take (n : Z) (l : list Z) : list Z := firstn (Z.to_nat n) l.
Definition drop (n : Z) (l : list Z) : list Z := skipn (Z.to_nat n) l.

Fixpoint decode (fuel : nat) (l : list Z) : list op :=
  match fuel with
  | O => []
  | S f =>
    match l with
    | [] => []
    | code :: t =>
      if code =? 1 then
        match t with aid :: n :: u => RegProv aid (take n u) :: decode f (drop n u) | _ => [] end
      else if code =? 2 then
        match t with aid :: u => DeregProv aid :: decode f u | _ => [] end
      else if code =? 3 then
        match t with aid :: n :: u => RegCons aid (take n u) :: decode f (drop n u) | _ => [] end
      else if code =? 4 then
        match t with aid :: u => DeregCons aid :: decode f u | _ => [] end
      else if code =? 5 then
        match t with
        | a :: ts :: la :: lo :: al :: lx :: v :: ty :: tk :: u =>
            Add (mkRec a ts la lo al lx v ty tk) :: decode f u
        | _ => [] end
      else if code =? 6 then
        match t with aid :: id :: ty :: tk :: u => Update aid id ty tk :: decode f u | _ => [] end
      else if code =? 7 then
        match t with aid :: id :: u => Delete aid id :: decode f u | _ => [] end
      else if code =? 8 then
        match t with aid :: p :: n :: u => Request aid p (take n u) :: decode f (drop n u) | _ => [] end
      else if code =? 9 then
        match t with ms :: u => Advance ms :: decode f u | _ => [] end
      else if code =? 10 then Maintain :: decode f t
      else []
    end
  end.

(* dump of the observable state: store with ids, next id, both registries *)
Definition dump (s : st) : list Z :=
  Z.of_nat (length (store s)) :: flat_map (fun e => fst e :: flat_rec (snd e)) (store s)
  ++ [next_id s] ++ Z.of_nat (length (provs s)) :: provs s
  ++ Z.of_nat (length (conss s)) :: conss s.

(* per operation: [length of output; output...; dump...] *)
Fixpoint run_dump (c : cfg) (s : st) (ops : list op) : list Z :=
  match ops with
  | [] => []
  | o :: t => let '(s1, out) := step c s o in
              Z.of_nat (length out) :: out ++ dump s1 ++ run_dump c s1 t
  end.

(* cmd 1: [lat0; lon0; alt0; rd; t0; ops...] -> run_dump
   cmd 2: same input -> number of decoded operations (protocol self check)
   cmd 3: [rd; s] -> near ; cmd 4: [t; val; ts] -> expired *)
Definition dispatch (cmd : Z) (a : list Z) : list Z :=
  if cmd =? 1 then
    let c := mkCfg (arg 0 a) (arg 1 a) (arg 2 a) (arg 3 a) in
    let l := skipn 5 a in
    run_dump c (init (arg 4 a)) (decode (length l) l)
  else if cmd =? 2 then
    let l := skipn 5 a in [Z.of_nat (length (decode (length l) l))]
  else if cmd =? 3 then [b2z (near (arg 0 a) (arg 1 a))]
  else if cmd =? 4 then [b2z (expired (arg 0 a) (mkRec 0 (arg 2 a) 0 0 0 0 (arg 1 a) 0 0))]
  else [].
