(* Model of flexstack.facilities.vru_awareness_service.vru_clustering.VBSClusteringManager
   (VRU clustering state machine, ETSI TS 103 300-3 clause 5.4), as the code is after the
   fix: commits listed in known_findings/C18.json. Definitions only.

   Time: Z in ticks of 1/1024 s. Every threshold of vam_constants.py is a whole number of ticks
   (Gen/C18Consts.v, regenerated from the working tree) and the harness injects a time_fn that
   returns k/1024 as a float, so the float subtractions and comparisons of the code are exact.
   One function per public method, in the order of the source file. The state record holds
   every attribute of the manager; the tables that are Python dicts are association lists
   (the harness compares them as sorted lists).

   What is abstracted: positions, speed and heading of received VAMs enter only through the
   boolean `near` (haversine distance to the own position <= MAX_CLUSTER_DISTANCE), which the
   harness decides with its own formula for the fixed own position it uses; the random cluster
   identifiers drawn by random.randint(1, 255) are an input of try_create. *)
From FlexVerif Require Import Base.Prelude Gen.C18Consts.

Inductive vbs := Idle | Standalone | Leader | Passive.
Inductive jsub := JNone | JNotify | JWaiting | JJoined | JCancelled | JFailed.
Inductive lsub := LNone | LNotify.

(* _ClusterState *)
Record cluster_t := mkCluster {
  c_id : Z; c_card : Z; c_profiles : Z; c_radius : Z;
  c_bk_started : option Z; c_bk_reason : option Z; c_pending : list Z }.

Record state := mkState {
  own_id : Z; own_profile : Z;
  now : Z;                                   (* what time_fn() returns *)
  vst : vbs;                                 (* _state *)
  cluster : option cluster_t;                (* _cluster *)
  joined : option Z;                         (* _joined_cluster_id *)
  leader : option Z;                         (* _leader_station_id *)
  last_leader : option Z;                    (* _last_leader_vam_time *)
  js : jsub;                                 (* _join_substate *)
  j_target : option Z;                       (* _join_target_cluster_id *)
  j_started : option Z;                      (* _join_started *)
  jl_reason : option Z;                      (* _join_leave_reason *)
  jl_started : option Z;                     (* _join_leave_started *)
  ls : lsub;                                 (* _leave_substate *)
  l_reason : option Z;                       (* _leave_reason *)
  l_cluster : option Z;                      (* _leave_cluster_id *)
  l_started : option Z;                      (* _leave_started *)
  vrus : list (Z * (bool * Z));              (* _nearby_vrus: station -> (near, last_seen) *)
  ncls : list (Z * (Z * Z * Z));             (* _nearby_clusters: id -> (leader, cardinality, last_seen) *)
  seen : list (Z * Z) }.                     (* _seen_cluster_ids: id -> first seen *)

Definition set_now (x : _) (s : state) : state :=
  mkState (s.(own_id)) (s.(own_profile)) x (s.(vst)) (s.(cluster)) (s.(joined)) (s.(leader)) (s.(last_leader)) (s.(js)) (s.(j_target)) (s.(j_started)) (s.(jl_reason)) (s.(jl_started)) (s.(ls)) (s.(l_reason)) (s.(l_cluster)) (s.(l_started)) (s.(vrus)) (s.(ncls)) (s.(seen)).
Definition set_vst (x : _) (s : state) : state :=
  mkState (s.(own_id)) (s.(own_profile)) (s.(now)) x (s.(cluster)) (s.(joined)) (s.(leader)) (s.(last_leader)) (s.(js)) (s.(j_target)) (s.(j_started)) (s.(jl_reason)) (s.(jl_started)) (s.(ls)) (s.(l_reason)) (s.(l_cluster)) (s.(l_started)) (s.(vrus)) (s.(ncls)) (s.(seen)).
Definition set_cluster (x : _) (s : state) : state :=
  mkState (s.(own_id)) (s.(own_profile)) (s.(now)) (s.(vst)) x (s.(joined)) (s.(leader)) (s.(last_leader)) (s.(js)) (s.(j_target)) (s.(j_started)) (s.(jl_reason)) (s.(jl_started)) (s.(ls)) (s.(l_reason)) (s.(l_cluster)) (s.(l_started)) (s.(vrus)) (s.(ncls)) (s.(seen)).
Definition set_joined (x : _) (s : state) : state :=
  mkState (s.(own_id)) (s.(own_profile)) (s.(now)) (s.(vst)) (s.(cluster)) x (s.(leader)) (s.(last_leader)) (s.(js)) (s.(j_target)) (s.(j_started)) (s.(jl_reason)) (s.(jl_started)) (s.(ls)) (s.(l_reason)) (s.(l_cluster)) (s.(l_started)) (s.(vrus)) (s.(ncls)) (s.(seen)).
Definition set_leader (x : _) (s : state) : state :=
  mkState (s.(own_id)) (s.(own_profile)) (s.(now)) (s.(vst)) (s.(cluster)) (s.(joined)) x (s.(last_leader)) (s.(js)) (s.(j_target)) (s.(j_started)) (s.(jl_reason)) (s.(jl_started)) (s.(ls)) (s.(l_reason)) (s.(l_cluster)) (s.(l_started)) (s.(vrus)) (s.(ncls)) (s.(seen)).
Definition set_last_leader (x : _) (s : state) : state :=
  mkState (s.(own_id)) (s.(own_profile)) (s.(now)) (s.(vst)) (s.(cluster)) (s.(joined)) (s.(leader)) x (s.(js)) (s.(j_target)) (s.(j_started)) (s.(jl_reason)) (s.(jl_started)) (s.(ls)) (s.(l_reason)) (s.(l_cluster)) (s.(l_started)) (s.(vrus)) (s.(ncls)) (s.(seen)).
Definition set_js (x : _) (s : state) : state :=
  mkState (s.(own_id)) (s.(own_profile)) (s.(now)) (s.(vst)) (s.(cluster)) (s.(joined)) (s.(leader)) (s.(last_leader)) x (s.(j_target)) (s.(j_started)) (s.(jl_reason)) (s.(jl_started)) (s.(ls)) (s.(l_reason)) (s.(l_cluster)) (s.(l_started)) (s.(vrus)) (s.(ncls)) (s.(seen)).
Definition set_j_target (x : _) (s : state) : state :=
  mkState (s.(own_id)) (s.(own_profile)) (s.(now)) (s.(vst)) (s.(cluster)) (s.(joined)) (s.(leader)) (s.(last_leader)) (s.(js)) x (s.(j_started)) (s.(jl_reason)) (s.(jl_started)) (s.(ls)) (s.(l_reason)) (s.(l_cluster)) (s.(l_started)) (s.(vrus)) (s.(ncls)) (s.(seen)).
Definition set_j_started (x : _) (s : state) : state :=
  mkState (s.(own_id)) (s.(own_profile)) (s.(now)) (s.(vst)) (s.(cluster)) (s.(joined)) (s.(leader)) (s.(last_leader)) (s.(js)) (s.(j_target)) x (s.(jl_reason)) (s.(jl_started)) (s.(ls)) (s.(l_reason)) (s.(l_cluster)) (s.(l_started)) (s.(vrus)) (s.(ncls)) (s.(seen)).
Definition set_jl_reason (x : _) (s : state) : state :=
  mkState (s.(own_id)) (s.(own_profile)) (s.(now)) (s.(vst)) (s.(cluster)) (s.(joined)) (s.(leader)) (s.(last_leader)) (s.(js)) (s.(j_target)) (s.(j_started)) x (s.(jl_started)) (s.(ls)) (s.(l_reason)) (s.(l_cluster)) (s.(l_started)) (s.(vrus)) (s.(ncls)) (s.(seen)).
Definition set_jl_started (x : _) (s : state) : state :=
  mkState (s.(own_id)) (s.(own_profile)) (s.(now)) (s.(vst)) (s.(cluster)) (s.(joined)) (s.(leader)) (s.(last_leader)) (s.(js)) (s.(j_target)) (s.(j_started)) (s.(jl_reason)) x (s.(ls)) (s.(l_reason)) (s.(l_cluster)) (s.(l_started)) (s.(vrus)) (s.(ncls)) (s.(seen)).
Definition set_ls (x : _) (s : state) : state :=
  mkState (s.(own_id)) (s.(own_profile)) (s.(now)) (s.(vst)) (s.(cluster)) (s.(joined)) (s.(leader)) (s.(last_leader)) (s.(js)) (s.(j_target)) (s.(j_started)) (s.(jl_reason)) (s.(jl_started)) x (s.(l_reason)) (s.(l_cluster)) (s.(l_started)) (s.(vrus)) (s.(ncls)) (s.(seen)).
Definition set_l_reason (x : _) (s : state) : state :=
  mkState (s.(own_id)) (s.(own_profile)) (s.(now)) (s.(vst)) (s.(cluster)) (s.(joined)) (s.(leader)) (s.(last_leader)) (s.(js)) (s.(j_target)) (s.(j_started)) (s.(jl_reason)) (s.(jl_started)) (s.(ls)) x (s.(l_cluster)) (s.(l_started)) (s.(vrus)) (s.(ncls)) (s.(seen)).
Definition set_l_cluster (x : _) (s : state) : state :=
  mkState (s.(own_id)) (s.(own_profile)) (s.(now)) (s.(vst)) (s.(cluster)) (s.(joined)) (s.(leader)) (s.(last_leader)) (s.(js)) (s.(j_target)) (s.(j_started)) (s.(jl_reason)) (s.(jl_started)) (s.(ls)) (s.(l_reason)) x (s.(l_started)) (s.(vrus)) (s.(ncls)) (s.(seen)).
Definition set_l_started (x : _) (s : state) : state :=
  mkState (s.(own_id)) (s.(own_profile)) (s.(now)) (s.(vst)) (s.(cluster)) (s.(joined)) (s.(leader)) (s.(last_leader)) (s.(js)) (s.(j_target)) (s.(j_started)) (s.(jl_reason)) (s.(jl_started)) (s.(ls)) (s.(l_reason)) (s.(l_cluster)) x (s.(vrus)) (s.(ncls)) (s.(seen)).
Definition set_vrus (x : _) (s : state) : state :=
  mkState (s.(own_id)) (s.(own_profile)) (s.(now)) (s.(vst)) (s.(cluster)) (s.(joined)) (s.(leader)) (s.(last_leader)) (s.(js)) (s.(j_target)) (s.(j_started)) (s.(jl_reason)) (s.(jl_started)) (s.(ls)) (s.(l_reason)) (s.(l_cluster)) (s.(l_started)) x (s.(ncls)) (s.(seen)).
Definition set_ncls (x : _) (s : state) : state :=
  mkState (s.(own_id)) (s.(own_profile)) (s.(now)) (s.(vst)) (s.(cluster)) (s.(joined)) (s.(leader)) (s.(last_leader)) (s.(js)) (s.(j_target)) (s.(j_started)) (s.(jl_reason)) (s.(jl_started)) (s.(ls)) (s.(l_reason)) (s.(l_cluster)) (s.(l_started)) (s.(vrus)) x (s.(seen)).
Definition set_seen (x : _) (s : state) : state :=
  mkState (s.(own_id)) (s.(own_profile)) (s.(now)) (s.(vst)) (s.(cluster)) (s.(joined)) (s.(leader)) (s.(last_leader)) (s.(js)) (s.(j_target)) (s.(j_started)) (s.(jl_reason)) (s.(jl_started)) (s.(ls)) (s.(l_reason)) (s.(l_cluster)) (s.(l_started)) (s.(vrus)) (s.(ncls)) x.

(* ClusterLeaveReason / ClusterBreakupReason members in declaration order *)
Definition lr_leader_lost : Z := 1.
Definition lr_disbanded : Z := 2.
Definition lr_cancelled_join : Z := 6.
Definition lr_failed_join : Z := 7.
Definition br_cpm : Z := 5.        (* receptionOfCpmContainingCluster *)

(* _encode_cluster_profiles({own_vru_profile}) for profile code 0 pedestrian, 1 bicyclist,
   2 motorcyclist, 3 animal; any other profile string sets no bit *)
Definition profile_bits (p : Z) : Z :=
  if p =? 0 then 128 else if p =? 1 then 64 else if p =? 2 then 32 else if p =? 3 then 16 else 0.

Definition init (own prof t0 : Z) : state :=
  mkState own prof t0 Standalone None None None None JNone None None None None LNone None None None [] [] [].

(* ---- small helpers ---------------------------------------------------- *)
Definition vbs_eqb (a b : vbs) : bool :=
  match a, b with Idle, Idle | Standalone, Standalone | Leader, Leader | Passive, Passive => true | _, _ => false end.
Definition jsub_eqb (a b : jsub) : bool :=
  match a, b with JNone, JNone | JNotify, JNotify | JWaiting, JWaiting | JJoined, JJoined
                | JCancelled, JCancelled | JFailed, JFailed => true | _, _ => false end.
Definition lsub_eqb (a b : lsub) : bool :=
  match a, b with LNone, LNone | LNotify, LNotify => true | _, _ => false end.

Definition zmem (x : Z) (l : list Z) : bool := existsb (Z.eqb x) l.
Definition has_key {A} (k : Z) (l : list (Z * A)) : bool := existsb (fun e => fst e =? k) l.
Definition del_key {A} (k : Z) (l : list (Z * A)) : list (Z * A) := filter (fun e => negb (fst e =? k)) l.
(* d[k] = v *)
Definition upsert {A} (k : Z) (v : A) (l : list (Z * A)) : list (Z * A) := (k, v) :: del_key k l.
Definition opt_eqb (o : option Z) (x : Z) : bool := match o with Some y => y =? x | None => false end.
Definition or0 (o : option Z) : Z := match o with Some y => y | None => 0 end.   (* (o or 0), o None or an int *)

(* ---- set_vru_role_on / set_vru_role_off ------------------------------ *)
Definition role_on (s : state) : state :=
  match vst s with Idle => set_vst Standalone s | _ => s end.

Definition role_off (s : state) : state :=
  set_ls LNone (set_js JNone (set_last_leader None (set_leader None (set_joined None
    (set_cluster None (set_vst Idle s)))))).

(* ---- try_create_cluster ---------------------------------------------- *)
Definition near_count (s : state) : Z :=
  Z.of_nat (length (filter (fun e => (now s - snd (snd e) <? nearby_max_age) && fst (snd e)) (vrus s))).

(* _generate_unique_cluster_id: prune, then the first of at most 100 draws not seen recently *)
Definition prune_seen (s : state) : list (Z * Z) :=
  filter (fun e => now s - snd e <? time_cluster_uniqueness_threshold) (seen s).
Definition pick_id (recent : list (Z * Z)) (draws : list Z) : option Z :=
  find (fun d => negb (has_key d recent)) (firstn cluster_id_attempts draws).

Definition try_create (draws : list Z) (s : state) : state * bool :=
  match vst s with
  | Standalone =>
    if negb (jsub_eqb (js s) JNone) || negb (lsub_eqb (ls s) LNone) then (s, false)
    else if near_count s <? num_create_cluster then (s, false)
    else
      let s1 := set_seen (prune_seen s) s in
      match pick_id (seen s1) draws with
      | None => (s1, false)
      | Some cid =>
        (set_vst Leader (set_cluster (Some (mkCluster cid min_cluster_size (profile_bits (own_profile s))
                                                     max_cluster_distance None None [])) s1), true)
      end
  | _ => (s, false)
  end.

(* ---- initiate_join / cancel_join / confirm_join_failed ---------------- *)
Definition initiate_join (cid : Z) (s : state) : state * bool :=
  match vst s with
  | Standalone =>
    if negb (jsub_eqb (js s) JNone) then (s, false)
    else if negb (lsub_eqb (ls s) LNone) then (s, false)
    else (set_j_started (Some (now s)) (set_j_target (Some cid) (set_js JNotify s)), true)
  | _ => (s, false)
  end.

Definition cancel_join (s : state) : state :=
  match js s with
  | JNotify | JWaiting =>
    set_js JCancelled (set_jl_started (Some (now s)) (set_jl_reason (Some lr_cancelled_join) s))
  | _ => s
  end.

Definition confirm_join_failed (s : state) : state :=
  match js s with
  | JWaiting => set_js JFailed (set_jl_started (Some (now s)) (set_jl_reason (Some lr_failed_join) s))
  | _ => s
  end.

(* ---- _do_leave_to_standalone / trigger_leave_cluster ------------------ *)
Definition do_leave (reason : Z) (s : state) : state :=
  set_vst Standalone (set_j_target None (set_js JNone (set_last_leader None (set_leader None
    (set_joined None (set_l_started (Some (now s)) (set_l_cluster (joined s)
      (set_l_reason (Some reason) (set_ls LNotify s))))))))).

Definition leave (reason : Z) (s : state) : state :=
  match vst s with
  | Passive => do_leave reason s
  | Standalone => match js s with JNotify => cancel_join s | _ => s end
  | _ => s
  end.

(* ---- trigger_breakup_cluster ----------------------------------------- *)
Definition breakup (reason : Z) (s : state) : state * bool :=
  match vst s, cluster s with
  | Leader, Some c =>
    match c_bk_started c with
    | Some _ => (s, false)
    | None => (set_cluster (Some (mkCluster (c_id c) (c_card c) (c_profiles c) (c_radius c)
                                            (Some (now s)) (Some reason) (c_pending c))) s, true)
    end
  | _, _ => (s, false)
  end.

(* ---- update ----------------------------------------------------------- *)
Definition expire_tables (s : state) : state :=
  set_ncls (filter (fun e => now s - snd (snd e) <? nearby_max_age) (ncls s))
    (set_vrus (filter (fun e => now s - snd (snd e) <? nearby_max_age) (vrus s)) s).

(* the leave-notification timeout, shared by _update_standalone and _update_passive *)
Definition leave_timeout (s : state) : state :=
  match ls s, l_started s with
  | LNotify, Some t =>
    if time_cluster_leave_notification <=? now s - t
    then set_l_started None (set_l_cluster None (set_l_reason None (set_ls LNone s)))
    else s
  | _, _ => s      (* LNotify with no start time would fail the assert; see no_assert_fails *)
  end.

Definition update_standalone (s : state) : state :=
  let s1 :=
    match js s with
    | JNotify =>
      match j_started s with
      | Some t => if time_cluster_join_notification <=? now s - t
                  then set_j_started (Some (now s)) (set_js JWaiting s) else s
      | None => s
      end
    | JWaiting =>
      match j_started s with
      | Some t => if time_cluster_join_success <=? now s - t then confirm_join_failed s else s
      | None => s
      end
    | JCancelled | JFailed =>
      match jl_started s with
      | Some t => if time_cluster_leave_notification <=? now s - t
                  then set_jl_started None (set_jl_reason None (set_j_target None (set_js JNone s))) else s
      | None => s
      end
    | _ => s
    end in
  leave_timeout s1.

Definition update_leader (s : state) : state :=
  match cluster s with
  | Some c =>
    match c_bk_started c with
    | Some t => if time_cluster_breakup_warning <=? now s - t
                then set_vst Standalone (set_cluster None s) else s
    | None => s
    end
  | None => s
  end.

Definition update_passive (s : state) : state :=
  match last_leader s with
  | Some t => if time_cluster_continuity <=? now s - t then do_leave lr_leader_lost s else leave_timeout s
  | None => leave_timeout s
  end.

Definition update (s : state) : state :=
  let s1 := expire_tables s in
  match vst s1 with
  | Standalone => update_standalone s1
  | Leader => update_leader s1
  | Passive => update_passive s1
  | Idle => s1
  end.

(* ---- on_received_vam --------------------------------------------------- *)
(* A decoded VAM as far as _process_received_vam looks at it. *)
Record vam := mkVam {
  sender : Z;                    (* header.stationId *)
  near : bool;                   (* position within MAX_CLUSTER_DISTANCE of the own position *)
  info : option (option Z * Z);  (* vruClusterInformation: (clusterId OPTIONAL, clusterCardinalitySize) *)
  op_join : option Z;            (* clusterJoinInfo.clusterId *)
  op_leave : option Z;           (* clusterLeaveInfo.clusterId *)
  op_breakup : option Z }.       (* clusterBreakupInfo.clusterBreakupReason *)

Definition complete_join (sid : Z) (s : state) : state :=
  set_vst Passive (set_last_leader (Some (now s)) (set_leader (Some sid)
    (set_joined (j_target s) (set_js JJoined s)))).

Definition rx_tables (v : vam) (s : state) : state :=
  set_vrus (upsert (sender v) (near v, now s) (vrus s)) s.

Definition rx_info (v : vam) (s : state) : state :=
  match info v with
  | None => s
  | Some (ocid, card) =>
    let cid := or0 ocid in
    let s1 := set_ncls (upsert cid (sender v, card, now s) (ncls s)) s in
    let s2 := if has_key cid (seen s1) then s1 else set_seen (seen s1 ++ [(cid, now s1)]) s1 in
    match vst s2, js s2, j_target s2 with
    | Standalone, JWaiting, Some t => if cid =? t then complete_join (sender v) s2 else s2
    | _, _, _ => s2
    end
  end.

Definition pending_add (x : Z) (l : list Z) : list Z := if zmem x l then l else l ++ [x].
Definition pending_del (x : Z) (l : list Z) : list Z := filter (fun y => negb (y =? x)) l.
Definition card_of (pending : list Z) : Z := Z.max min_cluster_size (Z.of_nat (length pending) + 1).
Definition with_pending (c : cluster_t) (p : list Z) : cluster_t :=
  mkCluster (c_id c) (card_of p) (c_profiles c) (c_radius c) (c_bk_started c) (c_bk_reason c) p.

(* leader side: join / leave notifications of members *)
Definition rx_members (v : vam) (s : state) : state :=
  match vst s, cluster s with
  | Leader, Some c =>
    let c1 := if opt_eqb (op_join v) (c_id c) then with_pending c (pending_add (sender v) (c_pending c)) else c in
    let c2 := if opt_eqb (op_leave v) (c_id c1) then with_pending c1 (pending_del (sender v) (c_pending c1)) else c1 in
    set_cluster (Some c2) s
  | _, _ => s
  end.

(* member side: breakup announced. The second disjunct of the code compares the joined id with
   the id of self._nearby_clusters.get(0, <dummy with id 0>), which is 0 in both cases. *)
Definition rx_breakup (v : vam) (s : state) : state :=
  match op_breakup v with
  | None => s
  | Some r =>
    match vst s with
    | Passive =>
      if opt_eqb (leader s) (sender v) || opt_eqb (joined s) 0
      then (if r =? br_cpm then s else do_leave lr_disbanded s)
      else s
    | _ => s
    end
  end.

Definition rx_heartbeat (v : vam) (s : state) : state :=
  match vst s with
  | Passive => if opt_eqb (leader s) (sender v) then set_last_leader (Some (now s)) s else s
  | _ => s
  end.

Definition rx (v : vam) (s : state) : state :=
  rx_heartbeat v (rx_breakup v (rx_members v (rx_info v (rx_tables v s)))).

(* ---- observations ------------------------------------------------------ *)
Definition should_transmit (s : state) : bool :=
  match vst s with
  | Idle => false
  | Passive => lsub_eqb (ls s) LNotify
  | _ => true
  end.

(* get_cluster_information_container: (clusterId, radius, cardinality, profile byte) *)
Definition info_container (s : state) : option (Z * Z * Z * Z) :=
  match vst s, cluster s with
  | Leader, Some c => Some (c_id c, Z.max 1 (c_radius c), c_card c, c_profiles c)
  | _, _ => None
  end.

Inductive opc :=
| OpNone
| OpJoin (cid time : Z)
| OpLeave (cid reason : Z)
| OpBreakup (reason time : Z).

(* max(1, min(127, int(max(0.0, total - elapsed) / 0.25))) *)
Definition quarter_steps (total elapsed : Z) : Z :=
  Z.max 1 (Z.min delta_time_cap (Z.max 0 (total - elapsed) / quarter_second)).

(* (self._join_started or now): None and 0.0 are both falsy *)
Definition started_or_now (o : option Z) (n : Z) : Z :=
  match o with Some t => if t =? 0 then n else t | None => n end.

Definition leave_container (s : state) : opc :=
  match ls s with LNotify => OpLeave (or0 (l_cluster s)) (or0 (l_reason s)) | LNone => OpNone end.

Definition op_container (s : state) : opc :=
  match vst s with
  | Standalone =>
    match js s with
    | JNotify => OpJoin (or0 (j_target s))
                        (quarter_steps time_cluster_join_notification (now s - started_or_now (j_started s) (now s)))
    | JCancelled | JFailed => OpLeave (or0 (j_target s)) (or0 (jl_reason s))
    | _ => leave_container s
    end
  | Passive => leave_container s
  | Leader =>
    match cluster s with
    | Some c =>
      match c_bk_started c with
      | Some t => OpBreakup (or0 (c_bk_reason c)) (quarter_steps time_cluster_breakup_warning (now s - t))
      | None => OpNone
      end
    | None => OpNone
    end
  | Idle => OpNone
  end.

Definition get_cluster_id (s : state) : option Z :=
  match vst s with
  | Leader => match cluster s with Some c => Some (c_id c) | None => None end
  | Passive => joined s
  | _ => None
  end.

(* ---- events and runs --------------------------------------------------- *)
Inductive event :=
| Tick (dt : Z)                 (* the clock advances *)
| RoleOn | RoleOff
| TryCreate (draws : list Z)
| InitiateJoin (cid : Z)
| CancelJoin
| ConfirmJoinFailed
| Leave (reason : Z)
| Breakup (reason : Z)
| Update
| Rx (v : vam).

(* result code of the method: 0 False, 1 True, 2 None *)
Definition step_ret (s : state) (e : event) : state * Z :=
  match e with
  | Tick dt => (set_now (now s + dt) s, 2)
  | RoleOn => (role_on s, 2)
  | RoleOff => (role_off s, 2)
  | TryCreate ds => let '(s', b) := try_create ds s in (s', b2z b)
  | InitiateJoin c => let '(s', b) := initiate_join c s in (s', b2z b)
  | CancelJoin => (cancel_join s, 2)
  | ConfirmJoinFailed => (confirm_join_failed s, 2)
  | Leave r => (leave r s, 2)
  | Breakup r => let '(s', b) := breakup r s in (s', b2z b)
  | Update => (update s, 2)
  | Rx v => (rx v s, 2)
  end.

Definition step (s : state) (e : event) : state := fst (step_ret s e).
Definition run (s : state) (evs : list event) : state := fold_left step evs s.

(* Well-formed inputs: the clock does not go backwards and random.randint(1, 255) keeps its contract. *)
Definition wf_event (e : event) : Prop :=
  match e with
  | Tick dt => 0 <= dt
  | TryCreate ds => Forall (fun d => 1 <= d <= 255) ds
  | _ => True
  end.

Definition reachable (s : state) : Prop :=
  exists own prof t0 evs, Forall wf_event evs /\ s = run (init own prof t0) evs.

(* ---- vocabulary of the duration theorems (Properties/C18.v) -------------------------------
   quiet P s evs: P holds of every event of evs in the state in which it is executed. *)
Fixpoint quiet (P : state -> event -> Prop) (s : state) (evs : list event) : Prop :=
  match evs with
  | [] => True
  | e :: r => P s e /\ quiet P (step s e) r
  end.

(* an update that runs before the deadline t0 + d; any other event *)
Definition before_deadline (t0 d : Z) (s : state) (e : event) : Prop :=
  match e with Update => now s - t0 < d | _ => True end.

(* The phases end early only by the commands whose purpose that is: cancel_join / trigger_leave_cluster
   end a join notification, and VRU_ROLE_OFF ends everything (the device user is no longer a VRU). *)
Definition join_undisturbed (t0 : Z) (s : state) (e : event) : Prop :=
  wf_event e /\ before_deadline t0 time_cluster_join_notification s e /\
  match e with CancelJoin | Leave _ | RoleOff => False | _ => True end.

Definition leave_undisturbed (t0 : Z) (s : state) (e : event) : Prop :=
  wf_event e /\ before_deadline t0 time_cluster_leave_notification s e /\
  match e with RoleOff => False | _ => True end.

Definition breakup_undisturbed (t0 : Z) (s : state) (e : event) : Prop :=
  wf_event e /\ before_deadline t0 time_cluster_breakup_warning s e /\
  match e with RoleOff => False | _ => True end.

(* ---- driver entry point ------------------------------------------------ *)
Definition vbs_code (x : vbs) : Z := match x with Idle => 0 | Standalone => 1 | Leader => 2 | Passive => 3 end.
Definition jsub_code (x : jsub) : Z :=
  match x with JNone => 0 | JNotify => 1 | JWaiting => 2 | JJoined => 3 | JCancelled => 4 | JFailed => 5 end.
Definition lsub_code (x : lsub) : Z := match x with LNone => 0 | LNotify => 1 end.
Definition oz (o : option Z) : list Z := match o with Some x => [1; x] | None => [0; 0] end.
Definition zlen {A} (l : list A) : Z := Z.of_nat (length l).

Definition dump_cluster (o : option cluster_t) : list Z :=
  match o with
  | None => [0]
  | Some c => [1; c_id c; c_card c; c_profiles c; c_radius c] ++ oz (c_bk_started c) ++ oz (c_bk_reason c)
              ++ zlen (c_pending c) :: c_pending c
  end.

Definition dump_opc (o : opc) : list Z :=
  match o with
  | OpNone => [0; 0; 0]
  | OpJoin c t => [1; c; t]
  | OpLeave c r => [2; c; r]
  | OpBreakup r t => [3; r; t]
  end.

Definition dump (s : state) : list Z :=
  [vbs_code (vst s)] ++ dump_cluster (cluster s) ++ oz (joined s) ++ oz (leader s) ++ oz (last_leader s)
  ++ [jsub_code (js s)] ++ oz (j_target s) ++ oz (j_started s) ++ oz (jl_reason s) ++ oz (jl_started s)
  ++ [lsub_code (ls s)] ++ oz (l_reason s) ++ oz (l_cluster s) ++ oz (l_started s)
  ++ zlen (vrus s) :: flat_map (fun e => [fst e; b2z (fst (snd e)); snd (snd e)]) (vrus s)
  ++ zlen (ncls s) :: flat_map (fun e => let '(l, c, t) := snd e in [fst e; l; c; t]) (ncls s)
  ++ zlen (seen s) :: flat_map (fun e => [fst e; snd e]) (seen s)
  ++ [b2z (should_transmit s)]
  ++ match info_container s with Some (i, r, c, p) => [1; i; r; c; p] | None => [0; 0; 0; 0; 0] end
  ++ dump_opc (op_container s)
  ++ oz (get_cluster_id s).

Definition zopt (flag x : Z) : option Z := if flag =? 0 then None else Some x.

(* event codes: 0 Tick dt | 1 RoleOn | 2 RoleOff | 3 TryCreate n d1..dn | 4 InitiateJoin cid | 5 CancelJoin
   | 6 ConfirmJoinFailed | 7 Leave r | 8 Breakup r | 9 Update
   | 10 Rx sender near info? cid? cid card join? jcid leave? lcid breakup? reason *)
Fixpoint parse (fuel : nat) (l : list Z) : list event :=
  match fuel with
  | O => []
  | S k =>
    match l with
    | [] => []
    | c :: r =>
      if c =? 0 then match r with dt :: r' => Tick dt :: parse k r' | _ => [] end
      else if c =? 1 then RoleOn :: parse k r
      else if c =? 2 then RoleOff :: parse k r
      else if c =? 3 then
        match r with
        | n :: r' => TryCreate (firstn (Z.to_nat n) r') :: parse k (skipn (Z.to_nat n) r')
        | _ => []
        end
      else if c =? 4 then match r with x :: r' => InitiateJoin x :: parse k r' | _ => [] end
      else if c =? 5 then CancelJoin :: parse k r
      else if c =? 6 then ConfirmJoinFailed :: parse k r
      else if c =? 7 then match r with x :: r' => Leave x :: parse k r' | _ => [] end
      else if c =? 8 then match r with x :: r' => Breakup x :: parse k r' | _ => [] end
      else if c =? 9 then Update :: parse k r
      else if c =? 10 then
        match r with
        | sd :: nr :: ip :: cp :: cid :: card :: jp :: jc :: lp :: lc :: bp :: br :: r' =>
          Rx (mkVam sd (z2b nr) (if ip =? 0 then None else Some (zopt cp cid, card))
                    (zopt jp jc) (zopt lp lc) (zopt bp br)) :: parse k r'
        | _ => []
        end
      else []
    end
  end.

(* per event: [length of the record; result code; dump of the state after the event] *)
Fixpoint trace (s : state) (evs : list event) : list Z :=
  match evs with
  | [] => []
  | e :: r =>
    let '(s', ret) := step_ret s e in
    let d := ret :: dump s' in
    zlen d :: d ++ trace s' r
  end.

(* cmd 1: own profile t0 events...  -> trace after every event
   cmd 2: own profile t0 events...  -> [result of last event; dump of the final state] *)
Definition dispatch (cmd : Z) (a : list Z) : list Z :=
  match a with
  | own :: prof :: t0 :: r =>
    let evs := parse (length r) r in
    if cmd =? 1 then trace (init own prof t0) evs
    else if cmd =? 2 then dump (run (init own prof t0) evs)
    else []
  | _ => []
  end.
