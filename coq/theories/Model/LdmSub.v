(* Model of LDM subscriptions (IF.LDM.4 subscribe / unsubscribe / (de)registration of data
   consumers, LDMService.attend_subscriptions / process_notifications, the reactive attendance
   of LDMServiceReactive.add_provider_data), after the fix: commits of C14. Definitions only.

   The data a subscription is notified with is LdmFilter.query (C13). Time is the ITS clock in
   integer milliseconds; TimestampIts "now" is truncated to whole seconds. Every subscription
   has its own callback object (the harness passes a fresh one), numbered in order of the
   successful subscriptions. Stored objects do not expire inside this model (the harness keeps
   them valid and outside the maintenance zone; expiry is C12). *)
From FlexVerif Require Import Base.Prelude Model.LdmFilter.

Record sub := mkSub {
  u_key : Z;             (* subscription id = hash of the request; equal requests share it *)
  u_cb : Z;              (* callback number *)
  u_app : Z;             (* subscribing application *)
  u_req : req;           (* data object types, filter, order *)
  u_nt : option Z;       (* notify_time in ms; None = no interval *)
  u_mult : option Z;     (* multiplicity; None = no minimum *)
  u_last : Z             (* last_checked_subscriptions_time: second-truncated ITS ms *)
}.

Record st := mkSt {
  store : list obj;      (* stored containers in insertion order *)
  next_idx : Z;
  conss : list Z;        (* registered data consumers *)
  subs : list sub;       (* LDMService.subscriptions, in order of subscription *)
  next_cb : Z;
  now : Z;               (* ITS ms *)
  last_attend : Z        (* LDMServiceReactive.last_subscription_time, same clock *)
}.

Definition init (t0 : Z) : st := mkSt [] 0 [] [] 0 t0 t0.

(* a subscription request as it reaches validate_subscribe_data_consumer *)
Record sreq := mkSreq {
  r_app : Z;
  r_key : Z;               (* identity of the request (interned by the harness) *)
  r_types : list Z;
  r_prio : option Z;
  r_order_ok : bool;       (* every ordering direction is ascending or descending *)
  r_orders : list order;
  r_flt_ok : bool;         (* the filter is a Filter object (or absent) *)
  r_flt : flt;
  r_nt : option Z;
  r_mult : option Z
}.

Inductive op :=
| RegCons (aid : Z) (perms : list Z)
| DeregCons (aid : Z)
| Subscribe (r : sreq)
| Unsubscribe (aid key : Z)
| AddObj (typ : Z) (v : jv)       (* by a registered provider; reactive attendance inside *)
| DelObj (idx : Z)
| Advance (ms : Z)
| Attend.                          (* explicit attend_subscriptions() *)

Definition set_add (x : Z) (l : list Z) : list Z := if mem x l then l else l ++ [x].
Definition set_del (x : Z) (l : list Z) : list Z := filter (fun y => negb (x =? y)) l.
Definition valid_aid (a : Z) : bool := (1 <=? a) && (a <=? 21).
Definition valid_type (t : Z) : bool := (1 <=? t) && (t <=? 21).
Definition nonempty {A} (l : list A) : bool := match l with [] => false | _ => true end.
Definition reg_cons_ok (aid : Z) (perms : list Z) : bool :=
  valid_aid aid && nonempty perms && (mem aid perms || (aid =? 1) || (aid =? 4) || (aid =? 5)).

Definition trunc_s (t : Z) : Z := (t / 1000) * 1000.

(* SubscribeDataobjectsResult *)
Definition opt_in (o : option Z) (lo hi : Z) : bool :=
  match o with None => true | Some v => (lo <=? v) && (v <=? hi) end.

(* validate_subscribe_data_consumer: the first failing check decides the code *)
Definition validate (s : st) (r : sreq) : Z :=
  if negb (mem (r_app r) (conss s)) then 1
  else if negb (forallb valid_type (r_types r)) then 2
  else if negb (opt_in (r_prio r) 0 255) then 3
  else if negb (r_order_ok r) then 7
  else if negb (r_flt_ok r) then 4
  else if negb (opt_in (r_nt r) 0 4398046511103) then 5
  else if negb (opt_in (r_mult r) 0 255) then 6
  else 0.

(* ---- attendance ---------------------------------------------------------------------- *)
Definition data_of (s : st) (u : sub) : list obj := query (store s) (u_req u).

Definition mult_ok (u : sub) (n : nat) : bool :=
  match u_mult u with None => true | Some m => m <=? Z.of_nat n end.
Definition interval_ok (t : Z) (u : sub) : bool :=
  match u_nt u with None => true | Some nt => u_last u + nt <=? trunc_s t end.

(* a subscription is notified by this attendance *)
Definition due (s : st) (u : sub) : bool :=
  mem (u_app u) (conss s) && nonempty (data_of s u) && mult_ok u (length (data_of s u)) && interval_ok (now s) u.

Definition set_last (u : sub) (t : Z) : sub :=
  mkSub (u_key u) (u_cb u) (u_app u) (u_req u) (u_nt u) (u_mult u) t.

(* one callback invocation: (callback number, store positions of the notified objects) *)
Definition call := (Z * list Z)%type.

(* the loop of attend_subscriptions, subscription by subscription:
   acc = (subscriptions kept so far (reversed), callbacks so far (reversed)) *)
Definition attend_one (s : st) (acc : list sub * list call) (u : sub) : list sub * list call :=
  let '(kept, calls) := acc in
  if negb (mem (u_app u) (conss s)) then (kept, calls)                       (* dropped, no callback *)
  else
    let data := data_of s u in
    if negb (nonempty data) then (u :: kept, calls)
    else if negb (mult_ok u (length data)) then (u :: kept, calls)
    else if negb (interval_ok (now s) u) then (u :: kept, calls)
    else (set_last u (trunc_s (now s)) :: kept, (u_cb u, map o_idx data) :: calls).

Definition attend (s : st) : st * list call :=
  let '(kept, calls) := fold_left (attend_one s) (subs s) ([], []) in
  (mkSt (store s) (next_idx s) (conss s) (rev kept) (next_cb s) (now s) (last_attend s), rev calls).

Definition flat_calls (cs : list call) : list Z :=
  Z.of_nat (length cs) :: flat_map (fun c => fst c :: Z.of_nat (length (snd c)) :: snd c) cs.

Definition step (s : st) (o : op) : st * list Z * list call :=
  match o with
  | RegCons aid perms =>
      if reg_cons_ok aid perms
      then (mkSt (store s) (next_idx s) (set_add aid (conss s)) (subs s) (next_cb s) (now s) (last_attend s), [0], [])
      else (s, [2], [])
  | DeregCons aid =>
      if mem aid (conss s)
      then (mkSt (store s) (next_idx s) (set_del aid (conss s))
                 (filter (fun u => negb (u_app u =? aid)) (subs s)) (next_cb s) (now s) (last_attend s), [0], [])
      else (s, [1], [])
  | Subscribe r =>
      let code := validate s r in
      if code =? 0 then
        let u := mkSub (r_key r) (next_cb s) (r_app r) (mkReq (r_types r) (r_flt r) (r_orders r))
                       (r_nt r) (r_mult r) (trunc_s (now s)) in
        (mkSt (store s) (next_idx s) (conss s) (subs s ++ [u]) (next_cb s + 1) (now s) (last_attend s),
         [0; r_key r], [])
      else (s, [code; 0], [])
  | Unsubscribe aid key =>
      if negb (mem aid (conss s)) then (s, [1], [])
      else if existsb (fun u => u_key u =? key) (subs s)
      then (mkSt (store s) (next_idx s) (conss s) (filter (fun u => negb (u_key u =? key)) (subs s))
                 (next_cb s) (now s) (last_attend s), [0], [])
      else (s, [1], [])
  | AddObj typ v =>
      let s1 := mkSt (store s ++ [mkObj (next_idx s) typ v]) (next_idx s + 1) (conss s) (subs s) (next_cb s)
                     (now s) (last_attend s) in
      if 500 <=? now s - last_attend s then
        let '(s2, calls) := attend s1 in
        (mkSt (store s2) (next_idx s2) (conss s2) (subs s2) (next_cb s2) (now s2) (now s2), [next_idx s], calls)
      else (s1, [next_idx s], [])
  | DelObj idx =>
      if existsb (fun o => o_idx o =? idx) (store s)
      then (mkSt (filter (fun o => negb (o_idx o =? idx)) (store s)) (next_idx s) (conss s) (subs s) (next_cb s)
                 (now s) (last_attend s), [0], [])
      else (s, [1], [])
  | Advance ms => (mkSt (store s) (next_idx s) (conss s) (subs s) (next_cb s) (now s + ms) (last_attend s), [], [])
  | Attend => let '(s1, calls) := attend s in (s1, [], calls)
  end.

Definition st_of (x : st * list Z * list call) : st := fst (fst x).
Definition out_of (x : st * list Z * list call) : list Z := snd (fst x).
Definition calls_of (x : st * list Z * list call) : list call := snd x.

Fixpoint run (s : st) (ops : list op) : st * list (list call) :=
  match ops with
  | [] => (s, [])
  | o :: t => let x := step s o in
              let '(s2, cs) := run (st_of x) t in (s2, calls_of x :: cs)
  end.

Definition state_after (t0 : Z) (ops : list op) : st := fst (run (init t0) ops).
(* every callback invocation of a run, in order *)
Definition all_calls (s : st) (ops : list op) : list call := concat (snd (run s ops)).

(* does this operation attend the subscriptions when executed in state s? *)
Definition attends (s : st) (o : op) : bool :=
  match o with
  | Attend => true
  | AddObj _ _ => 500 <=? now s - last_attend s
  | _ => false
  end.
(* the state in which the attendance inside o looks at the subscriptions *)
Definition attend_view (s : st) (o : op) : st :=
  match o with
  | AddObj typ v => mkSt (store s ++ [mkObj (next_idx s) typ v]) (next_idx s + 1) (conss s) (subs s) (next_cb s)
                         (now s) (last_attend s)
  | _ => s
  end.

(* ---- vocabulary of the property statements ---------------------------------------------- *)
Definition registered (s : st) (u : sub) : bool := mem (u_app u) (conss s).
(* a subscription after an attendance that looked at state s *)
Definition after_attend (s : st) (u : sub) : sub := if due s u then set_last u (trunc_s (now s)) else u.
(* the callback invocation a due subscription gets *)
Definition call_of (s : st) (u : sub) : call := (u_cb u, map o_idx (data_of s u)).
(* the subscription a successful request creates *)
Definition new_sub (s : st) (r : sreq) : sub :=
  mkSub (r_key r) (next_cb s) (r_app r) (mkReq (r_types r) (r_flt r) (r_orders r)) (r_nt r) (r_mult r)
        (trunc_s (now s)).
(* every field of a subscription request is valid *)
Definition all_valid (s : st) (r : sreq) : bool :=
  mem (r_app r) (conss s) && forallb valid_type (r_types r) && opt_in (r_prio r) 0 255 && r_order_ok r &&
  r_flt_ok r && opt_in (r_nt r) 0 4398046511103 && opt_in (r_mult r) 0 255.

(* "the unsubscription of one subscription leaves the subscriptions made with other requests alone".
   injective_ids = true: the other subscription carries another identifier (what the code guarantees);
   injective_ids = false: the other subscription was made with a different request (what the property asks for).
   The identifier of a request is an input of this model (r_key): the code computes it as hash(request), and CPython
   hashes -1 and -2 alike, so two different requests can carry one identifier (known finding KF-C14-1). *)
Definition unsubscribe_spares_other_requests_stmt (injective_ids : bool) : Prop :=
  forall s aid key u v, In u (subs s) -> In v (subs s) -> u_key v = key ->
    (if injective_ids then u_key u <> u_key v else u_req u <> u_req v) ->
    In u (subs (st_of (step s (Unsubscribe aid key)))).

(* ============================================================================== *)
(* driver protocol                                                                   *)
(* ============================================================================== *)
Definition dec_opt (l : list Z) : option (option Z * list Z) :=
  match l with
  | f :: v :: u => Some (if f =? 0 then None else Some v, u)
  | _ => None
  end.

(* sreq: app key ntypes types prio(2) order_ok norders orders flt_ok filter nt(2) mult(2) *)
Definition dec_sreq (l : list Z) : option (sreq * list Z) :=
  match l with
  | app :: key :: nt :: u =>
    match dec_opt (drop nt u) with
    | Some (prio, ook :: no :: u1) =>
      match dec_orders (Z.to_nat no) u1 with
      | Some (os, fok :: u2) =>
        match dec_flt u2 with
        | Some (f, u3) =>
          match dec_opt u3 with
          | Some (ntime, u4) =>
            match dec_opt u4 with
            | Some (mult, u5) =>
              Some (mkSreq app key (take nt u) prio (z2b ook) os (z2b fok) f ntime mult, u5)
            | None => None end
          | None => None end
        | None => None end
      | _ => None end
    | _ => None end
  | _ => None
  end.

(* ops: 1 RegCons aid n perms | 2 DeregCons aid | 3 Subscribe sreq | 4 Unsubscribe aid key
        5 AddObj typ value | 6 DelObj idx | 7 Advance ms | 8 Attend *)
Fixpoint decode (fuel : nat) (l : list Z) : list op :=
  match fuel with
  | O => []
  | S f =>
    match l with
    | [] => []
    | code :: t =>
      if code =? 1 then
        match t with aid :: n :: u => RegCons aid (take n u) :: decode f (drop n u) | _ => [] end
      else if code =? 2 then match t with aid :: u => DeregCons aid :: decode f u | _ => [] end
      else if code =? 3 then
        match dec_sreq t with Some (r, u) => Subscribe r :: decode f u | None => [] end
      else if code =? 4 then match t with aid :: key :: u => Unsubscribe aid key :: decode f u | _ => [] end
      else if code =? 5 then
        match t with
        | typ :: u => match dec_jv (length u) u with Some (v, u1) => AddObj typ v :: decode f u1 | None => [] end
        | _ => [] end
      else if code =? 6 then match t with idx :: u => DelObj idx :: decode f u | _ => [] end
      else if code =? 7 then match t with ms :: u => Advance ms :: decode f u | _ => [] end
      else if code =? 8 then Attend :: decode f t
      else []
    end
  end.

(* observable state: subscriptions (key, callback, last notified), consumers, stored positions *)
Definition dump (s : st) : list Z :=
  Z.of_nat (length (subs s)) :: flat_map (fun u => [u_key u; u_cb u; u_last u]) (subs s)
  ++ Z.of_nat (length (conss s)) :: conss s
  ++ Z.of_nat (length (store s)) :: map o_idx (store s).

(* per operation: [len out; out...; calls...; dump...] *)
Fixpoint run_dump (s : st) (ops : list op) : list Z :=
  match ops with
  | [] => []
  | o :: t => let x := step s o in
              Z.of_nat (length (out_of x)) :: out_of x ++ flat_calls (calls_of x) ++ dump (st_of x)
              ++ run_dump (st_of x) t
  end.

(* cmd 1: [t0; ops...] -> run_dump ; cmd 2: same -> number of decoded operations *)
Definition dispatch (cmd : Z) (a : list Z) : list Z :=
  let l := skipn 1 a in
  if cmd =? 1 then run_dump (init (arg 0 a)) (decode (length l) l)
  else if cmd =? 2 then [Z.of_nat (length (decode (length l) l))]
  else [].
