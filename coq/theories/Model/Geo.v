(* EN 302 931 clause 5: the geometric function F over exact rationals.  (x, y) are the Cartesian
   offsets of the point from the area centre, x along the azimuth direction (long side / semi-major
   axis), y perpendicular to it; a, b the (semi-)axes.  F >= 0 <-> inside or on the border.
   The implementation evaluates the same expressions in floating point from a projection of
   WGS-84 coordinates; that projection and the rounding are NOT modelled (see the trusted base). *)
From Coq Require Import QArith Qminmax.
Open Scope Q_scope.

Definition sq (x : Q) : Q := x * x.
Definition F_circle (r x y : Q) : Q := 1 - sq (x / r) - sq (y / r).
Definition F_ellipse (a b x y : Q) : Q := 1 - sq (x / a) - sq (y / b).
Definition F_rect (a b x y : Q) : Q := Qmin (1 - sq (x / a)) (1 - sq (y / b)).

(* rotation of the (north, east) offsets into the area's own frame; (c, s) = (cos, sin) of the azimuth *)
Definition rot_x (c s n e : Q) : Q := n * c + e * s.
Definition rot_y (c s n e : Q) : Q := e * c - n * s.

Definition inside_circle (r n e : Q) : bool := Qle_bool 0 (F_circle r n e).
Definition inside_rect (a b c s n e : Q) : bool := Qle_bool 0 (F_rect a b (rot_x c s n e) (rot_y c s n e)).
Definition inside_ellipse (a b c s n e : Q) : bool := Qle_bool 0 (F_ellipse a b (rot_x c s n e) (rot_y c s n e)).

(* Annex D of EN 302 636-4-1: forwarding algorithm selection *)
Inductive algo := AreaForwarding | NonAreaForwarding | Discard.
Definition annexD (ego_inside se_pos_valid se_inside : bool) : algo :=
  if ego_inside then AreaForwarding
  else if se_pos_valid && se_inside then Discard else NonAreaForwarding.
