(* GeoNetworking / BTP wire formats (EN 302 636-4-1 clause 9, EN 302 636-5-1
   clause 7) as the implementation encodes and decodes them, expressed through
   layout tables and the generic codec of Base/Bits.v.  Definitions only.

   A header is handled as the list of its semantic field values in layout order
   (the "view"); raw_X inserts reserved bits and converts signed quantities to
   two's complement, view_X goes back and performs the decoder's checks. *)
From FlexVerif Require Import Base.Prelude Base.Bits Model.Lifetime.

(* ---- layout tables ------------------------------------------------------- *)
Definition basic_ws  : list Z := [4; 4; 8; 6; 2; 8].
Definition common_ws : list Z := [4; 4; 4; 4; 1; 1; 6; 8; 16; 8; 8].
Definition gnaddr_ws : list Z := [1; 5; 10; 48].
Definition lpv_ws    : list Z := gnaddr_ws ++ [32; 32; 32; 1; 15; 16].
Definition spv_ws    : list Z := gnaddr_ws ++ [32; 32; 32].
Definition sn_ws     : list Z := [16; 16].
Definition area_ws   : list Z := [32; 32; 16; 16; 16; 16].
Definition tsb_ws    : list Z := sn_ws ++ lpv_ws.
Definition shb_ws    : list Z := lpv_ws ++ [32].
Definition gbc_ws    : list Z := sn_ws ++ lpv_ws ++ area_ws.
Definition guc_ws    : list Z := sn_ws ++ lpv_ws ++ spv_ws.
Definition lsreq_ws  : list Z := sn_ws ++ lpv_ws ++ gnaddr_ws.
Definition btp_ws    : list Z := [16; 16].

(* ---- views <-> raw field lists ------------------------------------------ *)
(* GN address view [m; st; mid] *)
Definition raw_gnaddr (v : list Z) : list Z := [arg 0 v; arg 1 v; 0; arg 2 v].
Definition view_gnaddr (r : list Z) : option (list Z) :=
  if arg 1 r <=? 12 then Some [arg 0 r; arg 1 r; arg 3 r] else None.  (* ST enum 0..12 *)

(* LPV view [m; st; mid; tst; lat; lon; pai; s; h]; lat, lon, s signed *)
Definition raw_lpv (v : list Z) : list Z :=
  raw_gnaddr (firstn 3 v) ++
  [arg 3 v mod 2 ^ 32; to_unsigned 32 (arg 4 v); to_unsigned 32 (arg 5 v); arg 6 v;
   to_unsigned 15 (arg 7 v); arg 8 v].
Definition view_lpv (r : list Z) : option (list Z) :=
  match view_gnaddr (firstn 4 r) with
  | None => None
  | Some a => Some (a ++ [arg 4 r; to_signed 32 (arg 5 r); to_signed 32 (arg 6 r); arg 7 r;
                          to_signed 15 (arg 8 r); arg 9 r])
  end.

(* SPV view [m; st; mid; tst; lat; lon] *)
Definition raw_spv (v : list Z) : list Z :=
  raw_gnaddr (firstn 3 v) ++ [arg 3 v mod 2 ^ 32; to_unsigned 32 (arg 4 v); to_unsigned 32 (arg 5 v)].
Definition view_spv (r : list Z) : option (list Z) :=
  match view_gnaddr (firstn 4 r) with
  | None => None
  | Some a => Some (a ++ [arg 4 r; to_signed 32 (arg 5 r); to_signed 32 (arg 6 r)])
  end.

(* Basic header view [version; nh; reserved; lt_mult; lt_base; rhl] *)
Definition view_basic (r : list Z) : option (list Z) :=
  if arg 1 r <=? 2 then Some r else None.                   (* BasicNH enum 0..2 *)

(* Common header view [nh; ht; hst; scf; offload; tcid; flags; pl; mhl; reserved] *)
(* CommonHeader.encode_to_int ORs `reserved << 56` over the first octet as well: a header whose
   trailing reserved octet is non-zero (never produced by a conformant sender) is re-encoded with
   that octet smeared over NH and the reserved nibble.  Modelled as it is; wf_common demands 0. *)
Definition raw_common (v : list Z) : list Z :=
  [Z.lor (arg 0 v) (arg 9 v / 16); (arg 9 v) mod 16; arg 1 v; arg 2 v; arg 3 v; arg 4 v; arg 5 v; arg 6 v;
   arg 7 v; arg 8 v; arg 9 v].
Definition hst_ok (ht hst : Z) : bool :=
  if (ht =? 4) || (ht =? 3) then hst <=? 2            (* GBC / GAC: circle, rect, ellipse *)
  else if (ht =? 5) || (ht =? 6) then hst <=? 1       (* TSB: SHB / multi-hop; LS: request / reply *)
  else hst =? 0.
Definition view_common (r : list Z) : option (list Z) :=
  let nh := arg 0 r in let ht := arg 2 r in let hst := arg 3 r in
  if (nh <=? 3) && (ht <=? 6) && hst_ok ht hst then
    Some [nh; ht; hst; arg 4 r; arg 5 r; arg 6 r; Z.land (arg 7 r) 128; arg 8 r; arg 9 r; arg 10 r]
  else None.

(* ---- header codecs -------------------------------------------------------- *)
Definition obind {A B} (o : option A) (f : A -> option B) : option B :=
  match o with Some a => f a | None => None end.

Definition enc_basic (v : list Z) : list Z := enc_fields basic_ws v.
Definition dec_basic (bs : list Z) : option (list Z) := obind (dec_fields basic_ws bs) view_basic.

Definition enc_common (v : list Z) : list Z := enc_fields common_ws (raw_common v).
Definition dec_common (bs : list Z) : option (list Z) := obind (dec_fields common_ws bs) view_common.

Definition enc_gnaddr (v : list Z) : list Z := enc_fields gnaddr_ws (raw_gnaddr v).
Definition dec_gnaddr (bs : list Z) : option (list Z) := obind (dec_fields gnaddr_ws bs) view_gnaddr.

Definition enc_lpv (v : list Z) : list Z := enc_fields lpv_ws (raw_lpv v).
Definition dec_lpv (bs : list Z) : option (list Z) := obind (dec_fields lpv_ws bs) view_lpv.

Definition enc_spv (v : list Z) : list Z := enc_fields spv_ws (raw_spv v).
Definition dec_spv (bs : list Z) : option (list Z) := obind (dec_fields spv_ws bs) view_spv.

(* TSB / GBC / GUC / LS views: [sn; reserved] ++ lpv view ++ tail *)
Definition enc_tsb (v : list Z) : list Z :=
  enc_fields sn_ws (firstn 2 v) ++ enc_lpv (skipn 2 v).
Definition dec_tsb (bs : list Z) : option (list Z) :=
  if (length bs <? 28)%nat then None else
  obind (dec_fields sn_ws bs) (fun h => obind (dec_lpv (skipn 4 bs)) (fun p => Some (h ++ p))).

(* area view [lat; lon; a; b; angle; reserved], lat/lon signed *)
Definition raw_area (v : list Z) : list Z :=
  [to_unsigned 32 (arg 0 v); to_unsigned 32 (arg 1 v); arg 2 v; arg 3 v; arg 4 v; arg 5 v].
Definition view_area (r : list Z) : list Z :=
  [to_signed 32 (arg 0 r); to_signed 32 (arg 1 r); arg 2 r; arg 3 r; arg 4 r; arg 5 r].

Definition enc_gbc (v : list Z) : list Z :=
  enc_fields sn_ws (firstn 2 v) ++ enc_lpv (firstn 9 (skipn 2 v)) ++ enc_fields area_ws (raw_area (skipn 11 v)).
Definition dec_gbc (bs : list Z) : option (list Z) :=
  if (length bs <? 44)%nat then None else
  obind (dec_fields sn_ws bs) (fun h => obind (dec_lpv (skipn 4 bs)) (fun p =>
  obind (dec_fields area_ws (skipn 28 bs)) (fun a => Some (h ++ p ++ view_area a)))).

Definition enc_guc (v : list Z) : list Z :=
  enc_fields sn_ws (firstn 2 v) ++ enc_lpv (firstn 9 (skipn 2 v)) ++ enc_spv (skipn 11 v).
Definition dec_guc (bs : list Z) : option (list Z) :=
  if (length bs <? 48)%nat then None else
  obind (dec_fields sn_ws bs) (fun h => obind (dec_lpv (skipn 4 bs)) (fun p =>
  obind (dec_spv (firstn 20 (skipn 28 bs))) (fun d => Some (h ++ p ++ d)))).

Definition enc_lsreq (v : list Z) : list Z :=
  enc_fields sn_ws (firstn 2 v) ++ enc_lpv (firstn 9 (skipn 2 v)) ++ enc_gnaddr (skipn 11 v).
Definition dec_lsreq (bs : list Z) : option (list Z) :=
  if (length bs <? 36)%nat then None else
  obind (dec_fields sn_ws bs) (fun h => obind (dec_lpv (skipn 4 bs)) (fun p =>
  obind (dec_gnaddr (skipn 28 bs)) (fun d => Some (h ++ p ++ d)))).

Definition enc_btp (v : list Z) : list Z := enc_fields btp_ws v.
Definition dec_btp (bs : list Z) : option (list Z) := dec_fields btp_ws bs.

(* ---- well-formedness of views (each field within its width / range) ------- *)
Definition in_s (w v : Z) : bool := (- 2 ^ (w - 1) <=? v) && (v <? 2 ^ (w - 1)).
Definition wf_gnaddr (v : list Z) : bool :=
  (length v =? 3)%nat && fits 1 (arg 0 v) && (0 <=? arg 1 v) && (arg 1 v <=? 12) && fits 48 (arg 2 v).
Definition wf_lpv (v : list Z) : bool :=
  (length v =? 9)%nat && wf_gnaddr (firstn 3 v) && fits 32 (arg 3 v) && in_s 32 (arg 4 v) && in_s 32 (arg 5 v)
  && fits 1 (arg 6 v) && in_s 15 (arg 7 v) && fits 16 (arg 8 v).
Definition wf_spv (v : list Z) : bool :=
  (length v =? 6)%nat && wf_gnaddr (firstn 3 v) && fits 32 (arg 3 v) && in_s 32 (arg 4 v) && in_s 32 (arg 5 v).
Definition wf_basic (v : list Z) : bool := all_fit basic_ws v && (arg 1 v <=? 2).
Definition wf_common (v : list Z) : bool :=
  (length v =? 10)%nat && (0 <=? arg 0 v) && (arg 0 v <=? 3) && (0 <=? arg 1 v) && (arg 1 v <=? 6)
  && (0 <=? arg 2 v) && hst_ok (arg 1 v) (arg 2 v)
  && fits 1 (arg 3 v) && fits 1 (arg 4 v) && fits 6 (arg 5 v) && ((arg 6 v =? 0) || (arg 6 v =? 128))
  && fits 16 (arg 7 v) && fits 8 (arg 8 v) && (arg 9 v =? 0).
Definition wf_area (v : list Z) : bool :=
  (length v =? 6)%nat && in_s 32 (arg 0 v) && in_s 32 (arg 1 v) && fits 16 (arg 2 v) && fits 16 (arg 3 v)
  && fits 16 (arg 4 v) && fits 16 (arg 5 v).
Definition wf_sn (v : list Z) : bool := all_fit sn_ws v.

(* ---- packets as the router builds them ------------------------------------ *)
(* mib = [mobile; default_lifetime_s; default_hop_limit] *)
Definition tc_fields (scf off tcid : Z) := [scf; off; tcid].

Definition bh_for (default_s req_ms rhl : Z) : list Z :=
  let '(m, b) := req_lt default_s (if req_ms <? 0 then None else Some req_ms) in
  enc_basic [1; 1; 0; m; b; rhl].

(* beacon: NOTE flags carries itsGnIsMobile in bit 0 (value 1), not bit 7: pinned by the
   repository's test_GNDataRequestBeacon; known finding KF-C02-1 *)
Definition mk_beacon (mobile default_s : Z) (ego : list Z) : list Z :=
  bh_for default_s (-1) 1 ++ enc_common [0; 1; 0; 0; 0; 0; mobile; 0; 1; 0] ++ enc_lpv ego.

Definition mk_shb (mobile default_s req_ms nh scf off tcid : Z) (ego payload : list Z) : list Z :=
  bh_for default_s req_ms 1
  ++ enc_common [nh; 5; 0; scf; off; tcid; mobile * 128; Z.of_nat (length payload); 1; 0]
  ++ enc_lpv ego ++ [0; 0; 0; 0] ++ payload.

Definition hop_choice (req_hl default_hl : Z) : Z := if req_hl <=? 1 then default_hl else req_hl.

Definition mk_gbc (mobile default_s default_hl req_ms req_hl nh ht hst scf off tcid sn : Z)
                  (ego area payload : list Z) : list Z :=
  let hl := hop_choice req_hl default_hl in
  bh_for default_s req_ms hl
  ++ enc_common [nh; ht; hst; scf; off; tcid; mobile * 128; Z.of_nat (length payload); hl; 0]
  ++ enc_gbc ([sn; 0] ++ ego ++ area ++ [0]) ++ payload.

Definition mk_guc (mobile default_s default_hl req_ms req_hl nh scf off tcid sn : Z)
                  (ego de payload : list Z) : list Z :=
  let hl := hop_choice req_hl default_hl in
  bh_for default_s req_ms hl
  ++ enc_common [nh; 2; 0; scf; off; tcid; mobile * 128; Z.of_nat (length payload); hl; 0]
  ++ enc_guc ([sn; 0] ++ ego ++ de) ++ payload.

Definition mk_lsreq (mobile default_s default_hl sn : Z) (ego sought : list Z) : list Z :=
  bh_for default_s (-1) default_hl
  ++ enc_common [0; 6; 0; 0; 0; 0; mobile * 128; 0; default_hl; 0]
  ++ enc_lsreq ([sn; 0] ++ ego ++ sought).

Definition mk_lsrep (mobile default_s default_hl sn : Z) (ego de : list Z) : list Z :=
  bh_for default_s (-1) default_hl
  ++ enc_common [0; 6; 1; 0; 0; 0; mobile * 128; 0; default_hl; 0]
  ++ enc_guc ([sn; 0] ++ ego ++ de).

(* BTP-A [dest port; source port], BTP-B [dest port; dest port info] in front of the payload *)
Definition btp_pdu (p1 p2 : Z) (payload : list Z) : list Z := enc_btp [p1; p2] ++ payload.

(* forwarded copy: the received packet with the RHL octet decremented *)
Definition set_rhl (pkt : list Z) (rhl : Z) : list Z := firstn 3 pkt ++ [rhl] ++ skipn 4 pkt.

(* Router.get_sequence_number *)
Definition next_sn (sn : Z) : Z := (sn + 1) mod 65535.

(* ---- driver ---------------------------------------------------------------- *)
Definition out_opt (o : option (list Z)) : list Z := match o with Some l => 1 :: l | None => [0] end.
Definition take (n : nat) (l : list Z) := firstn n l.
Definition drop (n : nat) (l : list Z) := skipn n l.

Definition dispatch (cmd : Z) (a : list Z) : list Z :=
  if cmd =? 1 then enc_basic a else if cmd =? 2 then out_opt (dec_basic a)
  else if cmd =? 3 then enc_common a else if cmd =? 4 then out_opt (dec_common a)
  else if cmd =? 5 then enc_lpv a else if cmd =? 6 then out_opt (dec_lpv a)
  else if cmd =? 7 then enc_spv a else if cmd =? 8 then out_opt (dec_spv a)
  else if cmd =? 9 then enc_gbc a else if cmd =? 10 then out_opt (dec_gbc a)
  else if cmd =? 11 then enc_tsb a else if cmd =? 12 then out_opt (dec_tsb a)
  else if cmd =? 13 then enc_guc a else if cmd =? 14 then out_opt (dec_guc a)
  else if cmd =? 15 then enc_lsreq a else if cmd =? 16 then out_opt (dec_lsreq a)
  else if cmd =? 19 then enc_btp a else if cmd =? 20 then out_opt (dec_btp a)
  else if cmd =? 21 then enc_gnaddr a else if cmd =? 22 then out_opt (dec_gnaddr a)
  else if cmd =? 30 then mk_beacon (arg 0 a) (arg 1 a) (take 9 (drop 2 a))
  else if cmd =? 31 then
    mk_shb (arg 0 a) (arg 1 a) (arg 2 a) (arg 3 a) (arg 4 a) (arg 5 a) (arg 6 a) (take 9 (drop 7 a)) (drop 16 a)
  else if cmd =? 32 then
    mk_gbc (arg 0 a) (arg 1 a) (arg 2 a) (arg 3 a) (arg 4 a) (arg 5 a) (arg 6 a) (arg 7 a) (arg 8 a) (arg 9 a)
           (arg 10 a) (arg 11 a) (take 9 (drop 12 a)) (take 5 (drop 21 a)) (drop 26 a)
  else if cmd =? 33 then
    mk_guc (arg 0 a) (arg 1 a) (arg 2 a) (arg 3 a) (arg 4 a) (arg 5 a) (arg 6 a) (arg 7 a) (arg 8 a) (arg 9 a)
           (take 9 (drop 10 a)) (take 6 (drop 19 a)) (drop 25 a)
  else if cmd =? 34 then mk_lsreq (arg 0 a) (arg 1 a) (arg 2 a) (arg 3 a) (take 9 (drop 4 a)) (take 3 (drop 13 a))
  else if cmd =? 35 then mk_lsrep (arg 0 a) (arg 1 a) (arg 2 a) (arg 3 a) (take 9 (drop 4 a)) (take 6 (drop 13 a))
  else if cmd =? 36 then set_rhl (drop 1 a) (arg 0 a)
  else if cmd =? 37 then btp_pdu (arg 0 a) (arg 1 a) (drop 2 a)
  else if cmd =? 38 then [next_sn (arg 0 a)]
  else [].
