(* Integer-level mappings from a position/time/velocity report (gpsd TPV) to the data elements
   of CAM, VAM and DENM, as built by
     flexstack.facilities.ca_basic_service.cam_transmission_management.CooperativeAwarenessMessage
     flexstack.facilities.vru_awareness_service.vam_transmission_management.VAMMessage
     flexstack.applications.road_hazard_signalling_service.emergency_vehicle_approaching_service
   and GenerationDeltaTime (from_timestamp / as_timestamp_in_certain_point).
   Definitions only. A report value is a double; every finite double is a rational, so the
   mappings are functions Q -> Z. int(x * k) is truncation towards zero of the exact product
   (the float product of the code differs from it only when the product lies within one
   rounding error of an integer; the correspondence check excludes those inputs). *)
From FlexVerif Require Import Base.Prelude.
From Coq Require Import QArith Qround.
Open Scope Z_scope.

(* ---- ranges and special codes of the data elements (ETSI TS 102 894-2 V2.x, CDD) ---------- *)
Definition LAT_MIN := -900000000.        Definition LAT_MAX := 900000000.   Definition LAT_UNAVAILABLE := 900000001.
Definition LON_MIN := -1800000000.       Definition LON_MAX := 1800000000.  Definition LON_UNAVAILABLE := 1800000001.
Definition ALT_NEG_OOR := -100000.       Definition ALT_POS_OOR := 800000.  Definition ALT_UNAVAILABLE := 800001.
Definition SPEED_OOR := 16382.           Definition SPEED_UNAVAILABLE := 16383.
Definition HEADING_MAX := 3599.          Definition HEADING_DO_NOT_USE := 3600.  Definition HEADING_UNAVAILABLE := 3601.
Definition SEMI_AXIS_MIN := 1.           Definition SEMI_AXIS_OOR := 4094.  Definition SEMI_AXIS_UNAVAILABLE := 4095.
Definition HCONF_MIN := 1.               Definition HCONF_MAX_VALUE := 125.
Definition HCONF_OOR := 126.             Definition HCONF_UNAVAILABLE := 127.
Definition ALTCONF_OOR := 14.            Definition ALTCONF_UNAVAILABLE := 15.

(* Python int() of a float: truncation towards zero *)
Definition qtrunc (q : Q) : Z := Z.quot (Qnum q) (Zpos (Qden q)).

Definition scale (x : Q) (k : Z) : Z := qtrunc (x * inject_Z k).

Definition Qleb (a b : Q) : bool := Qle_bool a b.
Definition Qltb' (a b : Q) : bool := negb (Qle_bool b a).

(* int(lat * 10000000), int(lon * 10000000): no clamping in the code *)
Definition lat_code (x : Q) : Z := scale x 10000000.
Definition lon_code (x : Q) : Z := scale x 10000000.

(* altitude: int(altHAE * 100) clamped to the AltitudeValue range *)
Definition alt_code (x : Q) : Z :=
  let a := scale x 100 in
  if a <=? ALT_NEG_OOR then ALT_NEG_OOR else if ALT_POS_OOR <=? a then ALT_POS_OOR else a.

(* speed: int(speed * 100); above 16381 -> outOfRange *)
Definition speed_code (x : Q) : Z :=
  let v := scale x 100 in if 16381 <? v then SPEED_OOR else v.

(* heading: int(track * 10) mod 3600 *)
Definition heading_code (x : Q) : Z := (scale x 10) mod 3600.

(* SemiAxisLength: max(1, min(4094, int(e * 100))) *)
Definition semi_axis_code (x : Q) : Z := Z.max SEMI_AXIS_MIN (Z.min SEMI_AXIS_OOR (scale x 100)).

(* CAM: the larger error estimate is the major axis (epy wins ties); VAM: (epx, epy) as they come *)
Definition cam_ellipse (epx epy : Q) : Z * Z :=
  if Qleb epx epy then (semi_axis_code epy, semi_axis_code epx) else (semi_axis_code epx, semi_axis_code epy).
Definition vam_ellipse (epx epy : Q) : Z * Z := (semi_axis_code epx, semi_axis_code epy).

(* HeadingConfidence: epd <= 12.5 -> max(1, int(epd * 10)) else outOfRange *)
Definition heading_conf_code (x : Q) : Z :=
  if Qleb x (25 # 2) then Z.max HCONF_MIN (scale x 10) else HCONF_OOR.

(* AltitudeConfidence: index of the first bound that epv is strictly below; 14 = outOfRange *)
Definition altconf_bounds : list Q :=
  [1 # 100; 2 # 100; 5 # 100; 1 # 10; 2 # 10; 5 # 10; 1 # 1; 2 # 1; 5 # 1; 10 # 1; 20 # 1; 50 # 1; 100 # 1; 200 # 1]%Q.

Fixpoint first_below (x : Q) (bs : list Q) (i : Z) : Z :=
  match bs with
  | [] => i
  | b :: rest => if Qltb' x b then i else first_below x rest (i + 1)
  end.

Definition alt_conf_code (x : Q) : Z := first_below x altconf_bounds 0.

(* VruClusterInformation: radius = max(1, int(radius)) *)
Definition cluster_radius_code (x : Q) : Z := Z.max 1 (qtrunc x).

(* generationDeltaTime and its reconstruction by a receiver whose clock reads `now`
   (both as ITS timestamps in ms; as_timestamp_in_certain_point works on UTC ms, which is
   the same up to the constant ITS_EPOCH_MS - 5000) *)
Definition gdt_code (ts : Z) : Z := ts mod 65536.

Definition gdt_reconstruct (now g : Z) : Z :=
  let cycles := Z.quot now 65536 in
  let t := g + 65536 * cycles in
  if t <=? now then t else g + 65536 * (cycles - 1).

(* ---- driver ------------------------------------------------------------------------------- *)
(* cmd 1: codes of one report. args: for each of lat lon alt speed track epx epy epv epd:
            present num den            (27 integers), then ts (ITS ms)
          result: lat lon alt speed heading camMajor camMinor vamMajor vamMinor altconf hconf gdt
          (missing input -> the unavailable code; the ellipse needs both epx and epy)
   cmd 2: gdt_reconstruct now g -> [t]
   cmd 3: cluster_radius_code num den -> [r] *)
Definition mkq (n d : Z) : Q := Qmake n (Z.to_pos d).

Definition opt (a : list Z) (i : nat) : option Q :=
  if z2b (nth i a 0) then Some (mkq (nth (i + 1) a 0) (nth (i + 2) a 1)) else None.

Definition omap (f : Q -> Z) (d : Z) (o : option Q) : Z := match o with Some x => f x | None => d end.

Definition report_codes (lat lon alt speed track epx epy epv epd : option Q) (ts : Z) : list Z :=
  let '(cM, cm) := match epx, epy with
                   | Some x, Some y => cam_ellipse x y
                   | _, _ => (SEMI_AXIS_UNAVAILABLE, SEMI_AXIS_UNAVAILABLE) end in
  let '(vM, vm) := match epx, epy with
                   | Some x, Some y => vam_ellipse x y
                   | _, _ => (SEMI_AXIS_UNAVAILABLE, SEMI_AXIS_UNAVAILABLE) end in
  [omap lat_code LAT_UNAVAILABLE lat; omap lon_code LON_UNAVAILABLE lon; omap alt_code ALT_UNAVAILABLE alt;
   omap speed_code SPEED_UNAVAILABLE speed; omap heading_code HEADING_UNAVAILABLE track;
   cM; cm; vM; vm; omap alt_conf_code ALTCONF_UNAVAILABLE epv; omap heading_conf_code HCONF_UNAVAILABLE epd;
   gdt_code ts].

Definition fm_dispatch (cmd : Z) (a : list Z) : list Z :=
  if cmd =? 1 then
    report_codes (opt a 0) (opt a 3) (opt a 6) (opt a 9) (opt a 12) (opt a 15) (opt a 18) (opt a 21) (opt a 24)
                 (nth 27 a 0)
  else if cmd =? 2 then [gdt_reconstruct (arg 0 a) (arg 1 a)]
  else if cmd =? 3 then [cluster_radius_code (mkq (arg 0 a) (arg 1 a))]
  else [].
