(* Model of flexstack.geonet.router.Router (receive path, forwarding, origination, location
   service, contention-based forwarding buffer) with security disabled.  Definitions only.

   Geometry (EN 302 931 function F, distances for greedy forwarding, area size) involves
   transcendental functions and is NOT modelled here: every event carries a table computed by the
   harness independently of the implementation:
     big  : the packet's / request's area exceeds itsGnMaxGeoAreaSize
     ins  : rows [lat; lon; inside]            is position (lat, lon) inside or on the border of the area
     dst  : rows [dlat; dlon; lat; lon; dist]  distance (any monotone integer unit) from (lat, lon) to the
                                               destination point (dlat, dlon)
   A missing row is reported as output OGeoMissing and the event has no effect.
   The packet data rate limiter (B.2) is not modelled; generated histories keep below its threshold. *)
From FlexVerif Require Import Base.Prelude Base.Bits Model.Lifetime Model.Wire Model.LocT.

Record mib := mkMib {
  m_addr : list Z;        (* own GN address [m; st; mid] *)
  m_mobile : Z; m_default_s : Z; m_default_hl : Z;
  m_dpl_len : Z; m_life_ms : Z;
  m_area_alg : Z;         (* 0 unspecified, 1 simple, 2 CBF *)
  m_ls_max : Z }.         (* itsGnLocationServiceMaxRetrans *)

(* a buffered GeoUnicast request: [req_ms; req_hl; nh; scf; off; tcid] ++ payload *)
Record ls_state := mkLs { ls_addr : list Z; ls_count : Z; ls_buf : list (list Z) }.

Record state := mkState {
  s_loct : list entry;
  s_sn : Z;
  s_cbf : list (list Z * list Z);     (* key = so address ++ [sn]  ->  packet waiting for its timer *)
  s_ls : list ls_state;
  s_ego : list Z }.                    (* ego LPV view *)

Inductive output :=
| OFwd (pkt : list Z)                 (* a received packet passed on *)
| OOrig (pkt : list Z)                (* a packet originated here *)
| OInd (hdr : list Z) (data : list Z) (* GN-DATA.indication *)
| OTimerStart (kind : Z) (key : list Z)
| OTimerCancel (kind : Z) (key : list Z)
| ODiscard (reason : Z)
| OGeoMissing.

Record geo := mkGeo { g_big : bool; g_ins : list (list Z); g_dst : list (list Z) }.

Fixpoint lookup_ins (rows : list (list Z)) (lat lon : Z) : option bool :=
  match rows with
  | [] => None
  | r :: rs => if (arg 0 r =? lat) && (arg 1 r =? lon) then Some (z2b (arg 2 r)) else lookup_ins rs lat lon
  end.
Fixpoint lookup_dst (rows : list (list Z)) (dlat dlon lat lon : Z) : option Z :=
  match rows with
  | [] => None
  | r :: rs => if (arg 0 r =? dlat) && (arg 1 r =? dlon) && (arg 2 r =? lat) && (arg 3 r =? lon)
               then Some (arg 4 r) else lookup_dst rs dlat dlon lat lon
  end.

Definition pv_lat (pv : list Z) := arg 4 pv.
Definition pv_lon (pv : list Z) := arg 5 pv.
Definition pv_pai (pv : list Z) := arg 6 pv.
Definition mid_eqb (a b : list Z) : bool := arg 2 a =? arg 2 b.    (* GNAddress.__eq__ compares the MID only *)

(* Router.gn_greedy_forwarding: Some true = transmit, Some false = buffer (stub: nothing), None = geometry missing *)
Fixpoint any_closer (g : geo) (dlat dlon : Z) (mfr : Z) (nbs : list entry) : option bool :=
  match nbs with
  | [] => Some false
  | e :: r =>
    match lookup_dst (g_dst g) dlat dlon (pv_lat (e_pv e)) (pv_lon (e_pv e)) with
    | None => None
    | Some d => if d <? mfr then Some true else any_closer g dlat dlon mfr r
    end
  end.
Definition greedy (g : geo) (s : state) (dlat dlon : Z) (scf : Z) : option bool :=
  match lookup_dst (g_dst g) dlat dlon (pv_lat (s_ego s)) (pv_lon (s_ego s)) with
  | None => None
  | Some mfr =>
    match any_closer g dlat dlon mfr (neighbours (s_loct s)) with
    | None => None
    | Some true => Some true
    | Some false => Some (negb (z2b scf))
    end
  end.

Definition has_nb (s : state) : bool := match neighbours (s_loct s) with [] => false | _ => true end.

Definition set_loct (s : state) (t : list entry) : state := mkState t (s_sn s) (s_cbf s) (s_ls s) (s_ego s).
Definition set_cbf (s : state) (c : list (list Z * list Z)) : state := mkState (s_loct s) (s_sn s) c (s_ls s) (s_ego s).
Definition set_lss (s : state) (l : list ls_state) : state := mkState (s_loct s) (s_sn s) (s_cbf s) l (s_ego s).
Definition take_sn (s : state) : state * Z :=
  let n := next_sn (s_sn s) in (mkState (s_loct s) n (s_cbf s) (s_ls s) (s_ego s), n).

Fixpoint cbf_find (c : list (list Z * list Z)) (k : list Z) : option (list Z) :=
  match c with [] => None | (k', p) :: r => if list_eqb k' k then Some p else cbf_find r k end.
(* the buffer is a dict in the code: removing a key removes it altogether *)
Definition cbf_remove (c : list (list Z * list Z)) (k : list Z) : list (list Z * list Z) :=
  filter (fun kp => negb (list_eqb (fst kp) k)) c.

Fixpoint ls_find (l : list ls_state) (a : list Z) : option ls_state :=
  match l with [] => None | x :: r => if list_eqb (ls_addr x) a then Some x else ls_find r a end.
Definition ls_remove (l : list ls_state) (a : list Z) : list ls_state :=
  filter (fun x => negb (list_eqb (ls_addr x) a)) l.
Definition ls_put (l : list ls_state) (x : ls_state) : list ls_state :=
  match ls_find l (ls_addr x) with
  | None => l ++ [x]
  | Some _ => map (fun y => if list_eqb (ls_addr y) (ls_addr x) then x else y) l
  end.

(* indication header: [upper; ht; hst] ++ so_pv (9) ++ [scf; off; tcid; lifetime_s; rhl] ++ area (5, geo types only) *)
Definition ind_hdr (cv bv pv area : list Z) (ht hst : Z) : list Z :=
  [arg 0 cv; ht; hst] ++ pv ++ [arg 3 cv; arg 4 cv; arg 5 cv; ind_lifetime_s (arg 3 bv) (arg 4 bv); arg 5 bv] ++ area.

Definition bv_rhl (bv : list Z) (r : Z) : list Z := [arg 0 bv; arg 1 bv; arg 2 bv; arg 3 bv; arg 4 bv; r mod 256].

(* discard reasons *)
Definition R_BASIC := 1. Definition R_VERSION := 2. Definition R_NH := 3. Definition R_COMMON := 4.
Definition R_HOPS := 5. Definition R_HT := 6. Definition R_EXT := 7. Definition R_DAD := 8.
Definition R_DUP := 9. Definition R_ZEROAREA := 10. Definition R_SECURED := 11.

(* ---- receive: one function per packet type, as in the code ------------------------------- *)
Definition rx_beacon (m : mib) (s : state) (now : Z) (body : list Z) (deliver : option (list Z -> output))
  : state * list output :=
  match dec_lpv body with
  | None => (s, [ODiscard R_EXT])
  | Some pv =>
    if mid_eqb (pv_addr pv) (m_addr m) then (s, [ODiscard R_DAD])
    else let s' := set_loct s (rx_shb (s_loct s) pv now (m_life_ms m)) in
         match deliver with None => (s', []) | Some f => (s', [f pv]) end
  end.

(* common tail of the TSB / LS forwarders: decrement RHL, send *)
Definition fwd_plain (bv cv : list Z) (ext payload : list Z) : list output :=
  if 0 <? arg 5 bv - 1 then [OFwd (enc_basic (bv_rhl bv (arg 5 bv - 1)) ++ enc_common cv ++ ext ++ payload)] else [].

Definition rx_tsb (m : mib) (s : state) (now : Z) (bv cv body : list Z) : state * list output :=
  match dec_tsb body with
  | None => (s, [ODiscard R_EXT])
  | Some h =>
    let pv := skipn 2 h in let payload := skipn 28 body in
    if mid_eqb (pv_addr pv) (m_addr m) then (s, [ODiscard R_DAD]) else
    match rx_mh (s_loct s) pv (arg 0 h) now (m_life_ms m) (m_dpl_len m) with
    | None => (s, [ODiscard R_DUP])
    | Some t =>
      let s' := set_loct s t in
      let ind := OInd (ind_hdr cv bv pv [] 5 1) payload in
      let f := if negb (has_nb s') && z2b (arg 3 cv) then [] else fwd_plain bv cv (enc_tsb h) payload in
      (s', ind :: f)
    end
  end.

(* area view of a decoded GBC header: [lat; lon; a; b; angle] *)
Definition gbc_area (h : list Z) : list Z := firstn 5 (skipn 11 h).
Definition zero_area (hst : Z) (h : list Z) : bool :=
  (arg 13 h =? 0) || (negb (hst =? 0) && (arg 14 h =? 0)).

Definition gbc_packet (bv cv h payload : list Z) (rhl : Z) : list Z :=
  enc_basic (bv_rhl bv rhl) ++ enc_common cv ++ enc_gbc h ++ payload.

Definition rx_gbc (m : mib) (s : state) (now : Z) (g : geo) (bv cv body : list Z) : state * list output :=
  match dec_gbc body with
  | None => (s, [ODiscard R_EXT])
  | Some h =>
    let pv := firstn 9 (skipn 2 h) in let payload := skipn 44 body in let hst := arg 2 cv in
    if zero_area hst h then (s, [ODiscard R_ZEROAREA]) else
    match lookup_ins (g_ins g) (pv_lat (s_ego s)) (pv_lon (s_ego s)) with
    | None => (s, [OGeoMissing])
    | Some inside =>
      if mid_eqb (pv_addr pv) (m_addr m) then (s, [ODiscard R_DAD]) else
      let key := pv_addr pv ++ [arg 0 h] in
      match rx_mh (s_loct s) pv (arg 0 h) now (m_life_ms m) (m_dpl_len m) with
      | None =>
        (* duplicate: a copy waiting in the CBF buffer is dropped and its timer stopped *)
        match cbf_find (s_cbf s) key with
        | Some _ => (set_cbf s (cbf_remove (s_cbf s) key), [ODiscard R_DUP; OTimerCancel 1 key])
        | None => (s, [ODiscard R_DUP])
        end
      | Some t =>
        let s1 := set_loct s t in
        let ind := if inside then [OInd (ind_hdr cv bv pv (gbc_area h) 4 hst) payload] else [] in
        if g_big g then (s1, ind) else
        if negb (0 <? arg 5 bv - 1) then (s1, ind) else
        let rhl' := arg 5 bv - 1 in
        if has_nb s1 || negb (z2b (arg 3 cv)) then
          if inside then
            if m_area_alg m =? 2 then
              (* contention-based forwarding: buffer and start the timer; a key that is still buffered although
                 duplicate detection let the packet through (its sequence number already left the duplicate
                 list) is treated like an overheard duplicate: timer stopped, copy dropped *)
              match cbf_find (s_cbf s1) key with
              | Some _ => (set_cbf s1 (cbf_remove (s_cbf s1) key), ind ++ [OTimerCancel 1 key])
              | None => (set_cbf s1 (s_cbf s1 ++ [(key, gbc_packet bv cv h payload rhl')]), ind ++ [OTimerStart 1 key])
              end
            else (s1, ind ++ [OFwd (gbc_packet bv cv h payload rhl')])
          else
            (* ego outside: Annex D - discard when the sender is known to be inside, else greedy forwarding *)
            let se_in := match find (s_loct s1) (pv_addr pv) with
                         | Some se => if z2b (pv_pai (e_pv se))
                                      then lookup_ins (g_ins g) (pv_lat (e_pv se)) (pv_lon (e_pv se)) else Some false
                         | None => Some false     (* the sender's entry may already have expired again *)
                         end in
            match se_in with
            | None => (s, [OGeoMissing])
            | Some true => (s1, ind)
            | Some false =>
              match greedy g s1 (arg 11 h) (arg 12 h) (arg 3 cv) with
              | None => (s, [OGeoMissing])
              | Some true => (s1, ind ++ [OFwd (gbc_packet bv cv h payload rhl')])
              | Some false => (s1, ind)
              end
            end
        else (s1, ind)      (* no neighbour and SCF set: belongs in the BC forwarding buffer (a stub): nothing is sent *)
      end
    end
  end.

Definition rx_gac (m : mib) (s : state) (now : Z) (g : geo) (bv cv body : list Z) : state * list output :=
  match dec_gbc body with
  | None => (s, [ODiscard R_EXT])
  | Some h =>
    let pv := firstn 9 (skipn 2 h) in let payload := skipn 44 body in let hst := arg 2 cv in
    if zero_area hst h then (s, [ODiscard R_ZEROAREA]) else
    match lookup_ins (g_ins g) (pv_lat (s_ego s)) (pv_lon (s_ego s)) with
    | None => (s, [OGeoMissing])
    | Some inside =>
      if mid_eqb (pv_addr pv) (m_addr m) then (s, [ODiscard R_DAD]) else
      match rx_mh (s_loct s) pv (arg 0 h) now (m_life_ms m) (m_dpl_len m) with
      | None => (s, [ODiscard R_DUP])
      | Some t =>
        let s1 := set_loct s t in
        if inside then (s1, [OInd (ind_hdr cv bv pv (gbc_area h) 3 hst) payload]) else
        if g_big g then (s1, []) else
        let se_in := match find (s_loct s1) (pv_addr pv) with
                     | Some se => if z2b (pv_pai (e_pv se))
                                  then lookup_ins (g_ins g) (pv_lat (e_pv se)) (pv_lon (e_pv se)) else Some false
                     | None => Some false
                     end in
        match se_in with
        | None => (s, [OGeoMissing])
        | Some true => (s1, [])
        | Some false =>
          if arg 5 bv - 1 <=? 0 then (s1, []) else
          if negb (has_nb s1) && z2b (arg 3 cv) then (s1, []) else
          match greedy g s1 (arg 11 h) (arg 12 h) (arg 3 cv) with
          | None => (s, [OGeoMissing])
          | Some true => (s1, [OFwd (gbc_packet bv cv h payload (arg 5 bv - 1))])
          | Some false => (s1, [])
          end
        end
      end
    end
  end.

(* DE PV refresh of forwarded GUC / LS reply: only by a strictly newer LocT PV of a neighbour *)
Definition refresh_de (t : list entry) (de : list Z) : list Z :=
  match find t (firstn 3 de) with
  | Some e => if e_nb e && tst_gt (pv_tst (e_pv e)) (arg 3 de)
              then firstn 3 (e_pv e) ++ [pv_tst (e_pv e); pv_lat (e_pv e); pv_lon (e_pv e)] else de
  | None => de
  end.

Definition guc_packet (bv cv : list Z) (hd pv de payload : list Z) (rhl : Z) : list Z :=
  enc_basic (bv_rhl bv rhl) ++ enc_common cv ++ enc_guc (hd ++ pv ++ de) ++ payload.

Definition rx_guc (m : mib) (s : state) (now : Z) (g : geo) (bv cv body : list Z) : state * list output :=
  match dec_guc body with
  | None => (s, [ODiscard R_EXT])
  | Some h =>
    let pv := firstn 9 (skipn 2 h) in let de := skipn 11 h in let payload := skipn 48 body in
    if mid_eqb (pv_addr pv) (m_addr m) then (s, [ODiscard R_DAD]) else
    match rx_mh (s_loct s) pv (arg 0 h) now (m_life_ms m) (m_dpl_len m) with
    | None => (s, [ODiscard R_DUP])
    | Some t =>
      let s1 := set_loct s t in
      if mid_eqb (firstn 3 de) (m_addr m) then (s1, [OInd (ind_hdr cv bv pv [] 2 0) payload]) else
      let de' := refresh_de t de in
      if negb (0 <? arg 5 bv - 1) then (s1, []) else
      if negb (has_nb s1) && z2b (arg 3 cv) then (s1, []) else
      match greedy g s1 (arg 4 de') (arg 5 de') (arg 3 cv) with
      | None => (s, [OGeoMissing])
      | Some true => (s1, [OFwd (guc_packet bv cv (firstn 2 h) pv de' payload (arg 5 bv - 1))])
      | Some false => (s1, [])
      end
    end
  end.

(* ---- origination ----------------------------------------------------------------------------- *)
(* request view for unicast: [req_ms; req_hl; nh; scf; off; tcid] ++ payload *)
Definition spv_of_entry (e : entry) : list Z :=
  firstn 3 (e_pv e) ++ [pv_tst (e_pv e); pv_lat (e_pv e); pv_lon (e_pv e)].

Definition send_lsreq (m : mib) (s : state) (sought : list Z) : state * list output :=
  let '(s1, n) := take_sn s in
  (s1, [OOrig (mk_lsreq (m_mobile m) (m_default_s m) (m_default_hl m) n (s_ego s) sought)]).

(* Router.gn_ls_request *)
Definition ls_request (m : mib) (s : state) (sought : list Z) (req : option (list Z)) : state * list output :=
  match find (s_loct s) sought with
  | Some e =>
    if e_ls e then
      (* lookup in progress: queue *)
      match req, ls_find (s_ls s) sought with
      | Some r, Some x => (set_lss s (ls_put (s_ls s) (mkLs sought (ls_count x) (ls_buf x ++ [r]))), [])
      | Some r, None => (set_lss s (ls_put (s_ls s) (mkLs sought 0 [r])), [])
      | None, _ => (s, [])
      end
    else
      let s1 := set_lss (set_loct s (set_ls (s_loct s) sought true))
                        (ls_put (s_ls s) (mkLs sought 0 (match req with Some r => [r] | None => [] end))) in
      let '(s2, o) := send_lsreq m s1 sought in (s2, o ++ [OTimerStart 2 sought])
  | None =>
    let s1 := set_lss (set_loct s (set_ls (s_loct s) sought true))
                      (ls_put (s_ls s) (mkLs sought 0 (match req with Some r => [r] | None => [] end))) in
    let '(s2, o) := send_lsreq m s1 sought in (s2, o ++ [OTimerStart 2 sought])
  end.

(* Router.gn_data_request_guc; dest = [m; st; mid] *)
Definition req_guc (m : mib) (s : state) (g : geo) (dest : list Z) (r : list Z) : state * list output :=
  let in_progress := match ls_find (s_ls s) dest with Some _ => true | None => false end in
  match find (s_loct s) dest with
  | Some e =>
    if in_progress then ls_request m s dest (Some r) else
    let de := spv_of_entry e in
    let '(s1, n) := take_sn s in
    if negb (has_nb s1) && z2b (arg 3 r) then (s1, []) else
    match greedy g s1 (arg 4 de) (arg 5 de) (arg 3 r) with
    | None => (s, [OGeoMissing])
    | Some true =>
      (s1, [OOrig (mk_guc (m_mobile m) (m_default_s m) (m_default_hl m) (arg 0 r) (arg 1 r) (arg 2 r)
                          (arg 3 r) (arg 4 r) (arg 5 r) n (s_ego s) de (skipn 6 r))])
    | Some false => (s1, [])
    end
  | None => ls_request m s dest (Some r)
  end.

Fixpoint flush_guc (m : mib) (s : state) (g : geo) (dest : list Z) (rs : list (list Z)) : state * list output :=
  match rs with
  | [] => (s, [])
  | r :: rest =>
    let '(s1, o1) := req_guc m s g dest r in
    let '(s2, o2) := flush_guc m s1 g dest rest in (s2, o1 ++ o2)
  end.

Definition rx_lsreq (m : mib) (s : state) (now : Z) (bv cv body : list Z) : state * list output :=
  match dec_lsreq body with
  | None => (s, [ODiscard R_EXT])
  | Some h =>
    let pv := firstn 9 (skipn 2 h) in let sought := skipn 11 h in let payload := skipn 36 body in
    if mid_eqb (pv_addr pv) (m_addr m) then (s, [ODiscard R_DAD]) else
    match rx_mh (s_loct s) pv (arg 0 h) now (m_life_ms m) (m_dpl_len m) with
    | None => (s, [ODiscard R_DUP])
    | Some t =>
      let s1 := set_loct s t in
      if mid_eqb sought (m_addr m) then
        match find t (pv_addr pv) with
        | None => (s1, [])
        | Some e =>
          let '(s2, n) := take_sn s1 in
          (s2, [OOrig (mk_lsrep (m_mobile m) (m_default_s m) (m_default_hl m) n (s_ego s) (spv_of_entry e))])
        end
      else (s1, fwd_plain bv cv (enc_lsreq h) payload)
    end
  end.

Definition rx_lsrep (m : mib) (s : state) (now : Z) (g : geo) (bv cv body : list Z) : state * list output :=
  match dec_guc body with
  | None => (s, [ODiscard R_EXT])
  | Some h =>
    let pv := firstn 9 (skipn 2 h) in let de := skipn 11 h in let payload := skipn 48 body in
    if mid_eqb (pv_addr pv) (m_addr m) then (s, [ODiscard R_DAD]) else
    match rx_mh (s_loct s) pv (arg 0 h) now (m_life_ms m) (m_dpl_len m) with
    | None => (s, [ODiscard R_DUP])
    | Some t =>
      let s1 := set_loct s t in
      let sought := pv_addr pv in
      if mid_eqb (firstn 3 de) (m_addr m) then
        (* we asked: stop the timer, clear the pending flag, flush the buffered requests in order *)
        let buffered := match ls_find (s_ls s1) sought with Some x => ls_buf x | None => [] end in
        let had := match ls_find (s_ls s1) sought with Some _ => true | None => false end in
        let s2 := set_lss (set_loct s1 (set_ls (s_loct s1) sought false)) (ls_remove (s_ls s1) sought) in
        let '(s3, o) := flush_guc m s2 g sought buffered in
        (s3, (if had then [OTimerCancel 2 sought] else []) ++ o)
      else
        let de' := refresh_de t de in
        if 0 <? arg 5 bv - 1
        then (s1, [OFwd (guc_packet bv cv (firstn 2 h) pv de' payload (arg 5 bv - 1))]) else (s1, [])
    end
  end.

(* ---- Router.process_basic_header / process_common_header -------------------------------------- *)
Definition rx (m : mib) (s : state) (now : Z) (g : geo) (pkt : list Z) : state * list output :=
  match dec_basic pkt with
  | None => (s, [ODiscard R_BASIC])
  | Some bv =>
    if negb (arg 0 bv =? 1) then (s, [ODiscard R_VERSION]) else
    if arg 1 bv =? 2 then (s, [ODiscard R_SECURED]) else      (* no verify service configured *)
    if negb (arg 1 bv =? 1) then (s, [ODiscard R_NH]) else
    match dec_common (skipn 4 pkt) with
    | None => (s, [ODiscard R_COMMON])
    | Some cv =>
      let body := skipn 12 pkt in let ht := arg 1 cv in let hst := arg 2 cv in
      if arg 8 cv <? arg 5 bv then (s, [ODiscard R_HOPS]) else
      if ht =? 1 then rx_beacon m s now body None
      else if ht =? 2 then rx_guc m s now g bv cv body
      else if ht =? 3 then rx_gac m s now g bv cv body
      else if ht =? 4 then rx_gbc m s now g bv cv body
      else if ht =? 5 then
        if hst =? 0 then
          rx_beacon m s now body
            (Some (fun pv => OInd (ind_hdr cv bv pv [] 5 0) (skipn 28 body)))
        else rx_tsb m s now bv cv body
      else if ht =? 6 then
        if hst =? 0 then rx_lsreq m s now bv cv body else rx_lsrep m s now g bv cv body
      else (s, [ODiscard R_HT])
    end
  end.

(* ---- requests ---------------------------------------------------------------------------------- *)
(* SHB request view: [req_ms; nh; scf; off; tcid] ++ payload *)
Definition req_shb (m : mib) (s : state) (r : list Z) : state * list output :=
  (s, [OOrig (mk_shb (m_mobile m) (m_default_s m) (arg 0 r) (arg 1 r) (arg 2 r) (arg 3 r) (arg 4 r)
                     (s_ego s) (skipn 5 r))]).

(* GBC / GAC request view: [req_ms; req_hl; nh; ht; hst; scf; off; tcid; lat; lon; a; b; angle] ++ payload;
   g: big = area too large, ins row for the ego position *)
Definition req_geo (m : mib) (s : state) (g : geo) (r : list Z) : state * list output :=
  if g_big g then (s, [ODiscard 20]) else
  let '(s1, n) := take_sn s in
  let pkt := mk_gbc (m_mobile m) (m_default_s m) (m_default_hl m) (arg 0 r) (arg 1 r) (arg 2 r) (arg 3 r) (arg 4 r)
                    (arg 5 r) (arg 6 r) (arg 7 r) n (s_ego s) (firstn 5 (skipn 8 r)) (skipn 13 r) in
  if negb (has_nb s1) && z2b (arg 5 r) then (s1, []) else
  match lookup_ins (g_ins g) (pv_lat (s_ego s)) (pv_lon (s_ego s)) with
  | None => (s, [OGeoMissing])
  | Some true => (s1, [OOrig pkt])
  | Some false =>
    match greedy g s1 (arg 8 r) (arg 9 r) (arg 5 r) with
    | None => (s, [OGeoMissing])
    | Some true => (s1, [OOrig pkt])
    | Some false => (s1, [])
    end
  end.

(* timers *)
Definition cbf_fire (s : state) (key : list Z) : state * list output :=
  match cbf_find (s_cbf s) key with
  | Some p => (set_cbf s (cbf_remove (s_cbf s) key), [OFwd p])
  | None => (s, [])
  end.

Definition ls_fire (m : mib) (s : state) (sought : list Z) : state * list output :=
  match ls_find (s_ls s) sought with
  | None => (s, [])      (* no lookup in progress for this address: the timer was cancelled *)
  | Some x =>
    if m_ls_max m <=? ls_count x then
      (set_lss (set_loct s (set_ls (s_loct s) sought false)) (ls_remove (s_ls s) sought), [])
    else
      let s1 := set_lss s (ls_put (s_ls s) (mkLs sought (ls_count x + 1) (ls_buf x))) in
      let '(s2, o) := send_lsreq m s1 sought in (s2, o ++ [OTimerStart 2 sought])
  end.

(* ---- events and histories --------------------------------------------------------------------- *)
Inductive event :=
| ERx (now : Z) (g : geo) (pkt : list Z)
| EShb (r : list Z)
| EGeo (g : geo) (r : list Z)
| EGuc (g : geo) (dest r : list Z)
| ECbf (key : list Z)
| ELs (sought : list Z)
| EEgo (pv : list Z).

Definition step (m : mib) (s : state) (e : event) : state * list output :=
  match e with
  | ERx now g pkt => rx m s (now mod 2 ^ 32) g pkt
  | EShb r => req_shb m s r
  | EGeo g r => req_geo m s g r
  | EGuc g dest r => req_guc m s g dest r
  | ECbf key => cbf_fire s key
  | ELs sought => ls_fire m s sought
  | EEgo pv => (mkState (s_loct s) (s_sn s) (s_cbf s) (s_ls s) pv, [])
  end.

Definition init (ego : list Z) : state := mkState [] 0 [] [] ego.

Fixpoint run (m : mib) (s : state) (es : list event) : state * list (list output) :=
  match es with
  | [] => (s, [])
  | e :: r => let '(s1, o) := step m s e in let '(s2, os) := run m s1 r in (s2, o :: os)
  end.
