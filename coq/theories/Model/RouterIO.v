(* Flat-integer marshalling of router histories for the extracted driver. Definitions only. *)
From FlexVerif Require Import Base.Prelude Base.Bits Model.Lifetime Model.Wire Model.LocT Model.Router.

(* read a length-prefixed list *)
Definition take_list (l : list Z) : list Z * list Z :=
  match l with
  | [] => ([], [])
  | n :: r => (firstn (Z.to_nat n) r, skipn (Z.to_nat n) r)
  end.

Fixpoint take_rows (k : nat) (w : nat) (l : list Z) : list (list Z) * list Z :=
  match k with
  | O => ([], l)
  | S k' => let '(rows, rest) := take_rows k' w (skipn w l) in (firstn w l :: rows, rest)
  end.

(* geo: big; n_ins; rows of 3; n_dst; rows of 5 *)
Definition take_geo (l : list Z) : geo * list Z :=
  let big := z2b (arg 0 l) in
  let l1 := skipn 1 l in
  let '(ins, l2) := take_rows (Z.to_nat (arg 0 l1)) 3 (skipn 1 l1) in
  let '(dst, l3) := take_rows (Z.to_nat (arg 0 l2)) 5 (skipn 1 l2) in
  (mkGeo big ins dst, l3).

Definition take_event (l : list Z) : option (event * list Z) :=
  match l with
  | [] => None
  | tag :: r =>
    if tag =? 1 then
      let now := arg 0 r in
      let '(g, r1) := take_geo (skipn 1 r) in
      let '(pkt, r2) := take_list r1 in Some (ERx now g pkt, r2)
    else if tag =? 2 then let '(q, r1) := take_list r in Some (EShb q, r1)
    else if tag =? 3 then
      let '(g, r1) := take_geo r in let '(q, r2) := take_list r1 in Some (EGeo g q, r2)
    else if tag =? 4 then
      let '(g, r1) := take_geo r in
      let dest := firstn 3 r1 in let '(q, r2) := take_list (skipn 3 r1) in Some (EGuc g dest q, r2)
    else if tag =? 5 then let '(k, r1) := take_list r in Some (ECbf k, r1)
    else if tag =? 6 then Some (ELs (firstn 3 r), skipn 3 r)
    else if tag =? 7 then Some (EEgo (firstn 9 r), skipn 9 r)
    else None
  end.

Fixpoint take_events (fuel : nat) (l : list Z) : list event :=
  match fuel with
  | O => []
  | S f => match take_event l with
           | None => []
           | Some (e, r) => e :: take_events f r
           end
  end.

Definition put_list (l : list Z) : list Z := Z.of_nat (length l) :: l.

Definition put_output (o : output) : list Z :=
  match o with
  | OFwd p => 1 :: put_list p
  | OOrig p => 2 :: put_list p
  | OInd h d => 3 :: put_list h ++ put_list d
  | OTimerStart k key => 4 :: k :: put_list key
  | OTimerCancel k key => 5 :: k :: put_list key
  | ODiscard r => [6; r]
  | OGeoMissing => [7]
  end.

Definition put_entry (e : entry) : list Z :=
  e_addr e ++ e_pv e ++ [b2z (e_set e); b2z (e_nb e); b2z (e_ls e)] ++ put_list (e_dpl e).

Definition put_state (s : state) : list Z :=
  [s_sn s; Z.of_nat (length (s_loct s))] ++ flat_map put_entry (s_loct s)
  ++ [Z.of_nat (length (s_cbf s))] ++ flat_map (fun kp => put_list (fst kp)) (s_cbf s)
  ++ [Z.of_nat (length (s_ls s))] ++ flat_map (fun x => ls_addr x ++ [ls_count x; Z.of_nat (length (ls_buf x))]) (s_ls s).

(* run a history and report, per event, the outputs and the state after it *)
Fixpoint trace (m : mib) (s : state) (es : list event) : list Z :=
  match es with
  | [] => []
  | e :: r =>
    let '(s1, o) := step m s e in
    (Z.of_nat (length o) :: flat_map put_output o) ++ put_state s1 ++ trace m s1 r
  end.

(* dispatch 1: [own addr(3); mobile; default_s; default_hl; dpl_len; life_ms; area_alg; ls_max; ego(9); events...] *)
Definition dispatch (cmd : Z) (a : list Z) : list Z :=
  if cmd =? 1 then
    let m := mkMib (firstn 3 a) (arg 3 a) (arg 4 a) (arg 5 a) (arg 6 a) (arg 7 a) (arg 8 a) (arg 9 a) in
    let ego := firstn 9 (skipn 10 a) in
    let evs := skipn 19 a in
    trace m (init ego) (take_events (length evs) evs)
  else if cmd =? 2 then [b2z (tst_gt (arg 0 a) (arg 1 a)); tst_sub (arg 0 a) (arg 1 a)]
  else [].
