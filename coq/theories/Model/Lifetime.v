(* Model of flexstack.geonet.basic_header.LT / BasicHeader (lifetime, hop
   limits) and of the hop-limit choices of flexstack.geonet.router.
   Definitions only. All quantities are Python ints -> Z. *)
From FlexVerif Require Import Base.Prelude.

(* LTbase enum value -> milliseconds (LT.get_value_in_millis). *)
Definition base_ms (b : Z) : Z :=
  if b =? 0 then 50 else if b =? 1 then 1000 else if b =? 2 then 10000 else 100000.

Definition lt_value (m b : Z) : Z := m * base_ms b.

(* LT.set_value_in_millis: for 50 <= v < 1 000 000 each base proposes
   min(v // unit, 63); the largest product wins, the coarser base on ties.
   Below 50 ms -> (0, 50 ms); from 1 000 000 ms up -> (0, 100 s), which is the
   behaviour pinned by the repository's own tests (known finding KF-C20-1). *)
Definition cand (v b : Z) : Z := Z.min (v / base_ms b) 63.

Definition lt_step (v : Z) (acc : Z * Z * Z) (b : Z) : Z * Z * Z :=
  let '(m0, b0, best) := acc in
  let c := cand v b in
  if (0 <? c) && (best <=? c * base_ms b) then (c, b, c * base_ms b) else acc.

Definition lt_encode (v : Z) : Z * Z :=
  if (50 <=? v) && (v <? 1000000) then
    let '(m, b, _) := fold_left (lt_step v) [0; 1; 2; 3] (0, 0, 0) in (m, b)
  else if 1000000 <=? v then (0, 3) else (0, 0).

Definition lt_enc_value (v : Z) : Z := let '(m, b) := lt_encode v in lt_value m b.

(* LT.encode_to_int and the decoder inside BasicHeader.decode_from_int. *)
Definition lt_code (m b : Z) : Z := Z.lor (Z.shiftl m 2) b.
Definition lt_of_code (c : Z) : Z * Z := (Z.land (Z.shiftr c 2) 63, Z.land c 3).

(* LT.get_value_in_seconds, which is what every GN-DATA.indication reports as
   remaining packet lifetime (float(seconds)). *)
Definition ind_lifetime_s (m b : Z) : Z := lt_value m b / 1000.

(* BasicHeader.initialize_with_mib_request_and_rhl: request in ms (None -> use
   MIB default seconds * 1000). *)
Definition req_lt (default_s : Z) (req_ms : option Z) : Z * Z :=
  match req_ms with Some v => lt_encode v | None => lt_encode (default_s * 1000) end.

(* BasicHeader wire word. *)
Definition bh_word (version nh reserved m b rhl : Z) : Z :=
  Z.lor (Z.lor (Z.lor (Z.lor (Z.shiftl version 28) (Z.shiftl nh 24))
                (Z.shiftl reserved 16)) (Z.shiftl (lt_code m b) 8)) rhl.

(* Hop limits chosen at the source (the gn_data_request methods of the router):
   kind 0 = beacon, 1 = SHB, 2 = multi-hop (GBC, GAC, GUC); LS packets use the
   MIB default. Result (RHL, MHL). *)
Definition src_hops (kind req_hl default_hl : Z) : Z * Z :=
  if (kind =? 0) || (kind =? 1) then (1, 1)
  else let hl := if req_hl <=? 1 then default_hl else req_hl in (hl, hl).

(* Receiver: Router.process_common_header discards when RHL > MHL. *)
Definition rx_hops_ok (rhl mhl : Z) : bool := rhl <=? mhl.

(* ---- driver entry point ------------------------------------------------ *)
(* cmd 1: lt_encode v            -> [m; b]
   cmd 2: lt_of_code c           -> [m; b; value_ms; seconds]
   cmd 3: src_hops kind req def  -> [rhl; mhl]
   cmd 4: rx_hops_ok rhl mhl     -> [0|1]
   cmd 5: lt_code m b            -> [code]
   cmd 6: lt range lo n          -> codes of lt_encode lo .. lo+n-1
   cmd 7: bh_word ...            -> [word] *)
Definition dispatch (cmd : Z) (a : list Z) : list Z :=
  if cmd =? 1 then let '(m, b) := lt_encode (arg 0 a) in [m; b]
  else if cmd =? 2 then
    let '(m, b) := lt_of_code (arg 0 a) in [m; b; lt_value m b; ind_lifetime_s m b]
  else if cmd =? 3 then
    let '(r, h) := src_hops (arg 0 a) (arg 1 a) (arg 2 a) in [r; h]
  else if cmd =? 4 then [b2z (rx_hops_ok (arg 0 a) (arg 1 a))]
  else if cmd =? 5 then [lt_code (arg 0 a) (arg 1 a)]
  else if cmd =? 6 then
    map (fun v => let '(m, b) := lt_encode v in lt_code m b)
        (zrange (arg 0 a) (Z.to_nat (arg 1 a)))
  else if cmd =? 7 then
    [bh_word (arg 0 a) (arg 1 a) (arg 2 a) (arg 3 a) (arg 4 a) (arg 5 a)]
  else [].
