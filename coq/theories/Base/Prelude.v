(* Common imports and small helpers shared by all model files.
   Definitions only; lemmas about them live in Base/PreludeFacts.v. *)
From Coq Require Export ZArith List Bool Lia.
Export ListNotations.
Open Scope Z_scope.

(* Boolean as Z for the wire protocol between the driver and the harness. *)
Definition b2z (b : bool) : Z := if b then 1 else 0.
Definition z2b (z : Z) : bool := negb (z =? 0).

(* nth with default 0 on Z lists: used only to decode driver arguments. *)
Definition arg (n : nat) (l : list Z) : Z := nth n l 0.

(* Python floor division and modulo coincide with Z.div / Z.modulo
   for positive divisors (both round towards minus infinity). *)
Definition pydiv (a b : Z) : Z := a / b.
Definition pymod (a b : Z) : Z := a mod b.

(* Two's complement helpers. *)
Definition to_unsigned (w : Z) (v : Z) : Z := v mod 2 ^ w.
Definition to_signed (w : Z) (u : Z) : Z :=
  if u <? 2 ^ (w - 1) then u else u - 2 ^ w.

Fixpoint zrange (lo : Z) (n : nat) : list Z :=
  match n with O => [] | S k => lo :: zrange (lo + 1) k end.
