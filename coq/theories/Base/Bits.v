(* Big-endian bit packing of field lists, and byte strings as a special case.
   Definitions only; the lemmas are in Base/BitsFacts.v. *)
From FlexVerif Require Import Base.Prelude.

(* a field is (width in bits, unsigned value) *)
Definition pack_step (acc : Z) (f : Z * Z) : Z := acc * 2 ^ (fst f) + snd f.
Definition pack (fs : list (Z * Z)) : Z := fold_left pack_step fs 0.

Definition total_width (ws : list Z) : Z := fold_right Z.add 0 ws.

(* unpack from the least significant end; rws are the widths in reverse order,
   the result is the list of values in reverse order as well *)
Fixpoint unpack_rev (rws : list Z) (x : Z) : list Z :=
  match rws with
  | [] => []
  | w :: r => (x mod 2 ^ w) :: unpack_rev r (x / 2 ^ w)
  end.
Definition unpack (ws : list Z) (x : Z) : list Z := rev (unpack_rev (rev ws) x).

(* bytes *)
Definition of_bytes (bs : list Z) : Z := pack (map (fun b => (8, b)) bs).
Definition to_bytes (n : nat) (x : Z) : list Z := unpack (repeat 8 n) x.

Definition is_byte (b : Z) : bool := (0 <=? b) && (b <? 256).
Definition wf_bytes (bs : list Z) : bool := forallb is_byte bs.

(* a value fits its width *)
Definition fits (w v : Z) : bool := (0 <=? v) && (v <? 2 ^ w).
Fixpoint all_fit (ws vs : list Z) : bool :=
  match ws, vs with
  | [], [] => true
  | w :: ws', v :: vs' => fits w v && all_fit ws' vs'
  | _, _ => false
  end.

(* generic header codec over a width table (total width a multiple of 8) *)
Definition hdr_bytes (ws : list Z) : nat := Z.to_nat (total_width ws / 8).
Definition enc_fields (ws vs : list Z) : list Z := to_bytes (hdr_bytes ws) (pack (combine ws vs)).
Definition dec_fields (ws : list Z) (bs : list Z) : option (list Z) :=
  if (length bs <? hdr_bytes ws)%nat then None
  else Some (unpack ws (of_bytes (firstn (hdr_bytes ws) bs))).
