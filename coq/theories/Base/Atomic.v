(* Atomicity of critical sections (the reduction step between "well-locked + mutual exclusion" and "critical sections
   behave as atomic operations"), for CLOSED sections: a section of lock l whose shared accesses all go to fields that
   may only be written under l.

   Memory semantics on top of Base/Interleave.v: shared memory maps fields to values; every thread keeps the list of
   the values it has read so far; a write stores [wv f reads] - an ARBITRARY function of the field and of everything
   the thread has read (a Section variable: the theorems hold for every such function, i.e. for every deterministic
   thread-local computation).  Theorem [atomic_section]: in every interleaved execution of well-locked programs, from
   the moment a thread is inside a closed section of l until it reaches the matching release, the l-protected part of
   the memory and the thread's own reads evolve EXACTLY as if the body ran alone, without interruption, from the
   memory at the beginning - whatever the other threads do in between.  Library file (definitions and proofs). *)
From FlexVerif Require Import Base.Prelude Base.Interleave.
From Coq Require Import ZifyBool.

Section Memory.
  Variable wv : Z -> list Z -> Z.
  Variable p : policy.

  Definition upd (m : Z -> Z) (f v : Z) : Z -> Z := fun g => if g =? f then v else m g.

  Record mstate := mkM { m_cfg : config; m_mem : Z -> Z; m_loc : list (list Z) }.

  Fixpoint update_loc (c : list (list Z)) (i : nat) (t : list Z) : list (list Z) :=
    match c, i with
    | [], _ => []
    | _ :: r, O => t :: r
    | x :: r, S k => x :: update_loc r k t
    end.

  (* effect of one action on the memory and on the acting thread's reads *)
  Definition act_mem (a : action) (m : Z -> Z) (ls : list Z) : (Z -> Z) * list Z :=
    match a with
    | Rd f => (m, m f :: ls)
    | Wr f => (upd m f (wv f ls), ls)
    | _ => (m, ls)
    end.

  Inductive mstep : mstate -> mstate -> Prop :=
  | MStep s i t a r ls :
      nth_error (m_cfg s) i = Some t -> t_prog t = a :: r -> nth_error (m_loc s) i = Some ls ->
      enabled (m_cfg s) i = true ->
      mstep s (mkM (update_nth (m_cfg s) i (step_thread t)) (fst (act_mem a (m_mem s) ls))
                   (update_loc (m_loc s) i (snd (act_mem a (m_mem s) ls)))).

  Inductive msteps : mstate -> mstate -> Prop :=
  | MS0 s : msteps s s
  | MSS s s' s'' : msteps s s' -> mstep s' s'' -> msteps s s''.

  Definition minit (progs : list (list action)) (m0 : Z -> Z) : mstate :=
    mkM (initial progs) m0 (map (fun _ => []) progs).

  (* the body of a section run alone *)
  Fixpoint run_seq (acts : list action) (m : Z -> Z) (ls : list Z) : (Z -> Z) * list Z :=
    match acts with
    | [] => (m, ls)
    | a :: r => run_seq r (fst (act_mem a m ls)) (snd (act_mem a m ls))
    end.

  (* closed section body: brackets balanced inside the body, every shared access goes to a field written only under l *)
  Definition wr_under (l f : Z) : bool := match p_write p f with Some k => k =? l | None => false end.
  Fixpoint closed (l : Z) (depth : list Z) (acts : list action) : bool :=
    match acts with
    | [] => match depth with [] => true | _ => false end
    | Acq k :: r => closed l (k :: depth) r
    | Rel k :: r => match depth with h :: d => (h =? k) && closed l d r | [] => false end
    | Rd f :: r => wr_under l f && closed l depth r
    | Wr f :: r => wr_under l f && closed l depth r
    end.

  Definition agree (l : Z) (m m' : Z -> Z) : Prop := forall f, wr_under l f = true -> m f = m' f.

  (* ---- projection on the lock semantics --------------------------------------------------------------------- *)
  Lemma mstep_step s s' : mstep s s' -> step (m_cfg s) (m_cfg s').
  Proof. intros H. inversion H; subst. cbn [m_cfg]. constructor; assumption. Qed.

  Lemma msteps_reachable c0 s s' : reachable c0 (m_cfg s) -> msteps s s' -> reachable c0 (m_cfg s').
  Proof.
    intros R H. induction H as [|s s' s'' H IH S]; [exact R|]. eapply RS; [apply IH; exact R | apply mstep_step; exact S].
  Qed.

  Lemma msteps_trans s s' s'' : msteps s s' -> msteps s' s'' -> msteps s s''.
  Proof. intros A B. induction B as [|x y z B IH S]; [exact A|]. eapply MSS; [apply IH; exact A | exact S]. Qed.

  (* ---- small facts ---------------------------------------------------------------------------------------------- *)
  Lemma nth_update_loc_same c : forall i t t0, nth_error c i = Some t0 -> nth_error (update_loc c i t) i = Some t.
  Proof. induction c as [|x c IH]; intros [|i] t t0 H; cbn in *; try discriminate; [reflexivity | eauto]. Qed.

  Lemma nth_update_loc_other c : forall i j t, i <> j -> nth_error (update_loc c i t) j = nth_error c j.
  Proof.
    induction c as [|x c IH]; intros [|i] [|j] t H; cbn; try reflexivity; try congruence.
    apply IH. congruence.
  Qed.

  Lemma run_seq_app a b : forall m ls, run_seq (a ++ b) m ls = run_seq b (fst (run_seq a m ls)) (snd (run_seq a m ls)).
  Proof. induction a as [|x a IH]; intros m ls; cbn [app run_seq]; [reflexivity | apply IH]. Qed.

  Lemma holds_app_r d h l : existsb (Z.eqb l) h = true -> existsb (Z.eqb l) (d ++ h) = true.
  Proof. intros H. rewrite existsb_app, H. apply orb_true_r. Qed.

  (* ---- the invariant of a section in progress ------------------------------------------------------------------ *)
  Section OneSection.
    Variable progs : list (list action).
    Variable m0 : Z -> Z.
    Hypothesis WL : forallb (wl p []) progs = true.

    Variable i : nat.
    Variable l : Z.
    Variable body rest : list action.
    Variable held1 : list Z.
    Variable mem1 : Z -> Z.
    Variable ls1 : list Z.
    Hypothesis Hl : existsb (Z.eqb l) held1 = true.

    Definition in_section (s : mstate) : Prop :=
      exists done todo d ti,
        body = done ++ todo /\ nth_error (m_cfg s) i = Some ti /\ t_prog ti = todo ++ Rel l :: rest /\
        t_held ti = d ++ held1 /\ closed l d todo = true /\
        agree l (m_mem s) (fst (run_seq done mem1 ls1)) /\ nth_error (m_loc s) i = Some (snd (run_seq done mem1 ls1)).

    Definition past_section (s : mstate) : Prop :=
      exists ti, nth_error (m_cfg s) i = Some ti /\ (length (t_prog ti) <= length rest)%nat.

    Lemma step_thread_length t a r : t_prog t = a :: r -> t_prog (step_thread t) = r.
    Proof. unfold step_thread. intros ->. destruct a; reflexivity. Qed.

    Lemma section_step s s' : reachable (initial progs) (m_cfg s) ->
      in_section s \/ past_section s -> mstep s s' -> in_section s' \/ past_section s'.
    Proof.
      intros R [I|P] S.
      - destruct I as (done & todo & d & ti & Hb & Ei & Pi & Hi & C & A & L).
        inversion S as [s0 j t a r ls Ej Pj Lj En]; subst.
        destruct (Nat.eq_dec j i) as [->|Dj].
        + (* the section's own thread moves *)
          rewrite Ei in Ej. inversion Ej; subst t. rewrite L in Lj. inversion Lj; subst ls. clear Ej Lj.
          destruct todo as [|x todo'].
          * (* it executes the closing release: the section is over *)
            right. cbn [app] in Pi. rewrite Pi in Pj. inversion Pj; subst a r.
            exists (step_thread ti). split; [cbn [m_cfg]; eapply nth_update_same; eauto|].
            rewrite (step_thread_length ti (Rel l) rest Pi). lia.
          * left. cbn [app] in Pi. rewrite Pi in Pj. inversion Pj; subst a r.
            exists (done ++ [x]), todo'.
            assert (Hrun : run_seq (done ++ [x]) mem1 ls1 =
                           act_mem x (fst (run_seq done mem1 ls1)) (snd (run_seq done mem1 ls1))).
            { rewrite run_seq_app. cbn [run_seq]. symmetry. apply surjective_pairing. }
            destruct x as [k|k|f|f]; cbn [closed] in C.
            -- exists (k :: d), (step_thread ti). repeat split.
               ++ rewrite <- app_assoc. exact Hb.
               ++ cbn [m_cfg]. eapply nth_update_same; eauto.
               ++ apply (step_thread_length ti _ _ Pi).
               ++ unfold step_thread. rewrite Pi. cbn [t_held]. rewrite Hi. reflexivity.
               ++ exact C.
               ++ rewrite Hrun. cbn [act_mem fst m_mem]. exact A.
               ++ rewrite Hrun. cbn [act_mem snd m_loc]. eapply nth_update_loc_same; eauto.
            -- destruct d as [|h d']; [discriminate|]. apply andb_true_iff in C as [Eh C].
               exists d', (step_thread ti). repeat split.
               ++ rewrite <- app_assoc. exact Hb.
               ++ cbn [m_cfg]. eapply nth_update_same; eauto.
               ++ apply (step_thread_length ti _ _ Pi).
               ++ unfold step_thread. rewrite Pi. cbn [t_held]. rewrite Hi. cbn [app remove_one]. rewrite Eh. reflexivity.
               ++ exact C.
               ++ rewrite Hrun. cbn [act_mem fst m_mem]. exact A.
               ++ rewrite Hrun. cbn [act_mem snd m_loc]. eapply nth_update_loc_same; eauto.
            -- apply andb_true_iff in C as [Ef C].
               exists d, (step_thread ti). repeat split.
               ++ rewrite <- app_assoc. exact Hb.
               ++ cbn [m_cfg]. eapply nth_update_same; eauto.
               ++ apply (step_thread_length ti _ _ Pi).
               ++ unfold step_thread. rewrite Pi. cbn [t_held]. exact Hi.
               ++ exact C.
               ++ rewrite Hrun. cbn [act_mem fst m_mem]. exact A.
               ++ rewrite Hrun. cbn [act_mem snd m_loc]. rewrite (A f Ef). eapply nth_update_loc_same; eauto.
            -- apply andb_true_iff in C as [Ef C].
               exists d, (step_thread ti). repeat split.
               ++ rewrite <- app_assoc. exact Hb.
               ++ cbn [m_cfg]. eapply nth_update_same; eauto.
               ++ apply (step_thread_length ti _ _ Pi).
               ++ unfold step_thread. rewrite Pi. cbn [t_held]. exact Hi.
               ++ exact C.
               ++ rewrite Hrun. cbn [act_mem fst m_mem]. intros g Hg. unfold upd. destruct (g =? f); [reflexivity | apply A; exact Hg].
               ++ rewrite Hrun. cbn [act_mem snd m_loc]. eapply nth_update_loc_same; eauto.
        + (* another thread moves: it cannot write a field protected by l, because this thread holds l *)
          left. exists done, todo, d, ti. repeat split; try assumption.
          * cbn [m_cfg]. rewrite nth_update_other by exact Dj. exact Ei.
          * cbn [m_mem]. intros g Hg. rewrite <- (A g Hg).
            destruct a as [k|k|f|f]; cbn [act_mem fst]; try reflexivity.
            unfold upd. destruct (g =? f) eqn:Egf; [|reflexivity]. exfalso.
            assert (g = f) by lia. subst g.
            destruct (access_protected p progs (m_cfg s) j t f r WL R Ej) as [W _]. specialize (W Pj).
            unfold wr_under in Hg. destruct (p_write p f) as [k|] eqn:Ew; [|discriminate].
            assert (k = l) by lia. subst k. cbn [need] in W.
            assert (Hti : holds ti l = true) by (unfold holds; rewrite Hi; apply holds_app_r; exact Hl).
            exact (mutex_reachable progs (m_cfg s) R i j ti t l Ei Ej (fun E => Dj (eq_sym E)) Hti W).
          * cbn [m_loc]. rewrite nth_update_loc_other by exact Dj. exact L.
      - right. destruct P as (ti & Ei & Len). inversion S as [s0 j t a r ls Ej Pj Lj En]; subst.
        destruct (Nat.eq_dec j i) as [->|Dj].
        + rewrite Ei in Ej. inversion Ej; subst t. exists (step_thread ti). split.
          * cbn [m_cfg]. eapply nth_update_same; eauto.
          * rewrite (step_thread_length ti a r Pj). rewrite Pj in Len. cbn [length] in Len. lia.
        + exists ti. split; [|exact Len]. cbn [m_cfg]. rewrite nth_update_other by exact Dj. exact Ei.
    Qed.

    Lemma section_steps s s' : reachable (initial progs) (m_cfg s) ->
      in_section s \/ past_section s -> msteps s s' -> in_section s' \/ past_section s'.
    Proof.
      intros R H M. induction M as [|s s' s'' M IH S]; [exact H|].
      eapply section_step; [eapply msteps_reachable; eauto | apply IH; assumption | exact S].
    Qed.
  End OneSection.

  (* THE ATOMICITY THEOREM.  s1: some reachable state in which thread i is inside a section of l (it holds l; what remains of
     its program is [body ++ Rel l :: rest] with a closed body).  s2: any later state of the same execution in which thread i
     has arrived at that release.  Then the l-protected memory at s2 and everything thread i has read are exactly the result
     of running the body alone from the memory at s1. *)
  Theorem atomic_section progs m0 s1 s2 i t1 t2 l body rest ls1 ls2 :
    forallb (wl p []) progs = true ->
    msteps (minit progs m0) s1 -> msteps s1 s2 ->
    nth_error (m_cfg s1) i = Some t1 -> t_prog t1 = body ++ Rel l :: rest -> holds t1 l = true ->
    closed l [] body = true -> nth_error (m_loc s1) i = Some ls1 ->
    nth_error (m_cfg s2) i = Some t2 -> t_prog t2 = Rel l :: rest -> nth_error (m_loc s2) i = Some ls2 ->
    agree l (m_mem s2) (fst (run_seq body (m_mem s1) ls1)) /\ ls2 = snd (run_seq body (m_mem s1) ls1).
  Proof.
    intros WL M1 M2 E1 P1 H1 C L1 E2 P2 L2.
    assert (R1 : reachable (initial progs) (m_cfg s1)).
    { apply (msteps_reachable (initial progs) (minit progs m0) s1); [constructor | exact M1]. }
    assert (I1 : in_section i l body rest (t_held t1) (m_mem s1) ls1 s1).
    { exists [], body, [], t1. cbn [app run_seq fst snd]. repeat split; try assumption; try reflexivity; try (intros f _; reflexivity). }
    destruct (section_steps progs WL i l body rest (t_held t1) (m_mem s1) ls1 H1 s1 s2 R1 (or_introl I1) M2) as [I2|P].
    - destruct I2 as (done & todo & d & ti & Hb & Ei & Pi & Hi & Cl & A & L).
      rewrite E2 in Ei. inversion Ei; subst ti. rewrite P2 in Pi.
      assert (todo = []).
      { assert (Hlen : length (Rel l :: rest) = length (todo ++ Rel l :: rest)) by (rewrite <- Pi; reflexivity).
        rewrite app_length in Hlen. cbn [length] in Hlen. destruct todo; [reflexivity | cbn [length] in Hlen; lia]. }
      subst todo. rewrite app_nil_r in Hb. subst done. rewrite L2 in L. inversion L. split; [exact A | reflexivity].
    - destruct P as (ti & Ei & Len). rewrite E2 in Ei. inversion Ei; subst ti. rewrite P2 in Len. cbn [length] in Len. lia.
  Qed.

  (* consequence used for "check-then-act inside one section is safe": a value read inside the section is still the value of
     the field at the release unless the section itself wrote it - other threads cannot have changed it *)
  Corollary section_read_stable progs m0 s1 s2 i t1 t2 l f rest ls1 ls2 :
    forallb (wl p []) progs = true ->
    msteps (minit progs m0) s1 -> msteps s1 s2 ->
    nth_error (m_cfg s1) i = Some t1 -> t_prog t1 = [Rd f] ++ Rel l :: rest -> holds t1 l = true ->
    wr_under l f = true -> nth_error (m_loc s1) i = Some ls1 ->
    nth_error (m_cfg s2) i = Some t2 -> t_prog t2 = Rel l :: rest -> nth_error (m_loc s2) i = Some ls2 ->
    ls2 = m_mem s2 f :: ls1.
  Proof.
    intros WL M1 M2 E1 P1 H1 Wf L1 E2 P2 L2.
    assert (C : closed l [] [Rd f] = true) by (cbn [closed]; rewrite Wf; reflexivity).
    destruct (atomic_section progs m0 s1 s2 i t1 t2 l [Rd f] rest ls1 ls2 WL M1 M2 E1 P1 H1 C L1 E2 P2 L2) as [A B].
    cbn [run_seq act_mem fst snd] in A, B. rewrite B. f_equal. symmetry. apply A. exact Wf.
  Qed.


  (* ISOLATION (no closedness needed): while thread i holds l, a step of ANOTHER thread leaves every field that may only be
     written under l unchanged *)
  Theorem section_isolation progs s i ti j tj a r ls l :
    forallb (wl p []) progs = true -> reachable (initial progs) (m_cfg s) ->
    nth_error (m_cfg s) i = Some ti -> holds ti l = true ->
    nth_error (m_cfg s) j = Some tj -> j <> i -> t_prog tj = a :: r ->
    agree l (m_mem s) (fst (act_mem a (m_mem s) ls)).
  Proof.
    intros WL R Ei Hi Ej Dj Pj g Hg.
    destruct a as [k|k|f|f]; cbn [act_mem fst]; try reflexivity.
    unfold upd. destruct (g =? f) eqn:Egf; [|reflexivity]. exfalso. assert (g = f) by lia. subst g.
    destruct (access_protected p progs (m_cfg s) j tj f r WL R Ej) as [W _]. specialize (W Pj).
    unfold wr_under in Hg. destruct (p_write p f) as [k|] eqn:Ew; [|discriminate]. assert (k = l) by lia. subst k.
    cbn [need] in W. exact (mutex_reachable progs (m_cfg s) R i j ti tj l Ei Ej (fun E => Dj (eq_sym E)) Hi W).
  Qed.

  (* ---- from a static check on the programs to the hypotheses of the theorem ------------------------------------ *)
  (* the remaining program right after an acquisition of l, split at the matching release *)
  Fixpoint split_section (l : Z) (depth : list Z) (acts : list action) : option (list action * list action) :=
    match acts with
    | [] => None
    | Acq k :: r => match split_section l (k :: depth) r with Some (b, t) => Some (Acq k :: b, t) | None => None end
    | Rel k :: r => match depth with
                    | [] => if k =? l then Some ([], r) else None
                    | h :: d => match split_section l d r with Some (b, t) => Some (Rel k :: b, t) | None => None end
                    end
    | a :: r => match split_section l depth r with Some (b, t) => Some (a :: b, t) | None => None end
    end.

  Definition section_closed_at (l : Z) (r : list action) : bool :=
    match split_section l [] r with Some (b, _) => closed l [] b | None => false end.

  (* every acquisition of l in the program opens a closed section *)
  Fixpoint all_sections_closed (l : Z) (acts : list action) : bool :=
    match acts with
    | [] => true
    | Acq k :: r => (if k =? l then section_closed_at l r else true) && all_sections_closed l r
    | _ :: r => all_sections_closed l r
    end.

  Lemma split_section_spec l : forall acts depth b t, split_section l depth acts = Some (b, t) -> acts = b ++ Rel l :: t.
  Proof.
    induction acts as [|a r IH]; intros depth b t H; cbn [split_section] in H; [discriminate|].
    destruct a as [k|k|f|f].
    - destruct (split_section l (k :: depth) r) as [[b' t']|] eqn:E; [|discriminate]. inversion H; subst.
      cbn [app]. f_equal. eapply IH; eauto.
    - destruct depth as [|h d].
      + destruct (k =? l) eqn:E; [|discriminate]. inversion H; subst. cbn [app]. f_equal. f_equal. lia.
      + destruct (split_section l d r) as [[b' t']|] eqn:E; [|discriminate]. inversion H; subst.
        cbn [app]. f_equal. eapply IH; eauto.
    - destruct (split_section l depth r) as [[b' t']|] eqn:E; [|discriminate]. inversion H; subst.
      cbn [app]. f_equal. eapply IH; eauto.
    - destruct (split_section l depth r) as [[b' t']|] eqn:E; [|discriminate]. inversion H; subst.
      cbn [app]. f_equal. eapply IH; eauto.
  Qed.

  Lemma split_section_app l tail : forall acts depth b t, split_section l depth acts = Some (b, t) ->
    split_section l depth (acts ++ tail) = Some (b, t ++ tail).
  Proof.
    induction acts as [|a r IH]; intros depth b t H; cbn [split_section app] in *; [discriminate|].
    destruct a as [k|k|f|f].
    - destruct (split_section l (k :: depth) r) as [[b' t']|] eqn:E; [|discriminate]. inversion H; subst.
      rewrite (IH _ _ _ E). reflexivity.
    - destruct depth as [|h d].
      + destruct (k =? l); [|discriminate]. inversion H; subst. reflexivity.
      + destruct (split_section l d r) as [[b' t']|] eqn:E; [|discriminate]. inversion H; subst.
        rewrite (IH _ _ _ E). reflexivity.
    - destruct (split_section l depth r) as [[b' t']|] eqn:E; [|discriminate]. inversion H; subst.
      rewrite (IH _ _ _ E). reflexivity.
    - destruct (split_section l depth r) as [[b' t']|] eqn:E; [|discriminate]. inversion H; subst.
      rewrite (IH _ _ _ E). reflexivity.
  Qed.

  Lemma all_sections_closed_at l : forall acts pre r, all_sections_closed l acts = true -> acts = pre ++ Acq l :: r ->
    section_closed_at l r = true.
  Proof.
    induction acts as [|a acts IH]; intros pre r H E.
    - destruct pre; discriminate.
    - destruct pre as [|x pre]; cbn [app] in E; inversion E; subst.
      + cbn [all_sections_closed] in H. rewrite Z.eqb_refl in H. apply andb_true_iff in H as [H _]. exact H.
      + apply (IH pre r); [|reflexivity]. destruct x; cbn [all_sections_closed] in H; try exact H.
        apply andb_true_iff in H as [_ H]. exact H.
  Qed.

  (* a thread that is well-locked and stands in front of a closed body followed by Rel l holds l *)
  Lemma closed_body_holds l rest : forall todo d held, wl p (d ++ held) (todo ++ Rel l :: rest) = true -> closed l d todo = true ->
    existsb (Z.eqb l) held = true.
  Proof.
    induction todo as [|a todo IH]; intros d held W C; cbn [app] in W.
    - cbn [closed] in C. destruct d; [|discriminate]. cbn [app wl] in W. destruct held as [|h hs]; [discriminate|].
      apply andb_true_iff in W as [E _]. cbn [existsb]. assert (h = l) by lia. subst. rewrite Z.eqb_refl. reflexivity.
    - destruct a as [k|k|f|f]; cbn [closed wl] in *.
      + apply (IH (k :: d) held); assumption.
      + destruct d as [|h d']; [discriminate|]. apply andb_true_iff in C as [_ C]. cbn [app] in W.
        apply andb_true_iff in W as [_ W]. apply (IH d' held); assumption.
      + apply andb_true_iff in C as [_ C]. apply andb_true_iff in W as [_ W]. apply (IH d held); assumption.
      + apply andb_true_iff in C as [_ C]. apply andb_true_iff in W as [_ W]. apply (IH d held); assumption.
  Qed.

  (* THE THEOREM IN THE FORM USED BY THE PROPERTIES: the thread has just acquired l inside a method m that passes the static
     check (its remaining program is what follows that acquisition in m, then anything).  Until it reaches the matching
     release, the l-protected memory and its own reads evolve as if the section body ran alone. *)
  Theorem atomic_section_checked progs m0 s1 s2 i t1 t2 l m pre r tail ls1 ls2 :
    forallb (wl p []) progs = true ->
    all_sections_closed l m = true -> m = pre ++ Acq l :: r ->
    msteps (minit progs m0) s1 -> msteps s1 s2 ->
    nth_error (m_cfg s1) i = Some t1 -> t_prog t1 = r ++ tail -> nth_error (m_loc s1) i = Some ls1 ->
    exists body rest, r = body ++ Rel l :: rest /\ closed l [] body = true /\
      (nth_error (m_cfg s2) i = Some t2 -> t_prog t2 = Rel l :: rest ++ tail -> nth_error (m_loc s2) i = Some ls2 ->
       agree l (m_mem s2) (fst (run_seq body (m_mem s1) ls1)) /\ ls2 = snd (run_seq body (m_mem s1) ls1)).
  Proof.
    intros WL AC Em M1 M2 E1 P1 L1.
    pose proof (all_sections_closed_at l m pre r AC Em) as SC. unfold section_closed_at in SC.
    destruct (split_section l [] r) as [[body rest]|] eqn:Es; [|discriminate].
    exists body, rest. pose proof (split_section_spec l r [] body rest Es) as Er. split; [exact Er|]. split; [exact SC|].
    intros E2 P2 L2.
    assert (P1' : t_prog t1 = body ++ Rel l :: (rest ++ tail)).
    { rewrite P1, Er. rewrite <- app_assoc. reflexivity. }
    assert (R1 : reachable (initial progs) (m_cfg s1)).
    { apply (msteps_reachable (initial progs) (minit progs m0) s1); [constructor | exact M1]. }
    assert (H1 : holds t1 l = true).
    { pose proof (nth_error_forall _ _ _ _ (reachable_ok p progs (m_cfg s1) WL R1) E1) as K. unfold thread_ok in K.
      rewrite P1' in K. unfold holds. apply (closed_body_holds l (rest ++ tail) body [] (t_held t1)); [exact K | exact SC]. }
    apply (atomic_section progs m0 s1 s2 i t1 t2 l body (rest ++ tail) ls1 ls2 WL M1 M2 E1 P1' H1 SC L1 E2 P2 L2).
  Qed.
End Memory.
