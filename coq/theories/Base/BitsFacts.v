From FlexVerif Require Import Base.Prelude Base.Bits.
From Coq Require Import ZifyBool.

Lemma pack_app fs gs : pack (fs ++ gs) = fold_left pack_step gs (pack fs).
Proof. unfold pack. apply fold_left_app. Qed.

Lemma pack_snoc fs w v : pack (fs ++ [(w, v)]) = pack fs * 2 ^ w + v.
Proof. rewrite pack_app. reflexivity. Qed.

Lemma total_width_app a b : total_width (a ++ b) = total_width a + total_width b.
Proof. unfold total_width. induction a as [|x a IH]; cbn [app fold_right]; lia. Qed.

Lemma total_width_rev a : total_width (rev a) = total_width a.
Proof. induction a as [|x a IH]; [reflexivity|]. cbn [rev]. rewrite total_width_app, IH.
  unfold total_width. cbn [fold_right]. lia. Qed.

Lemma all_fit_length ws vs : all_fit ws vs = true -> length ws = length vs.
Proof. revert vs. induction ws as [|w ws IH]; intros [|v vs] H; cbn in *; try discriminate; auto.
  apply andb_true_iff in H as [_ H]. f_equal. auto. Qed.

Lemma all_fit_app ws1 vs1 ws2 vs2 : length ws1 = length vs1 ->
  all_fit (ws1 ++ ws2) (vs1 ++ vs2) = all_fit ws1 vs1 && all_fit ws2 vs2.
Proof. revert vs1. induction ws1 as [|w ws1 IH]; intros [|v vs1] H; cbn in *; try discriminate; auto.
  rewrite IH by lia. apply andb_assoc. Qed.

Lemma all_fit_nonneg_widths_irrelevant : True. Proof. exact I. Qed.

Lemma fits_spec w v : fits w v = true <-> 0 <= v < 2 ^ w.
Proof. unfold fits. lia. Qed.

(* pack is bounded by the total width *)
Lemma pack_bound_rev rws rvs : Forall (fun w => 0 <= w) rws -> all_fit rws rvs = true ->
  0 <= pack (rev (combine rws rvs)) < 2 ^ total_width rws.
Proof.
  intros Hw. revert rvs. induction Hw as [|w rws Hw0 Hws IH]; intros [|v rvs] H; cbn in H; try discriminate.
  - cbn. lia.
  - apply andb_true_iff in H as [Hf H]. apply fits_spec in Hf. specialize (IH _ H).
    cbn [combine rev]. rewrite pack_snoc. unfold total_width in *. cbn [fold_right].
    rewrite Z.pow_add_r by (try lia; clear - Hws; induction Hws; cbn; lia).
    assert (0 < 2 ^ w) by (apply Z.pow_pos_nonneg; lia).
    nia.
Qed.

Lemma total_width_nonneg ws : Forall (fun w => 0 <= w) ws -> 0 <= total_width ws.
Proof. intros H; induction H; unfold total_width in *; cbn; lia. Qed.

Lemma combine_rev {A B} (a : list A) (b : list B) : length a = length b ->
  combine (rev a) (rev b) = rev (combine a b).
Proof.
  revert b. induction a as [|x a IH]; intros [|y b] H; cbn in *; try discriminate; auto.
  injection H as H. rewrite <- IH by exact H.
  assert (L : length (rev a) = length (rev b)) by (rewrite !rev_length; exact H).
  clear IH. revert L. generalize (rev a) (rev b). intros l1. induction l1 as [|p l1 IH2]; intros [|q l2] L;
    cbn in *; try discriminate; auto. f_equal. apply IH2. lia.
Qed.

Lemma pack_bound ws vs : Forall (fun w => 0 <= w) ws -> all_fit ws vs = true ->
  0 <= pack (combine ws vs) < 2 ^ total_width ws.
Proof.
  intros Hw H. pose proof (all_fit_length _ _ H) as L.
  assert (Hr : all_fit (rev ws) (rev vs) = true).
  { clear Hw. revert vs H L. induction ws as [|w ws IH]; intros [|v vs] H L; cbn in *; try discriminate; auto.
    apply andb_true_iff in H as [Hf H]. rewrite all_fit_app by (rewrite !rev_length; lia).
    rewrite IH by (auto; lia). cbn. rewrite Hf. reflexivity. }
  pose proof (pack_bound_rev (rev ws) (rev vs) ltac:(apply Forall_rev; exact Hw) Hr) as B.
  rewrite combine_rev in B by exact L. rewrite rev_involutive, total_width_rev in B. exact B.
Qed.

(* unpack inverts pack *)
Lemma unpack_rev_pack rws rvs : Forall (fun w => 0 <= w) rws -> all_fit rws rvs = true ->
  unpack_rev rws (pack (rev (combine rws rvs))) = rvs.
Proof.
  intros Hw. revert rvs. induction Hw as [|w rws Hw0 Hws IH]; intros [|v rvs] H; cbn in H; try discriminate.
  - reflexivity.
  - apply andb_true_iff in H as [Hf H]. apply fits_spec in Hf.
    cbn [combine rev]. rewrite pack_snoc. cbn [unpack_rev].
    assert (0 < 2 ^ w) by (apply Z.pow_pos_nonneg; lia).
    replace ((pack (rev (combine rws rvs)) * 2 ^ w + v) mod 2 ^ w) with v.
    2:{ rewrite Z.add_comm, Z.mod_add by lia. rewrite Z.mod_small; lia. }
    replace ((pack (rev (combine rws rvs)) * 2 ^ w + v) / 2 ^ w) with (pack (rev (combine rws rvs))).
    2:{ rewrite Z.add_comm, Z.div_add by lia. rewrite Z.div_small; lia. }
    f_equal. apply IH. exact H.
Qed.

Lemma all_fit_rev ws vs : all_fit ws vs = true -> all_fit (rev ws) (rev vs) = true.
Proof.
  revert vs. induction ws as [|w ws IH]; intros [|v vs] H; cbn in *; try discriminate; auto.
  apply andb_true_iff in H as [Hf H]. pose proof (all_fit_length _ _ H).
  rewrite all_fit_app by (rewrite !rev_length; lia). rewrite IH by exact H. cbn. rewrite Hf. reflexivity.
Qed.

Theorem unpack_pack ws vs : Forall (fun w => 0 <= w) ws -> all_fit ws vs = true ->
  unpack ws (pack (combine ws vs)) = vs.
Proof.
  intros Hw H. unfold unpack. pose proof (all_fit_length _ _ H) as L.
  pose proof (unpack_rev_pack (rev ws) (rev vs) (Forall_rev Hw) (all_fit_rev _ _ H)) as U.
  rewrite combine_rev, rev_involutive in U by exact L. rewrite U. apply rev_involutive.
Qed.

(* pack inverts unpack on numbers that fit the total width *)
Lemma pack_unpack_rev rws x : Forall (fun w => 0 <= w) rws -> 0 <= x < 2 ^ total_width rws ->
  pack (rev (combine rws (unpack_rev rws x))) = x /\ all_fit rws (unpack_rev rws x) = true.
Proof.
  intros Hw. revert x. induction Hw as [|w rws Hw0 Hws IH]; intros x Hx.
  - cbn in *. split; [unfold pack; cbn; lia | reflexivity].
  - cbn [unpack_rev combine rev]. rewrite pack_snoc.
    assert (P : 0 < 2 ^ w) by (apply Z.pow_pos_nonneg; lia).
    unfold total_width in Hx. cbn [fold_right] in Hx.
    rewrite Z.pow_add_r in Hx by (try lia; apply (total_width_nonneg rws Hws)).
    assert (Hq : 0 <= x / 2 ^ w < 2 ^ total_width rws).
    { split; [apply Z.div_pos; lia|]. apply Z.div_lt_upper_bound; [lia|]. unfold total_width. lia. }
    destruct (IH _ Hq) as [E F]. rewrite E. split.
    + pose proof (Z.div_mod x (2 ^ w) ltac:(lia)). lia.
    + cbn [all_fit]. rewrite F. rewrite andb_true_r. apply fits_spec. apply Z.mod_pos_bound. lia.
Qed.

Lemma unpack_rev_length rws x : length (unpack_rev rws x) = length rws.
Proof. revert x. induction rws as [|w r IH]; intros x; cbn; auto. Qed.

Theorem pack_unpack ws x : Forall (fun w => 0 <= w) ws -> 0 <= x < 2 ^ total_width ws ->
  pack (combine ws (unpack ws x)) = x /\ all_fit ws (unpack ws x) = true.
Proof.
  intros Hw Hx. unfold unpack.
  destruct (pack_unpack_rev (rev ws) x (Forall_rev Hw) ltac:(rewrite total_width_rev; exact Hx)) as [E F].
  assert (C : combine ws (rev (unpack_rev (rev ws) x)) = rev (combine (rev ws) (unpack_rev (rev ws) x))).
  { rewrite <- combine_rev by (rewrite unpack_rev_length; reflexivity). rewrite rev_involutive. reflexivity. }
  split.
  - rewrite C. exact E.
  - pose proof (all_fit_rev _ _ F) as G. rewrite rev_involutive in G. exact G.
Qed.

Lemma unpack_length ws x : length (unpack ws x) = length ws.
Proof. unfold unpack. rewrite rev_length, unpack_rev_length, rev_length. reflexivity. Qed.

(* ---- bytes ------------------------------------------------------------- *)
Lemma repeat8_nonneg n : Forall (fun w => 0 <= w) (repeat 8 n).
Proof. induction n; cbn; constructor; auto; lia. Qed.

Lemma total_width_repeat8 n : total_width (repeat 8 n) = 8 * Z.of_nat n.
Proof. induction n as [|n IH]; [reflexivity|]. cbn [repeat]. unfold total_width in *. cbn [fold_right]. lia. Qed.

Lemma to_bytes_length n x : length (to_bytes n x) = n.
Proof. unfold to_bytes. rewrite unpack_length, repeat_length. reflexivity. Qed.

Lemma combine_repeat8 (bs : list Z) : combine (repeat 8 (length bs)) bs = map (fun b : Z => (8, b)) bs.
Proof. induction bs as [|b bs IH]; cbn; [reflexivity|]. f_equal. exact IH. Qed.

Lemma all_fit_bytes (bs : list Z) : all_fit (repeat 8 (length bs)) bs = wf_bytes bs.
Proof. induction bs as [|b bs IH]; cbn; [reflexivity|]. rewrite IH. reflexivity. Qed.

Theorem of_to_bytes n x : 0 <= x < 2 ^ (8 * Z.of_nat n) -> of_bytes (to_bytes n x) = x.
Proof.
  intros Hx. unfold of_bytes, to_bytes.
  destruct (pack_unpack (repeat 8 n) x (repeat8_nonneg n) ltac:(rewrite total_width_repeat8; exact Hx)) as [E _].
  rewrite <- E at 2. f_equal.
  pose proof (unpack_length (repeat 8 n) x) as L. rewrite repeat_length in L.
  rewrite <- L at 2. symmetry. rewrite <- combine_repeat8. rewrite L.
  rewrite <- L at 1. rewrite L. reflexivity.
Qed.

Theorem to_bytes_wf n x : 0 <= x < 2 ^ (8 * Z.of_nat n) -> wf_bytes (to_bytes n x) = true.
Proof.
  intros Hx. unfold to_bytes.
  destruct (pack_unpack (repeat 8 n) x (repeat8_nonneg n) ltac:(rewrite total_width_repeat8; exact Hx)) as [_ F].
  pose proof (unpack_length (repeat 8 n) x) as L. rewrite repeat_length in L.
  rewrite <- all_fit_bytes. rewrite L. exact F.
Qed.

Theorem to_of_bytes bs : wf_bytes bs = true -> to_bytes (length bs) (of_bytes bs) = bs.
Proof.
  intros H. unfold to_bytes, of_bytes. rewrite <- combine_repeat8.
  apply unpack_pack; [apply repeat8_nonneg|]. rewrite all_fit_bytes. exact H.
Qed.

Lemma of_bytes_bound bs : wf_bytes bs = true -> 0 <= of_bytes bs < 2 ^ (8 * Z.of_nat (length bs)).
Proof.
  intros H. unfold of_bytes. rewrite <- combine_repeat8. rewrite <- total_width_repeat8.
  apply pack_bound; [apply repeat8_nonneg|]. rewrite all_fit_bytes. exact H.
Qed.

Lemma in_firstn {A} n (l : list A) x : In x (firstn n l) -> In x l.
Proof. revert l. induction n as [|n IH]; intros [|y l] H; cbn in *; try contradiction.
  destruct H as [->|H]; [left; reflexivity | right; apply IH; exact H]. Qed.

(* ---- generic header codec ------------------------------------------------ *)
Theorem dec_enc_fields ws vs rest : Forall (fun w => 0 <= w) ws -> (total_width ws mod 8 = 0) ->
  all_fit ws vs = true -> dec_fields ws (enc_fields ws vs ++ rest) = Some vs.
Proof.
  intros Hw H8 Hf. unfold dec_fields, enc_fields.
  pose proof (total_width_nonneg ws Hw) as Hn.
  assert (Hb : 8 * Z.of_nat (hdr_bytes ws) = total_width ws).
  { unfold hdr_bytes. rewrite Z2Nat.id by (apply Z.div_pos; lia).
    pose proof (Z.div_mod (total_width ws) 8 ltac:(lia)). lia. }
  rewrite app_length, to_bytes_length.
  destruct (Nat.ltb_spec (hdr_bytes ws + length rest) (hdr_bytes ws)) as [Hlt|_]; [lia|].
  rewrite firstn_app, to_bytes_length, Nat.sub_diag. cbn [firstn]. rewrite app_nil_r.
  rewrite firstn_all2 by (rewrite to_bytes_length; lia).
  rewrite of_to_bytes by (rewrite Hb; apply pack_bound; assumption).
  rewrite unpack_pack by assumption. reflexivity.
Qed.

Theorem enc_dec_fields ws bs vs : Forall (fun w => 0 <= w) ws -> (total_width ws mod 8 = 0) ->
  wf_bytes bs = true -> dec_fields ws bs = Some vs ->
  enc_fields ws vs = firstn (hdr_bytes ws) bs /\ all_fit ws vs = true.
Proof.
  intros Hw H8 Hwf. unfold dec_fields, enc_fields.
  destruct (Nat.ltb_spec (length bs) (hdr_bytes ws)) as [Hlt|Hge]; [discriminate|].
  intros E. injection E as <-.
  pose proof (total_width_nonneg ws Hw) as Hn.
  assert (Hb : 8 * Z.of_nat (hdr_bytes ws) = total_width ws).
  { unfold hdr_bytes. rewrite Z2Nat.id by (apply Z.div_pos; lia).
    pose proof (Z.div_mod (total_width ws) 8 ltac:(lia)). lia. }
  set (hb := firstn (hdr_bytes ws) bs).
  assert (Lhb : length hb = hdr_bytes ws) by (unfold hb; rewrite firstn_length; lia).
  assert (Whb : wf_bytes hb = true).
  { unfold hb, wf_bytes in *. rewrite forallb_forall in *. intros x Hx. apply Hwf.
    eapply in_firstn. exact Hx. }
  pose proof (of_bytes_bound hb Whb) as B. rewrite Lhb, Hb in B.
  destruct (pack_unpack ws (of_bytes hb) Hw B) as [E F]. split; [|exact F].
  rewrite E. rewrite <- Lhb. apply to_of_bytes. exact Whb.
Qed.

Lemma enc_fields_length ws vs : length (enc_fields ws vs) = hdr_bytes ws.
Proof. unfold enc_fields. apply to_bytes_length. Qed.

Theorem enc_fields_inj ws vs1 vs2 : Forall (fun w => 0 <= w) ws -> (total_width ws mod 8 = 0) ->
  all_fit ws vs1 = true -> all_fit ws vs2 = true -> enc_fields ws vs1 = enc_fields ws vs2 -> vs1 = vs2.
Proof.
  intros Hw H8 F1 F2 E.
  pose proof (dec_enc_fields ws vs1 [] Hw H8 F1) as D1.
  pose proof (dec_enc_fields ws vs2 [] Hw H8 F2) as D2.
  rewrite E in D1. rewrite D1 in D2. injection D2. auto.
Qed.

(* two's complement *)
Lemma signed_unsigned w v : 0 < w -> - 2 ^ (w - 1) <= v < 2 ^ (w - 1) -> to_signed w (to_unsigned w v) = v.
Proof.
  intros Hw Hv. unfold to_signed, to_unsigned.
  assert (E : 2 ^ w = 2 * 2 ^ (w - 1)) by (rewrite <- Z.pow_succ_r by lia; f_equal; lia).
  assert (0 < 2 ^ (w - 1)) by (apply Z.pow_pos_nonneg; lia).
  destruct (Z.ltb_spec (v mod 2 ^ w) (2 ^ (w - 1))) as [L|L].
  - destruct (Z_lt_le_dec v 0) as [N|N].
    + rewrite <- (Z.mod_add v 1) in L by lia. rewrite Z.mod_small in L by lia. lia.
    + apply Z.mod_small. lia.
  - destruct (Z_lt_le_dec v 0) as [N|N].
    + rewrite <- (Z.mod_add v 1) by lia. rewrite Z.mod_small by lia. lia.
    + rewrite Z.mod_small in L by lia. lia.
Qed.

Lemma unsigned_range w v : 0 < w -> 0 <= to_unsigned w v < 2 ^ w.
Proof. intros Hw. unfold to_unsigned. apply Z.mod_pos_bound. apply Z.pow_pos_nonneg; lia. Qed.

Lemma unsigned_signed w u : 0 < w -> 0 <= u < 2 ^ w -> to_unsigned w (to_signed w u) = u.
Proof.
  intros Hw Hu. unfold to_signed, to_unsigned.
  destruct (Z.ltb_spec u (2 ^ (w - 1))).
  - apply Z.mod_small. lia.
  - rewrite <- (Z.mod_add _ 1) by lia. replace (u - 2 ^ w + 1 * 2 ^ w) with u by lia. apply Z.mod_small. lia.
Qed.
