(* Threads as sequences of atomic actions over locks and shared fields; every interleaving.
   Definitions AND the generic theorems (this file is a library, independent of FlexStack):
     - mutual exclusion of locks,
     - accesses to protected fields only happen while the protecting lock is held (for programs that pass
       the static check [wl]), hence two threads are never both about to touch the same protected field,
     - deadlock freedom for programs that pass the static lock-order check [ord].
   Locks are re-entrant in this semantics; the order check forbids re-acquiring any lock but TOP. *)
From FlexVerif Require Import Base.Prelude.
From Coq Require Import ZifyBool.

Inductive action := Acq (l : Z) | Rel (l : Z) | Rd (f : Z) | Wr (f : Z).

(* a thread: remaining actions and the stack of locks it holds (innermost first) *)
Record thread := mkThread { t_prog : list action; t_held : list Z }.
Definition config := list thread.

Definition holds (t : thread) (l : Z) : bool := existsb (Z.eqb l) (t_held t).

Fixpoint others_hold (c : config) (i : nat) (l : Z) (k : nat) : bool :=
  match c with
  | [] => false
  | t :: r => (negb (Nat.eqb k i) && holds t l) || others_hold r i l (S k)
  end.

(* can thread i take its next step? *)
Definition enabled (c : config) (i : nat) : bool :=
  match nth_error c i with
  | Some t => match t_prog t with
              | [] => false
              | Acq l :: _ => negb (others_hold c i l 0)
              | _ => true
              end
  | None => false
  end.

Fixpoint remove_one (l : Z) (h : list Z) : list Z :=
  match h with [] => [] | x :: r => if x =? l then r else x :: remove_one l r end.

Definition step_thread (t : thread) : thread :=
  match t_prog t with
  | [] => t
  | Acq l :: r => mkThread r (l :: t_held t)
  | Rel l :: r => mkThread r (remove_one l (t_held t))
  | _ :: r => mkThread r (t_held t)
  end.

Fixpoint update_nth (c : config) (i : nat) (t : thread) : config :=
  match c, i with
  | [], _ => []
  | _ :: r, O => t :: r
  | x :: r, S k => x :: update_nth r k t
  end.

Inductive step : config -> config -> Prop :=
| Step c i t : nth_error c i = Some t -> enabled c i = true -> step c (update_nth c i (step_thread t)).

Inductive reachable (c0 : config) : config -> Prop :=
| R0 : reachable c0 c0
| RS c c' : reachable c0 c -> step c c' -> reachable c0 c'.

Definition initial (progs : list (list action)) : config := map (fun p => mkThread p []) progs.

(* ---- static checks on one program --------------------------------------------------------- *)
(* protection policy: which lock must be held to read / to write a field (None = unprotected) *)
Record policy := mkPolicy { p_read : Z -> option Z; p_write : Z -> option Z }.

Definition need (o : option Z) (held : list Z) : bool :=
  match o with None => true | Some l => existsb (Z.eqb l) held end.

(* well-locked: brackets match, everything released at the end, protected accesses under their lock *)
Fixpoint wl (p : policy) (held : list Z) (acts : list action) : bool :=
  match acts with
  | [] => match held with [] => true | _ => false end
  | Acq l :: r => wl p (l :: held) r
  | Rel l :: r => match held with h :: hs => (h =? l) && wl p hs r | [] => false end
  | Rd f :: r => need (p_read p f) held && wl p held r
  | Wr f :: r => need (p_write p f) held && wl p held r
  end.

(* lock order: with a lock in hand only TOP may be acquired *)
Fixpoint ord (top : Z) (held : list Z) (acts : list action) : bool :=
  match acts with
  | [] => true
  | Acq l :: r => (match held with [] => true | _ => l =? top end) && ord top (l :: held) r
  | Rel l :: r => ord top (remove_one l held) r
  | _ :: r => ord top held r
  end.

(* ---- lemmas -------------------------------------------------------------------------------- *)
Lemma wl_app p a b : forall held, wl p held a = true -> wl p [] b = true -> wl p held (a ++ b) = false -> False.
Proof.
  induction a as [|x a IH]; intros held Ha Hb Hc; cbn [app] in *.
  - cbn in Ha. destruct held; [congruence | discriminate].
  - destruct x; cbn [wl] in *.
    + eapply IH; eauto.
    + destruct held as [|h hs]; [discriminate|]. apply andb_true_iff in Ha as [E Ha]. rewrite E in Hc. cbn in Hc. eapply IH; eauto.
    + apply andb_true_iff in Ha as [E Ha]. rewrite E in Hc. cbn in Hc. eapply IH; eauto.
    + apply andb_true_iff in Ha as [E Ha]. rewrite E in Hc. cbn in Hc. eapply IH; eauto.
Qed.

Lemma wl_concat p ms : forallb (wl p []) ms = true -> wl p [] (concat ms) = true.
Proof.
  induction ms as [|m ms IH]; cbn; [reflexivity|]. intros H. apply andb_true_iff in H as [Hm Hms].
  destruct (wl p [] (m ++ concat ms)) eqn:E; [reflexivity|]. exfalso.
  exact (wl_app p m (concat ms) [] Hm (IH Hms) E).
Qed.

(* invariant carried by every thread of a reachable configuration *)
Definition thread_ok (p : policy) (t : thread) : Prop := wl p (t_held t) (t_prog t) = true.

Lemma step_thread_ok p t : thread_ok p t -> thread_ok p (step_thread t).
Proof.
  unfold thread_ok, step_thread. destruct t as [prog held]. cbn [t_prog t_held].
  destruct prog as [|a r]; [auto|]. destruct a; cbn [wl t_prog t_held].
  - auto.
  - destruct held as [|h hs]; [discriminate|]. intros H. apply andb_true_iff in H as [E H].
    cbn [remove_one]. rewrite E. exact H.
  - intros H. apply andb_true_iff in H as [_ H]. exact H.
  - intros H. apply andb_true_iff in H as [_ H]. exact H.
Qed.

Lemma update_nth_forall (P : thread -> Prop) c : forall i t, Forall P c -> P t -> Forall P (update_nth c i t).
Proof.
  induction c as [|x c IH]; intros i t Hc Ht; cbn; [constructor|]. inversion Hc; subst.
  destruct i; constructor; auto.
Qed.

Lemma nth_error_forall (P : thread -> Prop) c i t : Forall P c -> nth_error c i = Some t -> P t.
Proof. intros H E. rewrite Forall_forall in H. apply H. eapply nth_error_In; eauto. Qed.

Theorem reachable_ok p progs c : forallb (wl p []) progs = true -> reachable (initial progs) c -> Forall (thread_ok p) c.
Proof.
  intros H R. induction R as [|c c' R IH S].
  - unfold initial. rewrite Forall_forall. intros t Ht. apply in_map_iff in Ht as (pr & <- & Hin).
    unfold thread_ok. cbn. rewrite forallb_forall in H. apply H. exact Hin.
  - inversion S; subst. apply update_nth_forall; [exact IH|]. apply step_thread_ok. eapply nth_error_forall; eauto.
Qed.

(* an access to a protected field is only ever performed by a thread that holds the protecting lock *)
Theorem access_protected p progs c i t f r : forallb (wl p []) progs = true -> reachable (initial progs) c ->
  nth_error c i = Some t ->
  (t_prog t = Wr f :: r -> need (p_write p f) (t_held t) = true) /\
  (t_prog t = Rd f :: r -> need (p_read p f) (t_held t) = true).
Proof.
  intros H R E. pose proof (nth_error_forall _ _ _ _ (reachable_ok p progs c H R) E) as K. unfold thread_ok in K.
  split; intros P; rewrite P in K; cbn [wl] in K; apply andb_true_iff in K as [K _]; exact K.
Qed.

(* ---- mutual exclusion ------------------------------------------------------------------------- *)
Definition mutex (c : config) : Prop :=
  forall i j ti tj l, nth_error c i = Some ti -> nth_error c j = Some tj -> i <> j ->
    holds ti l = true -> holds tj l = true -> False.

Lemma others_hold_spec c i l : forall k,
  others_hold c i l k = true <-> exists j t, nth_error c j = Some t /\ (j + k)%nat <> i /\ holds t l = true.
Proof.
  induction c as [|x c IH]; intros k; cbn [others_hold].
  - split; [discriminate|]. intros (j & t & E & _). destruct j; discriminate.
  - rewrite orb_true_iff, andb_true_iff, negb_true_iff, Nat.eqb_neq, IH. split.
    + intros [[Hk Hh]|(j & t & E & Hn & Hh)].
      * exists 0%nat, x. cbn. auto.
      * exists (S j), t. cbn. split; [exact E|]. split; [lia | exact Hh].
    + intros (j & t & E & Hn & Hh). destruct j as [|j].
      * cbn in E. injection E as <-. left. split; [cbn in Hn; exact Hn | exact Hh].
      * right. exists j, t. cbn in E. split; [exact E|]. split; [lia | exact Hh].
Qed.

Lemma nth_update_same c : forall i t t0, nth_error c i = Some t0 -> nth_error (update_nth c i t) i = Some t.
Proof. induction c as [|x c IH]; intros [|i] t t0 E; cbn in *; try discriminate; eauto. Qed.

Lemma nth_update_other c : forall i j t, i <> j -> nth_error (update_nth c i t) j = nth_error c j.
Proof.
  induction c as [|x c IH]; intros i j t Hn; cbn; [reflexivity|].
  destruct i, j; cbn; try reflexivity; try contradiction. apply IH. lia.
Qed.

Lemma holds_remove t0 l l' r : holds (mkThread r (remove_one l' (t_held t0))) l = true -> holds t0 l = true.
Proof.
  unfold holds. cbn [t_held]. induction (t_held t0) as [|x h IH]; cbn; [auto|].
  destruct (x =? l') eqn:E; cbn.
  - intros H. rewrite H. apply orb_true_r.
  - intros H. apply orb_true_iff in H as [H|H]; [rewrite H; reflexivity | rewrite (IH H); apply orb_true_r].
Qed.

Theorem mutex_reachable progs c : reachable (initial progs) c -> mutex c.
Proof.
  intros R. induction R as [|c c' R IH S].
  - intros i j ti tj l Ei Ej _ Hi _. unfold initial in Ei. rewrite nth_error_map in Ei.
    destruct (nth_error progs i); [|discriminate]. injection Ei as <-. discriminate.
  - inversion S as [c0 k t Ek En]; subst. intros i j ti tj l Ei Ej Hn Hi Hj.
    destruct (Nat.eq_dec i k) as [->|Hik]; [|destruct (Nat.eq_dec j k) as [->|Hjk]].
    + rewrite (nth_update_same _ _ _ _ Ek) in Ei. injection Ei as <-.
      rewrite nth_update_other in Ej by lia.
      unfold step_thread in Hi. unfold enabled in En. rewrite Ek in En.
      destruct (t_prog t) as [|a r] eqn:P; [eapply IH; eauto|]. destruct a.
      * unfold holds in Hi. cbn [t_held existsb] in Hi. apply orb_true_iff in Hi as [Hi|Hi].
        -- assert (l = l0) by lia. subst l0. apply negb_true_iff in En.
           assert (X : others_hold c k l 0 = true).
           { apply others_hold_spec. exists j, tj. split; [exact Ej|]. split; [lia | exact Hj]. }
           congruence.
        -- eapply (IH k j t tj l); eauto.
      * apply holds_remove in Hi. eapply (IH k j t tj l); eauto.
      * eapply (IH k j t tj l); eauto.
      * eapply (IH k j t tj l); eauto.
    + rewrite (nth_update_same _ _ _ _ Ek) in Ej. injection Ej as <-.
      rewrite nth_update_other in Ei by lia.
      unfold step_thread in Hj. unfold enabled in En. rewrite Ek in En.
      destruct (t_prog t) as [|a r] eqn:P; [eapply IH; eauto|]. destruct a.
      * unfold holds in Hj. cbn [t_held existsb] in Hj. apply orb_true_iff in Hj as [Hj|Hj].
        -- assert (l = l0) by lia. subst l0. apply negb_true_iff in En.
           assert (X : others_hold c k l 0 = true).
           { apply others_hold_spec. exists i, ti. split; [exact Ei|]. split; [lia | exact Hi]. }
           congruence.
        -- eapply (IH i k ti t l); eauto.
      * apply holds_remove in Hj. eapply (IH i k ti t l); eauto.
      * eapply (IH i k ti t l); eauto.
      * eapply (IH i k ti t l); eauto.
    + rewrite nth_update_other in Ei, Ej by lia. eapply IH; eauto.
Qed.

(* two different threads are never both about to access the same field when at least one access is a
   write and the field's write lock also guards the other access *)
Theorem no_conflicting_access p progs c i j ti tj f ri rj l :
  forallb (wl p []) progs = true -> reachable (initial progs) c ->
  nth_error c i = Some ti -> nth_error c j = Some tj -> i <> j ->
  p_write p f = Some l ->
  t_prog ti = Wr f :: ri ->
  (t_prog tj = Wr f :: rj \/ (t_prog tj = Rd f :: rj /\ p_read p f = Some l)) -> False.
Proof.
  intros H R Ei Ej Hn Pw Pi Pj.
  destruct (access_protected p progs c i ti f ri H R Ei) as [Wi _]. specialize (Wi Pi). rewrite Pw in Wi. cbn in Wi.
  assert (Hj : holds tj l = true).
  { destruct Pj as [Pj|[Pj Pr]].
    - destruct (access_protected p progs c j tj f rj H R Ej) as [Wj _]. specialize (Wj Pj). rewrite Pw in Wj. exact Wj.
    - destruct (access_protected p progs c j tj f rj H R Ej) as [_ Rj]. specialize (Rj Pj). rewrite Pr in Rj. exact Rj. }
  eapply (mutex_reachable progs c R i j ti tj l); eauto.
Qed.

(* ---- deadlock freedom --------------------------------------------------------------------------- *)
Definition thread_ord (top : Z) (t : thread) : Prop := ord top (t_held t) (t_prog t) = true.

Lemma step_thread_ord top t : thread_ord top t -> thread_ord top (step_thread t).
Proof.
  unfold thread_ord, step_thread. destruct t as [prog held]. cbn [t_prog t_held].
  destruct prog as [|a r]; [auto|]. destruct a; cbn [ord t_prog t_held]; auto.
  intros H. apply andb_true_iff in H as [_ H]. exact H.
Qed.

Theorem reachable_ord top progs c : forallb (ord top []) progs = true -> reachable (initial progs) c ->
  Forall (thread_ord top) c.
Proof.
  intros H R. induction R as [|c c' R IH S].
  - unfold initial. rewrite Forall_forall. intros t Ht. apply in_map_iff in Ht as (pr & <- & Hin).
    unfold thread_ord. cbn. rewrite forallb_forall in H. apply H. exact Hin.
  - inversion S; subst. apply update_nth_forall; [exact IH|]. apply step_thread_ord. eapply nth_error_forall; eauto.
Qed.

Lemma wl_done_releases p held : wl p held [] = true -> held = [].
Proof. destruct held; [reflexivity | discriminate]. Qed.

Lemma holds_nonempty t l : holds t l = true -> t_held t <> [].
Proof. unfold holds. destruct (t_held t); [discriminate | congruence]. Qed.

Lemma not_others_hold c i l : (forall j t, nth_error c j = Some t -> j <> i -> holds t l = false) -> others_hold c i l 0 = false.
Proof.
  intros H. destruct (others_hold c i l 0) eqn:E; [|reflexivity].
  apply others_hold_spec in E as (j & t & Ej & Hn & Hh). rewrite (H j t Ej ltac:(lia)) in Hh. discriminate.
Qed.

(* the next action of a thread that already holds a lock is enabled whenever nobody else holds TOP *)
Lemma holder_enabled p top c i t : thread_ok p t -> thread_ord top t -> nth_error c i = Some t -> t_held t <> [] ->
  (forall j tj, nth_error c j = Some tj -> j <> i -> holds tj top = false) -> enabled c i = true.
Proof.
  intros Hok Hord E Hh Hfree. unfold enabled. rewrite E.
  unfold thread_ok in Hok. unfold thread_ord in Hord.
  destruct (t_prog t) as [|a r] eqn:P.
  - apply wl_done_releases in Hok. contradiction.
  - destruct a; try reflexivity. cbn [ord] in Hord. apply andb_true_iff in Hord as [Hl _].
    destruct (t_held t) as [|h hs]; [contradiction|]. assert (l = top) by lia. subst l.
    rewrite not_others_hold by exact Hfree. reflexivity.
Qed.

Theorem deadlock_free p top progs c :
  forallb (wl p []) progs = true -> forallb (ord top []) progs = true -> reachable (initial progs) c ->
  (exists i t, nth_error c i = Some t /\ t_prog t <> []) -> exists k, enabled c k = true.
Proof.
  intros Hwl Hord R (i & t & Ei & Pi).
  pose proof (reachable_ok p progs c Hwl R) as OK. pose proof (reachable_ord top progs c Hord R) as ORD.
  pose proof (mutex_reachable progs c R) as MX.
  (* does anybody hold TOP? *)
  destruct (existsb (fun t => holds t top) c) eqn:ET.
  - apply existsb_exists in ET as (tj & Hin & Hj). apply In_nth_error in Hin as [j Ej].
    exists j. apply (holder_enabled p top c j tj); [exact (nth_error_forall _ _ _ _ OK Ej) |
      exact (nth_error_forall _ _ _ _ ORD Ej) | exact Ej | exact (holds_nonempty _ _ Hj) |].
    intros k tk Ek Hk. destruct (holds tk top) eqn:Hh; [|reflexivity]. exfalso. eapply (MX j k tj tk top); eauto.
  - assert (Free : forall j tj, nth_error c j = Some tj -> holds tj top = false).
    { intros j tj Ej. destruct (holds tj top) eqn:Hh; [|reflexivity].
      assert (X : existsb (fun t => holds t top) c = true) by (apply existsb_exists; exists tj; split; [eapply nth_error_In; eauto | exact Hh]).
      congruence. }
    destruct (t_held t) as [|h hs] eqn:Hheld.
    + (* thread i holds nothing: its next action is enabled unless it waits for a lock someone holds *)
      unfold enabled at 1. destruct (t_prog t) as [|a r] eqn:P; [contradiction|].
      destruct a; try (exists i; unfold enabled; rewrite Ei, P; reflexivity).
      destruct (others_hold c i l 0) eqn:OH.
      * apply others_hold_spec in OH as (k & tk & Ek & Hn & Hk). exists k.
        apply (holder_enabled p top c k tk); [exact (nth_error_forall _ _ _ _ OK Ek) |
          exact (nth_error_forall _ _ _ _ ORD Ek) | exact Ek | exact (holds_nonempty _ _ Hk) |].
        intros j tj Ej _. apply (Free j tj Ej).
      * exists i. unfold enabled. rewrite Ei, P, OH. reflexivity.
    + exists i. apply (holder_enabled p top c i t); [exact (nth_error_forall _ _ _ _ OK Ei) |
        exact (nth_error_forall _ _ _ _ ORD Ei) | exact Ei | rewrite Hheld; discriminate |].
      intros j tj Ej _. apply (Free j tj Ej).
Qed.

(* ---- deadlock freedom with a lock order (ranks) and re-entrant locks ------------------------------- *)
(* Acq l is allowed when every lock in hand either is l itself and l is re-entrant, or has a smaller rank. *)
Definition may_acquire (rank : Z -> Z) (reent : Z -> bool) (held : list Z) (l : Z) : bool :=
  forallb (fun h => ((h =? l) && reent l) || (rank h <? rank l)) held.

Fixpoint ordr (rank : Z -> Z) (reent : Z -> bool) (held : list Z) (acts : list action) : bool :=
  match acts with
  | [] => true
  | Acq l :: r => may_acquire rank reent held l && ordr rank reent (l :: held) r
  | Rel l :: r => ordr rank reent (remove_one l held) r
  | _ :: r => ordr rank reent held r
  end.

Definition thread_ordr rank reent (t : thread) : Prop := ordr rank reent (t_held t) (t_prog t) = true.

Lemma step_thread_ordr rank reent t : thread_ordr rank reent t -> thread_ordr rank reent (step_thread t).
Proof.
  unfold thread_ordr, step_thread. destruct t as [prog held]. cbn [t_prog t_held].
  destruct prog as [|a r]; [auto|]. destruct a; cbn [ordr t_prog t_held]; auto.
  intros H. apply andb_true_iff in H as [_ H]. exact H.
Qed.

Theorem reachable_ordr rank reent progs c : forallb (ordr rank reent []) progs = true -> reachable (initial progs) c ->
  Forall (thread_ordr rank reent) c.
Proof.
  intros H R. induction R as [|c c' R IH S].
  - unfold initial. rewrite Forall_forall. intros t Ht. apply in_map_iff in Ht as (pr & <- & Hin).
    unfold thread_ordr. cbn. rewrite forallb_forall in H. apply H. exact Hin.
  - inversion S; subst. apply update_nth_forall; [exact IH|]. apply step_thread_ordr. eapply nth_error_forall; eauto.
Qed.

(* the lock a thread is waiting for, if it is blocked *)
Definition waits_for (c : config) (i : nat) : option Z :=
  match nth_error c i with
  | Some t => match t_prog t with
              | Acq l :: _ => if others_hold c i l 0 then Some l else None
              | _ => None
              end
  | None => None
  end.

Lemma not_enabled_waits c i t : nth_error c i = Some t -> t_prog t <> [] -> enabled c i = false ->
  exists l r, t_prog t = Acq l :: r /\ others_hold c i l 0 = true.
Proof.
  intros E P En. unfold enabled in En. rewrite E in En. destruct (t_prog t) as [|a r]; [contradiction|].
  destruct a; try discriminate. apply negb_false_iff in En. eauto.
Qed.

(* Among finitely many blocked threads pick one that waits for a lock of maximal rank: its holder is blocked on a
   lock of strictly greater rank - contradiction.  We phrase it as: if every live thread is blocked, False. *)
Lemma max_rank_blocked (rank : Z -> Z) (ls : list Z) : ls <> [] -> exists l, In l ls /\ forall l', In l' ls -> rank l' <= rank l.
Proof.
  induction ls as [|x ls IH]; [congruence|]. intros _. destruct ls as [|y ls'].
  - exists x. split; [left; reflexivity|]. intros l' [<-|[]]. lia.
  - destruct (IH ltac:(discriminate)) as (m & Hm & Hmax).
    destruct (Z_le_gt_dec (rank x) (rank m)).
    + exists m. split; [right; exact Hm|]. intros l' [<-|H]; [lia | apply Hmax, H].
    + exists x. split; [left; reflexivity|]. intros l' [<-|H]; [lia|]. specialize (Hmax l' H). lia.
Qed.

Theorem deadlock_free_ranked p rank reent progs c :
  forallb (wl p []) progs = true -> forallb (ordr rank reent []) progs = true -> reachable (initial progs) c ->
  (exists i t, nth_error c i = Some t /\ t_prog t <> []) -> exists k, enabled c k = true.
Proof.
  intros Hwl Hord R (i0 & t0 & Ei0 & Pi0).
  pose proof (reachable_ok p progs c Hwl R) as OK. pose proof (reachable_ordr rank reent progs c Hord R) as ORD.
  pose proof (mutex_reachable progs c R) as MX.
  (* the list of locks awaited by blocked threads *)
  set (awaited := flat_map (fun i => match waits_for c i with Some l => [l] | None => [] end) (seq 0 (length c))).
  destruct awaited as [|a0 aw] eqn:EA.
  - (* nobody is blocked: thread i0 is enabled *)
    exists i0. destruct (enabled c i0) eqn:En; [reflexivity|]. exfalso.
    destruct (not_enabled_waits c i0 t0 Ei0 Pi0 En) as (l & r & P & OH).
    assert (In l awaited).
    { unfold awaited. apply in_flat_map. exists i0. split.
      - apply in_seq. split; [lia|]. cbn. apply nth_error_Some. congruence.
      - unfold waits_for. rewrite Ei0, P, OH. left. reflexivity. }
    rewrite EA in H. destruct H.
  - destruct (max_rank_blocked rank awaited ltac:(rewrite EA; discriminate)) as (lm & Hin & Hmax).
    unfold awaited in Hin. apply in_flat_map in Hin as (i & Hi & Hw).
    unfold waits_for in Hw. destruct (nth_error c i) as [t|] eqn:Ei; [|destruct Hw].
    destruct (t_prog t) as [|a r] eqn:P; [destruct Hw|]. destruct a; try (destruct Hw).
    destruct (others_hold c i l 0) eqn:OH; [|destruct Hw]. destruct Hw as [<-|[]].
    (* the holder k of l *)
    apply others_hold_spec in OH as (k & tk & Ek & Hn & Hk). rewrite Nat.add_0_r in Hn.
    exists k. destruct (enabled c k) eqn:En; [reflexivity|]. exfalso.
    assert (Pk : t_prog tk <> []).
    { intros E0. pose proof (nth_error_forall _ _ _ _ OK Ek) as W. unfold thread_ok in W. rewrite E0 in W.
      apply wl_done_releases in W. apply holds_nonempty in Hk. contradiction. }
    destruct (not_enabled_waits c k tk Ek Pk En) as (l' & r' & P' & OH').
    (* k may acquire l' while holding l: rank l < rank l' or l = l' (then it would be enabled... no: l' is held by another) *)
    pose proof (nth_error_forall _ _ _ _ ORD Ek) as O. unfold thread_ordr in O. rewrite P' in O. cbn [ordr] in O.
    apply andb_true_iff in O as [MA _]. unfold may_acquire in MA. rewrite forallb_forall in MA.
    unfold holds in Hk. apply existsb_exists in Hk as (h & Hh & Eh). assert (h = l) by lia. subst h.
    specialize (MA l Hh). apply orb_true_iff in MA as [MA|MA].
    + (* l = l': but l' is held by some other thread than k, while k holds l = l': mutual exclusion *)
      apply andb_true_iff in MA as [E _]. assert (l = l') by lia. subst l'.
      apply others_hold_spec in OH' as (j & tj & Ej & Hnj & Hj). rewrite Nat.add_0_r in Hnj.
      apply (MX k j tk tj l Ek Ej ltac:(lia)); [|exact Hj].
      unfold holds. apply existsb_exists. exists l. split; [exact Hh | lia].
    + (* rank l < rank l': contradicts maximality of l among awaited locks *)
      assert (In l' awaited).
      { unfold awaited. apply in_flat_map. exists k. split.
        - apply in_seq. split; [lia|]. cbn. apply nth_error_Some. congruence.
        - unfold waits_for. rewrite Ek, P', OH'. left. reflexivity. }
      specialize (Hmax l' H). lia.
Qed.
