(* Generic line driver appended to an extracted model that exposes
     dispatch : z -> z list -> z list
   Protocol: one request per line, tokens separated by blanks, each token a
   signed hexadecimal integer of any size ("-1f", "0", "ff"); first token is
   the command. Reply: one line of tokens in the same syntax.
   Only the constructors of positive / z are used here, no arithmetic. *)

let hexval c =
  match c with
  | '0'..'9' -> Char.code c - 48
  | 'a'..'f' -> Char.code c - 87
  | 'A'..'F' -> Char.code c - 55
  | _ -> failwith "bad hex digit"

(* bits, most significant first, without leading zeros *)
let bits_of_hex (s : string) : bool list =
  let l = ref [] in
  for i = String.length s - 1 downto 0 do
    let v = hexval s.[i] in
    (* prepend the 4 bits, so that the list ends up MSB first *)
    l := ((v land 8) <> 0) :: ((v land 4) <> 0) :: ((v land 2) <> 0) :: ((v land 1) <> 0) :: !l
  done;
  let rec strip = function false :: r -> strip r | r -> r in
  strip !l

let pos_of_bits (bs : bool list) : positive =
  match bs with
  | true :: rest -> List.fold_left (fun acc b -> if b then XI acc else XO acc) XH rest
  | _ -> failwith "pos_of_bits"

let z_of_token (t : string) : z =
  let neg = String.length t > 0 && t.[0] = '-' in
  let body = if neg then String.sub t 1 (String.length t - 1) else t in
  match bits_of_hex body with
  | [] -> Z0
  | bs -> let p = pos_of_bits bs in if neg then Zneg p else Zpos p

let rec bits_of_pos (p : positive) (acc : bool list) : bool list =
  (* returns MSB-first list *)
  match p with
  | XH -> true :: acc
  | XO q -> bits_of_pos q (false :: acc)
  | XI q -> bits_of_pos q (true :: acc)

let hex_of_pos (p : positive) : string =
  let bs = bits_of_pos p [] in
  let n = List.length bs in
  let pad = (4 - n mod 4) mod 4 in
  let bs = (List.init pad (fun _ -> false)) @ bs in
  let buf = Buffer.create 16 in
  let rec go = function
    | a :: b :: c :: d :: r ->
      let v = (if a then 8 else 0) + (if b then 4 else 0) + (if c then 2 else 0) + (if d then 1 else 0) in
      Buffer.add_char buf "0123456789abcdef".[v]; go r
    | [] -> ()
    | _ -> failwith "hex_of_pos" in
  go bs; Buffer.contents buf

let token_of_z (x : z) : string =
  match x with
  | Z0 -> "0"
  | Zpos p -> hex_of_pos p
  | Zneg p -> "-" ^ hex_of_pos p

let split_ws (s : string) : string list =
  List.filter (fun t -> t <> "") (String.split_on_char ' ' s)

let () =
  let out = Buffer.create 65536 in
  (try
    while true do
      let line = input_line stdin in
      (match split_ws line with
       | [] -> Buffer.add_char out '\n'
       | c :: args ->
         let res = dispatch (z_of_token c) (List.map z_of_token args) in
         let first = ref true in
         List.iter (fun x -> if not !first then Buffer.add_char out ' '; first := false;
                             Buffer.add_string out (token_of_z x)) res;
         Buffer.add_char out '\n');
      if Buffer.length out > 60000 then (print_string (Buffer.contents out); Buffer.clear out)
    done
  with End_of_file -> ());
  print_string (Buffer.contents out)
