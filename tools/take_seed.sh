#!/bin/bash
# tools/take_seed.sh Cxx N : copy the sub-agent's deliverables /tmp/seedf_out_Cxx to seeded/Cxx-N, drop its worktree, evaluate
# with the evaluation copy of the framework (/tmp/verif_eval, a clone of the committed /verif) so that the development tree
# is not disturbed.
p=$1; n=$2; d=/verif/seeded/$p-$n
mkdir -p $d && cp /tmp/${SEEDPFX:-seedf}_out_$p/patch.diff /tmp/${SEEDPFX:-seedf}_out_$p/demo.py /tmp/${SEEDPFX:-seedf}_out_$p/meta.json $d/ || exit 1
git -C /repo worktree remove --force /tmp/${SEEDPFX:-seedf}_$p 2>/dev/null
mkdir -p /tmp/evlogs
E=${EVALDIR:-/tmp/verif_eval}
( cd $E && python3 tools/eval_seed.py $p $d > /tmp/evlogs/$p-$n.log 2>&1 & )
echo started $p-$n
