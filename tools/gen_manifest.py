#!/usr/bin/env python3
"""Writes /verif/MANIFEST.json from the table below (kept in one place so the file is always valid)."""
import json
import os

VERIF = os.path.dirname(os.path.dirname(os.path.abspath(__file__)))

CLAIMED = {
    # id: (design_ref, level text, level_note, technique)
    "C20": ("DESIGN.md section 5 C20",
            "Coq theorems over all Z: the wire lifetime never exceeds the request, is the largest representable "
            "value below 10^6 ms (refuted, with witness, from 10^6 ms: known finding), is non-zero from 50 ms, decodes "
            "to what was encoded, the indicated lifetime never exceeds it; hop-limit rules. The model is tied to the "
            "code by differential execution: boundary sweep + 40k seeded values (quick), every millisecond 0..7 000 000 "
            "through both the integer and the float path (thorough), all 256 codes, all hop limits x MIB defaults x "
            "packet kinds through a real Router.",
            "Coq kernel + vm_compute; extraction (ExtrOcamlBasic) and the OCaml driver; the hand-written model "
            "Model/Lifetime.v is tied to the code by execution, not by proof; Python harness.",
            "Coq proof (lia over Z, finite sweeps lifted by forallb_forall) + model/implementation correspondence"),
}

NOT_YET = {}


def main():
    props = [json.loads(l) for l in open(os.path.join(VERIF, "properties.jsonl"))]
    checks = []
    for p in props:
        pid = p["id"]
        if pid not in CLAIMED:
            continue
        ref, text, note, tech = CLAIMED[pid]
        checks.append({
            "property_id": pid,
            "quick_cmd": f"./check {pid} --tier quick",
            "thorough_cmd": f"./check {pid} --tier thorough",
            "evidence_file": f"evidence/{pid}.json",
            "replay_cmd_template": f"./check {pid} --replay {{path}}",
            "engine": "coq+ocaml+python",
            "level_claimed": {"category": "proof", "text": text, "design_ref": ref},
            "level_note": note,
            "technique": tech,
        })
    na = [{"property_id": p["id"], "reason": NOT_YET.get(p["id"], "check not built yet in this round; see DESIGN.md section 5 for the planned theorems")}
          for p in props if p["id"] not in CLAIMED]
    man = {
        "version": 1,
        "setup_cmd": "./setup.sh",
        "hooks": {
            "guard": "FLEXSTACK_VERIF",
            "enable": "no source hooks: the harness injects virtual time, fake timers and capturing link layers from "
                      "outside (monkey-patching in the harness process); FLEXSTACK_VERIF=1 is set by ./check for future hooks",
            "baseline_off_cmd": "cd /repo && /venv/bin/python -m pytest -q -p no:cacheprovider --timeout=900",
            "source_commits": [],
            "add_only": True,
        },
        "engines": [{
            "name": "coq+ocaml+python",
            "path": "coq/ ocaml/ harness/ check",
            "serves_properties": sorted(CLAIMED),
            "kind_free_text": "Coq 8.16.1 development (models, proofs, property statements), extracted to OCaml and "
                              "run against the Python implementation by a differential harness",
        }],
        "checks": checks,
        "not_applicable": na,
        "notes": "Every check: regenerates Gen/*.v from /repo, rebuilds the Coq closure of the property (full .vo), "
                 "collects Print Assumptions, extracts the model, and runs model and implementation on the same inputs. "
                 "known_findings.json lists recorded defects.",
    }
    with open(os.path.join(VERIF, "MANIFEST.json"), "w") as f:
        json.dump(man, f, indent=1)


if __name__ == "__main__":
    main()
