#!/usr/bin/env python3
"""Writes /verif/MANIFEST.json from the table below (kept in one place so the file is always valid)."""
import json
import os

VERIF = os.path.dirname(os.path.dirname(os.path.abspath(__file__)))

def load_claimed():
    """manifest.d/Cxx.json: {"design_ref":..., "text":..., "note":..., "technique":...}"""
    out = {}
    d = os.path.join(VERIF, "manifest.d")
    for f in sorted(os.listdir(d)):
        if f.endswith(".json"):
            e = json.load(open(os.path.join(d, f)))
            out[f[:-5]] = (e["design_ref"], e["text"], e["note"], e["technique"])
    return out


CLAIMED = load_claimed()
NOT_YET = {}


def main():
    props = [json.loads(l) for l in open(os.path.join(VERIF, "properties.jsonl"))]
    checks = []
    for p in props:
        pid = p["id"]
        if pid not in CLAIMED:
            continue
        ref, text, note, tech = CLAIMED[pid]
        checks.append({
            "property_id": pid,
            "quick_cmd": f"./check {pid} --tier quick",
            "thorough_cmd": f"./check {pid} --tier thorough",
            "evidence_file": f"evidence/{pid}.json",
            "replay_cmd_template": f"./check {pid} --replay {{path}}",
            "engine": "coq+ocaml+python",
            "level_claimed": {"category": "proof", "text": text, "design_ref": ref},
            "level_note": note,
            "technique": tech,
        })
    na = [{"property_id": p["id"], "reason": NOT_YET.get(p["id"], "check not built yet in this round; see DESIGN.md section 5 for the planned theorems")}
          for p in props if p["id"] not in CLAIMED]
    man = {
        "version": 1,
        "setup_cmd": "./setup.sh",
        "hooks": {
            "guard": "FLEXSTACK_VERIF",
            "enable": "no source hooks: the harness injects virtual time, fake timers and capturing link layers from "
                      "outside (monkey-patching in the harness process); FLEXSTACK_VERIF=1 is set by ./check for future hooks",
            "baseline_off_cmd": "cd /repo && /venv/bin/python -m pytest -q -p no:cacheprovider --timeout=900",
            "source_commits": [],
            "add_only": True,
        },
        "engines": [{
            "name": "coq+ocaml+python",
            "path": "coq/ ocaml/ harness/ check",
            "serves_properties": sorted(CLAIMED),
            "kind_free_text": "Coq 8.16.1 development (models, proofs, property statements), extracted to OCaml and "
                              "run against the Python implementation by a differential harness",
        }],
        "checks": checks,
        "not_applicable": na,
        "notes": "Every check: regenerates Gen/*.v from /repo, rebuilds the Coq closure of the property (full .vo), "
                 "collects Print Assumptions, extracts the model, and runs model and implementation on the same inputs. "
                 "For C02, C08 and C20 the pure integer / byte-string functions of the GeoNetworking and BTP code are in addition "
                 "translated from the Python source to Gallina on every run (tools/pyz.py, Gen/SrcGeonet.v) and proved equal to "
                 "the model for all arguments (DESIGN.md 9.7). known_findings/Cxx.json list recorded and fixed defects.",
    }
    with open(os.path.join(VERIF, "MANIFEST.json"), "w") as f:
        json.dump(man, f, indent=1)


if __name__ == "__main__":
    main()
