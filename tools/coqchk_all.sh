#!/bin/sh
# Independent re-check of every compiled property file (and everything it depends on) with coqchk; -o prints the axioms
# the checked closure relies on.  Takes a few minutes; run after ./setup.sh.  Output: build/coqchk.log
cd "$(dirname "$0")/../coq" || exit 2
mods=$(ls theories/Properties/C*.v | sed 's|theories/Properties/\(.*\)\.v|FlexVerif.Properties.\1|')
mkdir -p ../build
timeout 3000 coqchk -silent -o -Q theories FlexVerif $mods > ../build/coqchk.log 2>&1
rc=$?
tail -20 ../build/coqchk.log
exit $rc
