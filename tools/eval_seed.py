#!/usr/bin/env python3
"""Evaluate one seeded regression: tools/eval_seed.py <prop> <dir with patch.diff demo.py meta.json> [--in-repo] [--props C01,C06]

1. scratch worktree of /repo HEAD: demo passes; apply patch: demo fails; test suite = baseline (930 passed / 11 failed).
2. run ./check <prop> --tier quick against the patched tree (FLEXVERIF_REPO=<scratch>, or with --in-repo: git apply in
   /repo, run, git checkout -- .) and record whether a VIOLATION was reported.
Writes <dir>/result.json and prints a one-line summary."""
import json
import os
import subprocess
import sys
import time

VERIF = os.path.dirname(os.path.dirname(os.path.abspath(__file__)))


def sh(cmd, cwd=None, env=None, timeout=3600):
    p = subprocess.run(cmd, shell=True, cwd=cwd, env=env, stdout=subprocess.PIPE, stderr=subprocess.STDOUT, text=True, timeout=timeout)
    return p.returncode, p.stdout


def main():
    prop, d = sys.argv[1], os.path.abspath(sys.argv[2])
    in_repo = "--in-repo" in sys.argv
    props = [prop]
    for a in sys.argv[3:]:
        if a.startswith("--props"):
            props = a.split("=", 1)[1].split(",")
    wt = f"/tmp/evalseed_{prop}_{os.getpid()}"
    res = {"property": prop, "dir": d, "at": time.strftime("%Y-%m-%dT%H:%M:%S")}
    sh(f"git -C /repo worktree add -q --detach {wt} HEAD")
    try:
        env = dict(os.environ, PYTHONPATH=f"{wt}/src", PYTHONHASHSEED="0")
        rc0, out0 = sh(f"/venv/bin/python {d}/demo.py", cwd=wt, env=env, timeout=600)
        res["demo_unpatched_rc"] = rc0
        rca, outa = sh(f"git apply {d}/patch.diff", cwd=wt)
        res["apply_rc"] = rca
        if rca != 0:
            res["apply_out"] = outa[-500:]
        rc1, out1 = sh(f"/venv/bin/python {d}/demo.py", cwd=wt, env=env, timeout=600)
        res["demo_patched_rc"] = rc1
        res["demo_patched_tail"] = out1[-400:]
        rct, outt = sh("/venv/bin/python -m pytest -q -p no:cacheprovider -x -q 2>&1 | tail -3", cwd=wt, env=env, timeout=3600)
        rct, outt = sh("/venv/bin/python -m pytest -q -p no:cacheprovider 2>&1 | tail -1", cwd=wt, env=env, timeout=3600)
        res["suite"] = outt.strip()
        res["confirmed"] = (rc0 == 0 and rca == 0 and rc1 != 0 and "930 passed" in outt and "11 failed" in outt)
        checks = {}
        for p in props:
            if in_repo:
                sh(f"git -C /repo apply {d}/patch.diff")
                try:
                    rc, out = sh(f"./check {p} --tier quick", cwd=VERIF, timeout=3600)
                finally:
                    sh("git -C /repo checkout -- .")
            else:
                rc, out = sh(f"./check {p} --tier quick", cwd=VERIF, env=dict(os.environ, FLEXVERIF_REPO=wt), timeout=3600)
            lines = [l for l in out.split("\n") if l.startswith("VIOLATION") or l.startswith("KNOWN-FINDING")]
            viol = [l for l in lines if l.startswith("VIOLATION")]
            detail = None
            if viol:
                try:
                    rp = viol[0].split("replay=")[1].split()[0]
                    r = json.load(open(rp))
                    f = r.get("failure") or (r.get("broken") or [{}])[0]
                    detail = {"class": f.get("class") or f.get("kind"), "detail": (f.get("detail") or str(f.get("theorems_not_checked") or f.get("first", {}).get("relation")))[:300]}
                except Exception as e:  # noqa: BLE001
                    detail = {"error": str(e)}
            checks[p] = {"rc": rc, "violation_lines": [l[:200] for l in viol], "first": detail}
        res["checks"] = checks
        res["detected"] = any(c["violation_lines"] for c in checks.values())
    finally:
        sh(f"git -C /repo worktree remove --force {wt}")
    json.dump(res, open(os.path.join(d, "result.json"), "w"), indent=1)
    print(f"{prop} {os.path.basename(d)} confirmed={res.get('confirmed')} detected={res.get('detected')} "
          f"{ {p: (c['first'] or {}).get('class') for p, c in res.get('checks', {}).items()} }")


if __name__ == "__main__":
    main()
