#!/usr/bin/env python3
"""Translator 3: lock scopes of the Local Dynamic Map (C16), same conventions as tools/gen_locks.py.

Reads the LDM modules under $FLEXVERIF_REPO/src/flexstack/facilities/local_dynamic_map with the Python `ast` and writes
coq/theories/Gen/LdmLockSummary.v (methods are summarised for a DYNAMIC class: self.m() resolves through that class's
inheritance chain, super().m() through the parent of the defining class): for every analysed method the list of actions in source order

    Acq l | Rel l | Rd f | Wr f

where a `with self.<lock>:` body is bracketed by Acq/Rel, a load of a tracked attribute is Rd, a store / del /
mutating call (pop, append, setdefault, add, discard, clear, popleft, update) on it is Wr, an augmented or
self-referential assignment is Rd followed by Wr, and calls to other analysed methods (self.m(...),
self.location_table.m(...), <entry>.m(...) for the entry methods) are inlined (depth <= 4).  Source order
flattening over-approximates control flow: every access that is syntactically inside a `with` block is executed
holding that lock, which is all the theorems use.  The translator FAILS CLOSED: a tracked attribute reached
through a construct it does not know (aliasing into a local, passing the container to a call, returning it,
comprehension targets, `global`, `nonlocal`, lambdas or nested defs touching it) is an error.
Files under Gen/ are rewritten only when their content changes.

The IF.LDM.3 / IF.LDM.4 interface classes (if_ldm_3.py, if_ldm_4.py) are summarised as well, once per configuration the
factory builds (Thread service over Thread maintenance, Reactive service over Reactive maintenance), into a list of their
own, `ldm_if_summary`: an interface call composes critical sections of the classes behind it and may hold the state lock
of the service (`with self.ldm_service.state_lock:`, the property is checked to return LDMService._lock) around them.
"""
import ast
import os
import sys

VERIF = os.path.dirname(os.path.dirname(os.path.abspath(__file__)))
REPO = os.environ.get("FLEXVERIF_REPO", "/repo")

FILES = ["dictionary_database.py", "ldm_maintenance.py", "ldm_maintenance_thread.py", "ldm_maintenance_reactive.py",
         "ldm_service.py", "ldm_service_threads.py", "ldm_service_reactive.py", "if_ldm_3.py", "if_ldm_4.py"]
PARENT = {"LDMMaintenanceThread": "LDMMaintenance", "LDMMaintenanceReactive": "LDMMaintenance",
          "LDMServiceThreads": "LDMService", "LDMServiceReactive": "LDMService",
          "DictionaryDataBase": None, "LDMMaintenance": None, "LDMService": None,
          "InterfaceLDM3": None, "InterfaceLDM4": None,
          # CONFIGURATIONS (no class of the source): the interfaces in front of the two LDMs the factory builds and the
          # run-time part drives - Thread service over Thread maintenance, Reactive service over Reactive maintenance
          "LDMServiceReactive_RM": "LDMServiceReactive",
          "InterfaceLDM3_Thread": "InterfaceLDM3", "InterfaceLDM3_Reactive": "InterfaceLDM3",
          "InterfaceLDM4_Thread": "InterfaceLDM4", "InterfaceLDM4_Reactive": "InterfaceLDM4"}
CONFIGURATIONS = ["LDMServiceReactive_RM", "InterfaceLDM3_Thread", "InterfaceLDM3_Reactive", "InterfaceLDM4_Thread",
                  "InterfaceLDM4_Reactive"]
# class -> lock attributes, tracked attributes (inherited along PARENT)
LOCKS = {
    "DictionaryDataBase": ["_lock"],
    "LDMMaintenance": [],
    "LDMMaintenanceThread": ["data_containers_lock"],
    "LDMMaintenanceReactive": ["lock"],
    "LDMService": ["_lock"],
    "LDMServiceThreads": ["data_containers_lock"],
    "LDMServiceReactive": ["lock"],
    "InterfaceLDM3": [], "InterfaceLDM4": [],
    "LDMServiceReactive_RM": [], "InterfaceLDM3_Thread": [], "InterfaceLDM3_Reactive": [], "InterfaceLDM4_Thread": [],
    "InterfaceLDM4_Reactive": [],
}
# locks of another analysed object that a class takes through an attribute chain from self: class -> chain -> lock.
# LDMService.state_lock is a property; main() checks that it returns self._lock and nothing else
LOCK_CHAINS = {
    "InterfaceLDM3": {("ldm_service", "state_lock"): "LDMService._lock"},
    "InterfaceLDM4": {("ldm_service", "state_lock"): "LDMService._lock"},
}
TRACKED = {
    "DictionaryDataBase": ["database", "_next_id"],
    "LDMMaintenance": ["new_data_recieved_flag"],
    "LDMMaintenanceThread": [],
    "LDMMaintenanceReactive": ["last_trash_collection_time"],
    "LDMService": ["data_provider_its_aid", "data_consumer_its_aid", "subscriptions", "last_checked_subscriptions_time"],
    "LDMServiceThreads": [],
    "LDMServiceReactive": ["last_subscription_time"],
    "InterfaceLDM3": [], "InterfaceLDM4": [],
    "LDMServiceReactive_RM": [], "InterfaceLDM3_Thread": [], "InterfaceLDM3_Reactive": [], "InterfaceLDM4_Thread": [],
    "InterfaceLDM4_Reactive": [],
}
SCALARS = {"_next_id", "new_data_recieved_flag", "last_trash_collection_time", "last_subscription_time"}
MUTATORS = {"pop", "append", "setdefault", "add", "discard", "clear", "popleft", "update", "remove", "extend",
            "appendleft", "insert", "popitem"}
READERS = {"get", "items", "keys", "values", "copy", "__contains__", "index", "count"}
# entry points summarised per dynamic class
METHODS = {
    "DictionaryDataBase": ["insert", "get", "update", "remove", "all", "exists", "search", "delete"],
    "LDMMaintenanceThread": ["add_provider_data", "get_provider_data", "update_provider_data", "del_provider_data",
                             "get_all_data_containers", "search_data_containers", "check_new_data_recieved", "collect_trash"],
    "LDMMaintenanceReactive": ["add_provider_data", "get_provider_data", "update_provider_data", "del_provider_data",
                               "get_all_data_containers", "search_data_containers", "check_new_data_recieved", "collect_trash"],
    "LDMServiceThreads": ["attend_subscriptions", "process_notifications", "remove_subscription", "add_provider_data",
                          "add_data_provider_its_aid", "get_data_provider_its_aid", "del_data_provider_its_aid",
                          "store_new_subscription_petition", "add_data_consumer_its_aid", "get_data_consumer_its_aid",
                          "del_data_consumer_its_aid", "delete_subscription", "query", "search_data"],
    "LDMServiceReactive": ["attend_subscriptions", "process_notifications", "remove_subscription", "add_provider_data",
                           "add_data_provider_its_aid", "get_data_provider_its_aid", "del_data_provider_its_aid",
                           "store_new_subscription_petition", "add_data_consumer_its_aid", "get_data_consumer_its_aid",
                           "del_data_consumer_its_aid", "delete_subscription", "query", "search_data"],
}
# the Reactive service in front of the Reactive maintenance (the service classes above are summarised over the Thread one)
METHODS["LDMServiceReactive_RM"] = METHODS["LDMServiceReactive"]
# the IF.LDM.3 / IF.LDM.4 calls, summarised per configuration into ldm_if_summary (a list of its own: an interface call is
# a COMPOSITION of critical sections of the classes above, possibly inside a section of the service's state lock)
IF_METHODS = {
    "InterfaceLDM3": ["register_data_provider", "deregister_data_provider", "add_provider_data", "update_provider_data",
                      "delete_provider_data"],
    "InterfaceLDM4": ["register_data_consumer", "deregister_data_consumer", "request_data_objects",
                      "subscribe_data_consumer", "unsubscribe_data_consumer"],
}
IF_CONFIGS = {"InterfaceLDM3_Thread": "InterfaceLDM3", "InterfaceLDM3_Reactive": "InterfaceLDM3",
              "InterfaceLDM4_Thread": "InterfaceLDM4", "InterfaceLDM4_Reactive": "InterfaceLDM4"}
# attribute chains (from self) that denote another analysed object: chain -> dynamic class used for the summary
OBJECTS = {
    "LDMMaintenance": {("data_containers",): "DictionaryDataBase"},
    "LDMService": {("ldm_maintenance",): "LDMMaintenanceThread", ("ldm_maintenance", "data_containers"): "DictionaryDataBase"},
    "LDMServiceReactive_RM": {("ldm_maintenance",): "LDMMaintenanceReactive",
                              ("ldm_maintenance", "data_containers"): "DictionaryDataBase"},
}
for _c, _svc, _mnt in (("InterfaceLDM3_Thread", "LDMServiceThreads", "LDMMaintenanceThread"),
                       ("InterfaceLDM4_Thread", "LDMServiceThreads", "LDMMaintenanceThread"),
                       ("InterfaceLDM3_Reactive", "LDMServiceReactive_RM", "LDMMaintenanceReactive"),
                       ("InterfaceLDM4_Reactive", "LDMServiceReactive_RM", "LDMMaintenanceReactive")):
    OBJECTS[_c] = {("ldm_service",): _svc, ("ldm_service", "ldm_maintenance"): _mnt,
                   ("ldm_service", "ldm_maintenance", "data_containers"): "DictionaryDataBase"}
# builtins that only read their argument
PURE_BUILTINS = {"len", "list", "sorted", "set", "dict", "tuple", "bool", "iter", "min", "max", "any", "all", "sum", "print",
                 "str", "repr", "float", "int", "isinstance", "hash", "reversed", "enumerate"}


class Fail(Exception):
    pass


def load_classes():
    out = {}
    for fn in FILES:
        path = os.path.join(REPO, "src", "flexstack", "facilities", "local_dynamic_map", fn)
        tree = ast.parse(open(path).read(), filename=path)
        for node in tree.body:
            if isinstance(node, ast.ClassDef) and node.name in LOCKS:
                bases = [b.id for b in node.bases if isinstance(b, ast.Name)]
                want = PARENT[node.name]
                if want is not None and want not in bases:
                    raise Fail(f"class {node.name} no longer derives from {want}")
                out[node.name] = {f.name: f for f in node.body if isinstance(f, ast.FunctionDef)}
    for c in CONFIGURATIONS:
        if c in out:
            raise Fail(f"the source now defines a class named {c}: rename the configuration in the translator")
        out[c] = {}
    for c in LOCKS:
        if c not in out:
            raise Fail(f"class {c} not found")
    check_state_lock(out)
    return out


def check_state_lock(classes):
    """LDMService.state_lock must be a property that returns self._lock (LOCK_CHAINS relies on it)"""
    fn = classes["LDMService"].get("state_lock")
    if fn is None:
        raise Fail("LDMService.state_lock not found (renamed or removed)")
    if [d.id for d in fn.decorator_list if isinstance(d, ast.Name)] != ["property"] or len(fn.decorator_list) != 1:
        raise Fail("LDMService.state_lock is no longer a plain property")
    body = [st for st in fn.body
            if not (isinstance(st, ast.Expr) and isinstance(st.value, ast.Constant) and isinstance(st.value.value, str))]
    me = fn.args.args[0].arg
    ok = (len(body) == 1 and isinstance(body[0], ast.Return) and isinstance(body[0].value, ast.Attribute)
          and isinstance(body[0].value.value, ast.Name) and body[0].value.value.id == me and body[0].value.attr == "_lock")
    if not ok:
        raise Fail("LDMService.state_lock no longer returns self._lock and nothing else")
    for c in ("LDMServiceThreads", "LDMServiceReactive"):
        if "state_lock" in classes[c]:
            raise Fail(f"{c} overrides state_lock")


def mro(cls):
    while cls is not None:
        yield cls
        cls = PARENT[cls]


def locks_of(cls):
    return [l for c in mro(cls) for l in LOCKS[c]]


def tracked_of(cls):
    return [f for c in mro(cls) for f in TRACKED[c]]


def lock_id(cls, attr):
    """locks are identified by (defining class, attribute)"""
    for c in mro(cls):
        if attr in LOCKS[c]:
            return f"{c}.{attr}"
    return None


def field_id(cls, attr):
    for c in mro(cls):
        if attr in TRACKED[c]:
            return f"{c}.{attr}"
    return None


class Summariser:
    def __init__(self, classes):
        self.classes = classes

    def find(self, dyn, name):
        for c in mro(dyn):
            if name in self.classes[c]:
                return c, self.classes[c][name]
        return None, None

    def method(self, dyn, name, depth=0, start=None):
        """summary of `name` executed on an object of dynamic class `dyn`; lookup starts at class `start`"""
        lookup = start or dyn
        dfn, fn = None, None
        for c in mro(lookup):
            if name in self.classes[c]:
                dfn, fn = c, self.classes[c][name]
                break
        if fn is None:
            raise Fail(f"{dyn}.{name} not found (renamed or removed): the lock summary cannot be regenerated")
        me = fn.args.args[0].arg
        acts = []
        key = (dyn, dfn, name)
        stack = self.__dict__.setdefault("_stack", [])
        if key in stack:
            # recursion: allowed only for a method that touches no lock and no tracked attribute (checked below)
            return [("Rec", key)]
        stack.append(key)
        try:
            self.block((dyn, dfn), me, fn.body, acts, depth, where=f"{dyn}.{name}")
        finally:
            stack.pop()
        if any(a == ("Rec", key) for a in acts):
            if any(a[0] != "Rec" for a in acts):
                raise Fail(f"{dyn}.{name}: recursive method touches a lock or a tracked attribute")
            acts = [a for a in acts if a != ("Rec", key)]
        return acts

    def block(self, ctx, me, stmts, acts, depth, where):
        for st in stmts:
            self.stmt(ctx, me, st, acts, depth, where)

    def stmt(self, ctx, me, st, acts, depth, where):
        if isinstance(st, ast.With):
            locks = []
            for item in st.items:
                l = self.lock_of(ctx, me, item.context_expr)
                if l is None:
                    ch = self.chain(me, item.context_expr)
                    if ch is not None and any(c in LOCK_CHAINS for c in mro(ctx[0])):
                        raise Fail(f"{where}: `with self.{'.'.join(ch)}` is not a lock the translator knows")
                    self.expr(ctx, me, item.context_expr, acts, depth, where)
                else:
                    locks.append(l)
                    acts.append(("Acq", l))
            self.block(ctx, me, st.body, acts, depth, where)
            for l in reversed(locks):
                acts.append(("Rel", l))
        elif isinstance(st, (ast.Assign, ast.AnnAssign, ast.AugAssign)):
            value = st.value
            targets = st.targets if isinstance(st, ast.Assign) else [st.target]
            if value is not None:
                self.no_alias(ctx, me, value, where)
                self.expr(ctx, me, value, acts, depth, where)
            for t in targets:
                if isinstance(st, ast.AugAssign):
                    self.expr(ctx, me, t, acts, depth, where)
                self.target(ctx, me, t, acts, depth, where)
        elif isinstance(st, ast.Delete):
            for t in st.targets:
                self.target(ctx, me, t, acts, depth, where)
        elif isinstance(st, ast.Expr):
            self.expr(ctx, me, st.value, acts, depth, where)
        elif isinstance(st, ast.Return):
            if st.value is not None:
                f = self.tracked_attr(ctx, me, st.value)
                if f is not None and f.split(".")[1] not in SCALARS:
                    raise Fail(f"{where}: tracked container {f} escapes through return")
                self.expr(ctx, me, st.value, acts, depth, where)
        elif isinstance(st, ast.If):
            self.expr(ctx, me, st.test, acts, depth, where)
            self.block(ctx, me, st.body, acts, depth, where)
            self.block(ctx, me, st.orelse, acts, depth, where)
        elif isinstance(st, (ast.For, ast.While)):
            if isinstance(st, ast.For):
                f = self.tracked_attr(ctx, me, st.iter)
                if f is not None:
                    raise Fail(f"{where}: iteration directly over tracked container {f} (must go through a copy or a reader)")
                self.expr(ctx, me, st.iter, acts, depth, where)
            else:
                self.expr(ctx, me, st.test, acts, depth, where)
            self.block(ctx, me, st.body, acts, depth, where)
            self.block(ctx, me, st.orelse, acts, depth, where)
        elif isinstance(st, ast.Try):
            self.block(ctx, me, st.body, acts, depth, where)
            for h in st.handlers:
                self.block(ctx, me, h.body, acts, depth, where)
            self.block(ctx, me, st.orelse, acts, depth, where)
            self.block(ctx, me, st.finalbody, acts, depth, where)
        elif isinstance(st, (ast.Pass, ast.Break, ast.Continue, ast.Import, ast.ImportFrom)):
            pass
        elif isinstance(st, ast.Raise):
            if st.exc is not None:
                self.expr(ctx, me, st.exc, acts, depth, where)
        elif isinstance(st, ast.Assert):
            self.expr(ctx, me, st.test, acts, depth, where)
        elif isinstance(st, ast.FunctionDef):
            # a local helper: it must not touch tracked state
            for n in ast.walk(st):
                if self.tracked_attr(ctx, me, n) is not None or self.lock_of(ctx, me, n) is not None:
                    raise Fail(f"{where}: nested function touches tracked state")
        else:
            raise Fail(f"{where}: statement {type(st).__name__} is not supported")

    def lock_of(self, ctx, me, e):
        if isinstance(e, ast.Attribute) and isinstance(e.value, ast.Name) and e.value.id == me:
            return lock_id(ctx[0], e.attr)
        ch = self.chain(me, e)
        if ch is not None and len(ch) > 1:
            for c in mro(ctx[0]):
                if ch in LOCK_CHAINS.get(c, {}):
                    return LOCK_CHAINS[c][ch]
        return None

    def tracked_attr(self, ctx, me, e):
        if isinstance(e, ast.Attribute) and isinstance(e.value, ast.Name) and e.value.id == me:
            return field_id(ctx[0], e.attr)
        return None

    def is_container(self, f):
        return f is not None and f.split(".")[1] not in SCALARS

    def no_alias(self, ctx, me, value, where):
        # live views (dict.values() / items() / keys()) stored in a local let the container be read after the lock is gone
        if isinstance(value, ast.Call) and isinstance(value.func, ast.Attribute) and value.func.attr in ("values", "items", "keys"):
            fv = self.tracked_attr(ctx, me, value.func.value)
            if self.is_container(fv):
                raise Fail(f"{where}: a live view ({value.func.attr}()) of tracked container {fv} is stored in a local")
        f = self.tracked_attr(ctx, me, value)
        if self.is_container(f):
            raise Fail(f"{where}: tracked container {f} is aliased into a local")

    def target(self, ctx, me, t, acts, depth, where):
        f = self.tracked_attr(ctx, me, t)
        if f is not None:
            acts.append(("Wr", f))
            return
        if isinstance(t, ast.Subscript):
            f = self.tracked_attr(ctx, me, t.value)
            self.expr(ctx, me, t.slice, acts, depth, where)
            if f is not None:
                acts.append(("Wr", f))
            else:
                self.expr(ctx, me, t.value, acts, depth, where)
            return
        if isinstance(t, (ast.Tuple, ast.List)):
            for x in t.elts:
                self.target(ctx, me, x, acts, depth, where)
            return
        if isinstance(t, ast.Attribute):
            self.expr(ctx, me, t.value, acts, depth, where)
            return
        if isinstance(t, ast.Name):
            return
        raise Fail(f"{where}: assignment target {type(t).__name__} is not supported")

    def chain(self, me, e):
        """attribute chain from self: self.a.b -> ('a','b'); None otherwise"""
        parts = []
        while isinstance(e, ast.Attribute):
            parts.append(e.attr)
            e = e.value
        if isinstance(e, ast.Name) and e.id == me:
            return tuple(reversed(parts))
        return None

    def expr(self, ctx, me, e, acts, depth, where):
        if e is None:
            return
        f = self.tracked_attr(ctx, me, e)
        if f is not None:
            acts.append(("Rd", f))
            return
        if isinstance(e, ast.Call):
            fn = e.func
            args = list(e.args) + [k.value for k in e.keywords]
            if isinstance(fn, ast.Attribute):
                f = self.tracked_attr(ctx, me, fn.value)
                if f is not None:
                    for a in args:
                        self.expr(ctx, me, a, acts, depth, where)
                    if fn.attr in MUTATORS:
                        acts.append(("Rd", f))
                        acts.append(("Wr", f))
                    elif fn.attr in READERS:
                        acts.append(("Rd", f))
                    else:
                        raise Fail(f"{where}: unknown method {fn.attr} on tracked {f}")
                    return
                target = None
                # super().m(...)
                if (isinstance(fn.value, ast.Call) and isinstance(fn.value.func, ast.Name) and fn.value.func.id == "super"):
                    parent = PARENT[ctx[1]]
                    if parent is None:
                        raise Fail(f"{where}: super() in a class without analysed parent")
                    target = ("super", ctx[0], parent, fn.attr)
                else:
                    ch = self.chain(me, fn.value)
                    if ch == ():
                        c, _ = self.find(ctx[0], fn.attr)
                        if c is not None:
                            target = ("self", ctx[0], None, fn.attr)
                    elif ch is not None:
                        for c in mro(ctx[0]):
                            if ch in OBJECTS.get(c, {}):
                                dyn = OBJECTS[c][ch]
                                if self.find(dyn, fn.attr)[0] is None:
                                    raise Fail(f"{where}: {dyn}.{fn.attr} not found")
                                target = ("obj", dyn, None, fn.attr)
                                break
                for a in args:
                    self.passes_container(ctx, me, a, where)
                    self.expr(ctx, me, a, acts, depth, where)
                if target is not None:
                    if depth >= 8:
                        raise Fail(f"{where}: call depth exceeded at {target}")
                    kind, dyn, start, name = target
                    acts.extend(self.method(dyn, name, depth + 1, start=start))
                else:
                    self.expr(ctx, me, fn.value, acts, depth, where)
                return
            pure = isinstance(fn, ast.Name) and fn.id in PURE_BUILTINS
            if pure and fn.id in ("tuple", "list", "set", "sorted", "any", "all", "sum", "min", "max", "dict"):
                for a in args:
                    if isinstance(a, ast.GeneratorExp):
                        a._consumed_in_place = True
            for a in args:
                if not pure:
                    self.passes_container(ctx, me, a, where)
                self.expr(ctx, me, a, acts, depth, where)
            self.expr(ctx, me, fn, acts, depth, where)
            return
        if isinstance(e, (ast.ListComp, ast.SetComp, ast.DictComp)) or (
                isinstance(e, ast.GeneratorExp) and getattr(e, "_consumed_in_place", False)):
            # evaluated on the spot (a generator expression only when it is the direct argument of a builtin that
            # consumes it): same treatment as a loop - iterables, conditions and element in source order
            for n in ast.walk(e):
                if isinstance(n, ast.NamedExpr):
                    raise Fail(f"{where}: walrus inside comprehension")
            for g in e.generators:
                self.expr(ctx, me, g.iter, acts, depth, where)
                for c in g.ifs:
                    self.expr(ctx, me, c, acts, depth, where)
            if isinstance(e, ast.DictComp):
                self.expr(ctx, me, e.key, acts, depth, where)
                self.expr(ctx, me, e.value, acts, depth, where)
            else:
                self.expr(ctx, me, e.elt, acts, depth, where)
            return
        if isinstance(e, (ast.Lambda, ast.GeneratorExp)):
            for n in ast.walk(e):
                if isinstance(n, ast.NamedExpr):
                    raise Fail(f"{where}: walrus inside comprehension")
                if isinstance(n, ast.Call):
                    ch = self.chain(me, n.func.value) if isinstance(n.func, ast.Attribute) else None
                    if ch is not None and (ch == () or any(ch in OBJECTS.get(c, {}) for c in mro(ctx[0]))):
                        raise Fail(f"{where}: call to an analysed method inside a comprehension / lambda")
                f = self.tracked_attr(ctx, me, n)
                if f is not None:
                    acts.append(("Rd", f))
            return
        for child in ast.iter_child_nodes(e):
            if isinstance(child, ast.expr):
                self.expr(ctx, me, child, acts, depth, where)

    def passes_container(self, ctx, me, a, where):
        f = self.tracked_attr(ctx, me, a)
        if self.is_container(f):
            raise Fail(f"{where}: tracked container {f} passed to a call")


def main():
    classes = load_classes()
    s = Summariser(classes)
    all_locks = [f"{c}.{l}" for c in LOCKS for l in LOCKS[c]]
    all_fields = [f"{c}.{f}" for c in TRACKED for f in TRACKED[c]]
    lid = {n: i for i, n in enumerate(all_locks)}
    fid = {n: i for i, n in enumerate(all_fields)}
    lines = ["(* GENERATED by tools/gen_locks_ldm.py from the current source tree - do not edit. *)",
             "From FlexVerif Require Import Base.Prelude Base.Interleave.", ""]
    for l, i in lid.items():
        lines.append(f"Definition LL_{l.replace('.', '_').replace('__', '_')} : Z := {i}.")
    for f, i in fid.items():
        lines.append(f"Definition LF_{f.replace('.', '_').replace('__', '_')} : Z := {i}.")
    lines.append("")
    names = []
    per_class = {}

    def emit(cls, m):
        acts = s.method(cls, m)
        body = []
        for a in acts:
            if a[0] in ("Acq", "Rel") and a[1] not in lid:
                raise Fail(f"{cls}.{m}: unknown lock {a[1]}")
            if a[0] in ("Rd", "Wr") and a[1] not in fid:
                raise Fail(f"{cls}.{m}: unknown field {a[1]}")
            body.append("%s %d" % (a[0], lid[a[1]] if a[0] in ("Acq", "Rel") else fid[a[1]]))
        nm = f"LM_{cls}_{m.strip('_')}"
        names.append(nm)
        per_class.setdefault(cls, []).append(nm)
        lines.append(f"Definition {nm} : list action :=\n  [{'; '.join(body)}].")

    for cls in METHODS:
        # every method the dynamic class has (own and inherited), constructors excluded: a method added to the source
        # is summarised (and has to meet the obligations) without touching this translator
        meths, c = [], cls
        while c is not None:
            for m in classes[c]:
                if m not in meths and not (m.startswith("__") and m.endswith("__")):
                    meths.append(m)
            c = PARENT[c]
        missing = [m for m in METHODS[cls] if m not in meths]
        if missing:
            raise Fail(f"{cls}: expected methods {missing} no longer exist")
        for m in meths:
            emit(cls, m)
    # the interface calls, per configuration: every method of the interface class (a method added to an interface is
    # summarised and has to meet the obligations on ldm_if_summary)
    if_classes = []
    for cfg, base in IF_CONFIGS.items():
        meths = [m for m in classes[base] if not (m.startswith("__") and m.endswith("__"))]
        missing = [m for m in IF_METHODS[base] if m not in meths]
        if missing:
            raise Fail(f"{base}: expected methods {missing} no longer exist")
        for m in meths:
            emit(cfg, m)
        if_classes.append(cfg)
    lines.append("")
    for cls, nms in per_class.items():
        lines.append(f"Definition ldm_methods_{cls} : list (list action) :=\n  [" + "; ".join(nms) + "].")
    lines.append("Definition ldm_summary : list (list action) :=\n  "
                 + " ++ ".join(f"ldm_methods_{cls}" for cls in per_class if cls not in if_classes) + ".")
    lines.append("Definition ldm_if_summary : list (list action) :=\n  "
                 + " ++ ".join(f"ldm_methods_{cls}" for cls in if_classes) + ".")
    lines.append("")
    content = "\n".join(lines) + "\n"
    path = os.path.join(VERIF, "coq", "theories", "Gen", "LdmLockSummary.v")
    os.makedirs(os.path.dirname(path), exist_ok=True)
    try:
        if open(path).read() == content:
            return 0
    except FileNotFoundError:
        pass
    with open(path, "w") as f:
        f.write(content)
    return 0


if __name__ == "__main__":
    try:
        sys.exit(main())
    except Fail as e:
        sys.stderr.write(f"gen_locks_ldm: {e}\n")
        sys.exit(2)
