#!/usr/bin/env python3
"""Translator 2: lock scopes of the GeoNetworking router and the location table.

Reads $FLEXVERIF_REPO/src/flexstack/geonet/{router,location_table}.py with the Python `ast` and writes
coq/theories/Gen/LockSummary.v: for every analysed method the list of actions in source order

    Acq l | Rel l | Rd f | Wr f

where a `with self.<lock>:` body is bracketed by Acq/Rel, a load of a tracked attribute is Rd, a store / del /
mutating call (pop, append, setdefault, add, discard, clear, popleft, update) on it is Wr, an augmented or
self-referential assignment is Rd followed by Wr, and calls to other analysed methods (self.m(...),
self.location_table.m(...), <entry>.m(...) for the entry methods) are inlined (depth <= 4).  Source order
flattening over-approximates control flow: every access that is syntactically inside a `with` block is executed
holding that lock, which is all the theorems use.  The translator FAILS CLOSED: a tracked attribute reached
through a construct it does not know (aliasing into a local, passing the container to a call, returning it,
comprehension targets, `global`, `nonlocal`, lambdas or nested defs touching it) is an error.
Files under Gen/ are rewritten only when their content changes.
"""
import ast
import os
import sys

VERIF = os.path.dirname(os.path.dirname(os.path.abspath(__file__)))
REPO = os.environ.get("FLEXVERIF_REPO", "/repo")

# class -> lock attributes, tracked attributes
LOCKS = {
    "Router": ["sequence_number_lock", "_cbf_lock", "_ls_lock", "ego_position_vector_lock"],
    "LocationTable": ["loc_t_lock"],
    "LocationTableEntry": ["position_vector_lock", "tst_lock", "pdr_lock", "dpl_lock"],
}
TRACKED = {
    "Router": ["sequence_number", "_cbf_buffer", "_ls_timers", "_ls_retransmit_counters", "_ls_packet_buffers",
               "ego_position_vector"],
    "LocationTable": ["loc_t"],
    "LocationTableEntry": ["position_vector", "tst", "pdr", "dpl_set", "dpl_deque"],
}
MUTATORS = {"pop", "append", "setdefault", "add", "discard", "clear", "popleft", "update", "remove", "extend",
            "appendleft", "insert", "popitem"}
READERS = {"get", "items", "keys", "values", "copy", "__contains__", "index", "count"}
METHODS = {
    "Router": ["get_sequence_number", "_cbf_timeout", "_cbf_discard", "gn_area_cbf_forwarding", "gn_ls_request",
               "_ls_retransmit", "_send_ls_request_packet", "gn_data_indicate_ls_reply", "gn_data_indicate_ls_request",
               "gn_data_request_guc", "refresh_ego_position_vector", "gn_data_request_beacon", "gn_data_request_shb",
               "gn_data_request_gbc", "gn_greedy_forwarding", "gn_forwarding_algorithm_selection"],
    "LocationTable": ["get_entry", "ensure_entry", "refresh_table", "new_shb_packet", "new_guc_packet", "new_tsb_packet",
                      "new_gac_packet", "new_ls_request_packet", "new_ls_reply_packet", "new_gbc_packet", "get_neighbours"],
    "LocationTableEntry": ["update_position_vector", "update_pdr", "check_duplicate_sn", "update_with_shb_packet",
                           "update_with_tsb_packet", "update_with_gbc_packet"],
}
ENTRY_METHODS = set(METHODS["LocationTableEntry"])
# builtins that only read their argument
PURE_BUILTINS = {"len", "list", "sorted", "set", "dict", "tuple", "bool", "iter", "min", "max", "any", "all", "sum", "print",
                 "str", "repr", "float", "int", "isinstance"}


class Fail(Exception):
    pass


def load_classes():
    out = {}
    for fn in ("router.py", "location_table.py"):
        path = os.path.join(REPO, "src", "flexstack", "geonet", fn)
        tree = ast.parse(open(path).read(), filename=path)
        for node in tree.body:
            if isinstance(node, ast.ClassDef) and node.name in LOCKS:
                out[node.name] = {f.name: f for f in node.body if isinstance(f, ast.FunctionDef)}
    for c in LOCKS:
        if c not in out:
            raise Fail(f"class {c} not found")
    return out


class Summariser:
    def __init__(self, classes):
        self.classes = classes

    def method(self, cls, name, depth=0):
        if name not in self.classes[cls]:
            raise Fail(f"{cls}.{name} not found (renamed or removed): the lock summary cannot be regenerated")
        fn = self.classes[cls][name]
        self_name = fn.args.args[0].arg
        acts = []
        self.block(cls, self_name, fn.body, acts, depth, where=f"{cls}.{name}")
        return acts

    # ---- statements ------------------------------------------------------------------------
    def block(self, cls, me, stmts, acts, depth, where):
        for st in stmts:
            self.stmt(cls, me, st, acts, depth, where)

    def stmt(self, cls, me, st, acts, depth, where):
        if isinstance(st, ast.With):
            locks = []
            for item in st.items:
                l = self.lock_of(cls, me, item.context_expr)
                if l is None:
                    self.expr(cls, me, item.context_expr, acts, depth, where)
                else:
                    locks.append(l)
                    acts.append(("Acq", l))
            self.block(cls, me, st.body, acts, depth, where)
            for l in reversed(locks):
                acts.append(("Rel", l))
        elif isinstance(st, (ast.Assign, ast.AnnAssign, ast.AugAssign)):
            value = st.value
            targets = st.targets if isinstance(st, ast.Assign) else [st.target]
            if value is not None:
                self.no_alias(cls, me, value, where)
                self.expr(cls, me, value, acts, depth, where)
            for t in targets:
                if isinstance(st, ast.AugAssign):
                    self.expr(cls, me, t, acts, depth, where, load=True)
                self.target(cls, me, t, acts, depth, where)
        elif isinstance(st, ast.Delete):
            for t in st.targets:
                self.target(cls, me, t, acts, depth, where)
        elif isinstance(st, ast.Expr):
            self.expr(cls, me, st.value, acts, depth, where)
        elif isinstance(st, ast.Return):
            if st.value is not None:
                f = self.tracked_attr(cls, me, st.value)
                if f is not None and f not in ("sequence_number", "ego_position_vector", "position_vector", "tst", "pdr"):
                    raise Fail(f"{where}: tracked container {f} escapes through return")
                self.expr(cls, me, st.value, acts, depth, where)
        elif isinstance(st, ast.If):
            self.expr(cls, me, st.test, acts, depth, where)
            self.block(cls, me, st.body, acts, depth, where)
            self.block(cls, me, st.orelse, acts, depth, where)
        elif isinstance(st, (ast.For, ast.While)):
            if isinstance(st, ast.For):
                self.expr(cls, me, st.iter, acts, depth, where)
            else:
                self.expr(cls, me, st.test, acts, depth, where)
            self.block(cls, me, st.body, acts, depth, where)
            self.block(cls, me, st.orelse, acts, depth, where)
        elif isinstance(st, ast.Try):
            self.block(cls, me, st.body, acts, depth, where)
            for h in st.handlers:
                self.block(cls, me, h.body, acts, depth, where)
            self.block(cls, me, st.orelse, acts, depth, where)
            self.block(cls, me, st.finalbody, acts, depth, where)
        elif isinstance(st, (ast.Pass, ast.Break, ast.Continue, ast.Import, ast.ImportFrom)):
            pass
        elif isinstance(st, ast.Raise):
            if st.exc is not None:
                self.expr(cls, me, st.exc, acts, depth, where)
        elif isinstance(st, ast.Assert):
            self.expr(cls, me, st.test, acts, depth, where)
        elif isinstance(st, (ast.FunctionDef, ast.Lambda, ast.ClassDef, ast.Global, ast.Nonlocal, ast.AsyncFunctionDef)):
            raise Fail(f"{where}: construct {type(st).__name__} is not supported")
        else:
            raise Fail(f"{where}: statement {type(st).__name__} is not supported")

    def lock_of(self, cls, me, e):
        if isinstance(e, ast.Attribute) and isinstance(e.value, ast.Name) and e.value.id == me and e.attr in LOCKS[cls]:
            return e.attr
        return None

    def tracked_attr(self, cls, me, e):
        if isinstance(e, ast.Attribute) and isinstance(e.value, ast.Name) and e.value.id == me and e.attr in TRACKED[cls]:
            return e.attr
        return None

    def no_alias(self, cls, me, value, where):
        # dict.values() / items() / keys() are LIVE views: stored in a local (instead of being consumed on the spot by a
        # loop or list(...)) they let the container be read after its lock has been released
        if isinstance(value, ast.Call) and isinstance(value.func, ast.Attribute) and value.func.attr in ("values", "items", "keys"):
            fv = self.tracked_attr(cls, me, value.func.value)
            if fv is not None:
                raise Fail(f"{where}: a live view ({value.func.attr}()) of tracked container {fv} is stored in a local")
        f = self.tracked_attr(cls, me, value)
        if f is not None and f not in ("sequence_number", "ego_position_vector", "position_vector", "tst", "pdr"):
            raise Fail(f"{where}: tracked container {f} is aliased into a local")

    def target(self, cls, me, t, acts, depth, where):
        f = self.tracked_attr(cls, me, t)
        if f is not None:
            acts.append(("Wr", f))
            return
        if isinstance(t, ast.Subscript):
            f = self.tracked_attr(cls, me, t.value)
            self.expr(cls, me, t.slice, acts, depth, where)
            if f is not None:
                acts.append(("Wr", f))
            else:
                self.expr(cls, me, t.value, acts, depth, where)
            return
        if isinstance(t, (ast.Tuple, ast.List)):
            for x in t.elts:
                self.target(cls, me, x, acts, depth, where)
            return
        if isinstance(t, ast.Attribute):
            self.expr(cls, me, t.value, acts, depth, where)
            return
        if isinstance(t, ast.Name):
            return
        raise Fail(f"{where}: assignment target {type(t).__name__} is not supported")

    # ---- expressions -----------------------------------------------------------------------
    def expr(self, cls, me, e, acts, depth, where, load=True):
        if e is None:
            return
        f = self.tracked_attr(cls, me, e)
        if f is not None:
            acts.append(("Rd", f))
            return
        if isinstance(e, ast.Call):
            fn = e.func
            # method call on a tracked container: self.f.pop(...)
            if isinstance(fn, ast.Attribute):
                f = self.tracked_attr(cls, me, fn.value)
                if f is not None:
                    for a in e.args:
                        self.expr(cls, me, a, acts, depth, where)
                    for k in e.keywords:
                        self.expr(cls, me, k.value, acts, depth, where)
                    if fn.attr in MUTATORS:
                        acts.append(("Rd", f))
                        acts.append(("Wr", f))
                    elif fn.attr in READERS or f in ("ego_position_vector", "position_vector", "tst"):
                        acts.append(("Rd", f))
                    else:
                        raise Fail(f"{where}: unknown method {fn.attr} on tracked {f}")
                    return
                # self.f.setdefault(k, []).append(v)
                if isinstance(fn.value, ast.Call) and isinstance(fn.value.func, ast.Attribute):
                    f2 = self.tracked_attr(cls, me, fn.value.func.value)
                    if f2 is not None:
                        self.expr(cls, me, fn.value, acts, depth, where)
                        for a in e.args:
                            self.expr(cls, me, a, acts, depth, where)
                        acts.append(("Wr", f2))
                        return
                # calls to analysed methods are inlined
                target = None
                if isinstance(fn.value, ast.Name) and fn.value.id == me and fn.attr in METHODS.get(cls, []):
                    target = (cls, fn.attr)
                elif (cls == "Router" and isinstance(fn.value, ast.Attribute) and isinstance(fn.value.value, ast.Name)
                      and fn.value.value.id == me and fn.value.attr == "location_table"
                      and fn.attr in METHODS["LocationTable"]):
                    target = ("LocationTable", fn.attr)
                elif fn.attr in ENTRY_METHODS and not (isinstance(fn.value, ast.Name) and fn.value.id == me):
                    target = ("LocationTableEntry", fn.attr)
                for a in e.args:
                    self.passes_container(cls, me, a, where)
                    self.expr(cls, me, a, acts, depth, where)
                for k in e.keywords:
                    self.passes_container(cls, me, k.value, where)
                    self.expr(cls, me, k.value, acts, depth, where)
                if target is not None:
                    if depth >= 4:
                        raise Fail(f"{where}: call depth exceeded at {target}")
                    acts.append(("Call", target[0] + "." + target[1]))
                    acts.extend(self.method(target[0], target[1], depth + 1))
                    acts.append(("Ret", target[0] + "." + target[1]))
                else:
                    self.expr(cls, me, fn.value, acts, depth, where)
                return
            pure = isinstance(fn, ast.Name) and fn.id in PURE_BUILTINS
            for a in e.args:
                if not pure:
                    self.passes_container(cls, me, a, where)
                self.expr(cls, me, a, acts, depth, where)
            for k in e.keywords:
                if not pure:
                    self.passes_container(cls, me, k.value, where)
                self.expr(cls, me, k.value, acts, depth, where)
            self.expr(cls, me, fn, acts, depth, where)
            return
        if isinstance(e, (ast.Lambda, ast.ListComp, ast.SetComp, ast.DictComp, ast.GeneratorExp)):
            # comprehensions / lambdas: every tracked attribute inside is a read (no stores possible except walrus)
            for n in ast.walk(e):
                if isinstance(n, ast.NamedExpr):
                    raise Fail(f"{where}: walrus inside comprehension")
                f = self.tracked_attr(cls, me, n)
                if f is not None:
                    acts.append(("Rd", f))
            return
        for child in ast.iter_child_nodes(e):
            if isinstance(child, ast.expr):
                self.expr(cls, me, child, acts, depth, where)
            elif isinstance(child, (ast.comprehension,)):
                raise Fail(f"{where}: unexpected comprehension node")

    def passes_container(self, cls, me, a, where):
        f = self.tracked_attr(cls, me, a)
        if f is not None and f not in ("sequence_number", "ego_position_vector", "position_vector", "tst", "pdr"):
            raise Fail(f"{where}: tracked container {f} passed to a call")


def coq_string_id(names):
    return {n: i for i, n in enumerate(names)}


def main():
    classes = load_classes()
    s = Summariser(classes)
    all_locks = [l for c in LOCKS for l in LOCKS[c]]
    all_fields = [f for c in TRACKED for f in TRACKED[c]]
    lid, fid = coq_string_id(all_locks), coq_string_id(all_fields)
    lines = ["(* GENERATED by tools/gen_locks.py from the current source tree - do not edit. *)",
             "From FlexVerif Require Import Base.Prelude Base.Interleave.", ""]
    for l, i in lid.items():
        lines.append(f"Definition L_{l.strip('_')} : Z := {i}.")
    for f, i in fid.items():
        lines.append(f"Definition F_{f.strip('_')} : Z := {i}.")
    lines.append("")
    names = []
    for cls in ("Router", "LocationTable", "LocationTableEntry"):
        for m in METHODS[cls]:
            acts = s.method(cls, m)
            body = []
            for a in acts:
                if a[0] == "Acq":
                    body.append(f"Acq {lid[a[1]]}")
                elif a[0] == "Rel":
                    body.append(f"Rel {lid[a[1]]}")
                elif a[0] == "Rd":
                    body.append(f"Rd {fid[a[1]]}")
                elif a[0] == "Wr":
                    body.append(f"Wr {fid[a[1]]}")
            nm = f"M_{cls}_{m.strip('_')}"
            names.append((nm, cls, m))
            lines.append(f"Definition {nm} : list action :=\n  [{'; '.join(body)}].")
    lines.append("")
    lines.append("Definition summary : list (list action) :=\n  [" + "; ".join(n for n, _, _ in names) + "].")
    lines.append("")
    content = "\n".join(lines) + "\n"
    path = os.path.join(VERIF, "coq", "theories", "Gen", "LockSummary.v")
    os.makedirs(os.path.dirname(path), exist_ok=True)
    try:
        if open(path).read() == content:
            return 0
    except FileNotFoundError:
        pass
    with open(path, "w") as f:
        f.write(content)
    return 0


if __name__ == "__main__":
    try:
        sys.exit(main())
    except Fail as e:
        sys.stderr.write(f"gen_locks: {e}\n")
        sys.exit(2)
