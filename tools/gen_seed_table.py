#!/usr/bin/env python3
"""Regenerate the table of seeded regressions in DESIGN.md (between the SEEDED-TABLE markers) from seeded/*/meta.json,
result.json and the optional note.txt (what had to be strengthened)."""
import glob
import json
import os
import re

VERIF = os.path.dirname(os.path.dirname(os.path.abspath(__file__)))


def short(s, n):
    s = " ".join(str(s).split())
    return s if len(s) <= n else s[:n - 1] + "…"


def main():
    rows = []
    for d in sorted(glob.glob(os.path.join(VERIF, "seeded", "C*-*"))):
        name = os.path.basename(d)
        try:
            meta = json.load(open(os.path.join(d, "meta.json")))
        except Exception:
            meta = {}
        try:
            res = json.load(open(os.path.join(d, "result.json")))
        except Exception:
            res = None
        note = ""
        if os.path.exists(os.path.join(d, "note.txt")):
            note = " ".join(open(os.path.join(d, "note.txt")).read().split())
        if res is None:
            verdict, by = "not evaluated", ""
        else:
            det = res.get("detected")
            verdict = "detected" if det else "MISSED"
            if not res.get("confirmed"):
                verdict += " (seed not confirmed)"
            bys = []
            for p, c in (res.get("checks") or {}).items():
                f = c.get("first") or {}
                cls = f.get("class") or f.get("relation") or ("proof obligation" if c.get("rc") else "-")
                nf = " no-failing-input-found" if any("no-failing-input-found" in l for l in c.get("violation_lines", [])) else ""
                bys.append(f"{p}: {cls}{nf}")
            by = "; ".join(bys)
        files = ", ".join(os.path.basename(f) for f in meta.get("files_changed", []))
        rows.append(f"| {name} | {files} | {short(meta.get('summary', ''), 230)} | {verdict} | {short(by, 120)} | {short(note, 200)} |")
    total = len(rows)
    det = sum(1 for r in rows if "| detected |" in r)
    first_missed = 0
    for d in sorted(glob.glob(os.path.join(VERIF, "seeded", "C*-*"))):
        np_ = os.path.join(d, "note.txt")
        if os.path.exists(np_) and "missed at first" in open(np_).read():
            first_missed += 1
    summary = (f"Summary: {total} seeded regressions, {det} detected by the committed checks "
               f"({first_missed} of them only after the generator / oracle was strengthened - see the notes), "
               f"{total - det} not detected or not evaluated.")
    table = [summary, "",
             "| seed | file(s) | change | result of `./check` (quick) | first failure class | note |",
             "|---|---|---|---|---|---|"] + rows
    p = os.path.join(VERIF, "DESIGN.md")
    s = open(p).read()
    block = "<!-- SEEDED-TABLE-BEGIN -->\n" + "\n".join(table) + "\n<!-- SEEDED-TABLE-END -->"
    if "<!-- SEEDED-TABLE-BEGIN -->" in s:
        s = re.sub(r"<!-- SEEDED-TABLE-BEGIN -->.*?<!-- SEEDED-TABLE-END -->", lambda m: block, s, flags=re.S)
    else:
        s += "\n" + block + "\n"
    open(p, "w").write(s)
    print(len(rows), "rows")


if __name__ == "__main__":
    main()
