"""pyz - a small, fail-closed translator from a subset of Python (pure integer / byte-string functions) to Gallina.

Used by tools/gen_src_*.py to regenerate coq/theories/Gen/Src*.v from the source tree under test on every run.  The
theorems in Proofs/Src*Equiv.v state, for ALL arguments, that each regenerated definition computes what the hand-written
model computes, so for these functions the tie between model and code is a proof obligation and not a sample.

What is translated (anything else raises Fail, which the caller reports as a broken tie):
  values       int -> Z, bool -> bool, bytes -> list Z, tuples / dataclass constructor calls -> tuples (fields in the
               order fixed by the configuration), Enum members -> their integer value, Enum(x) -> x guarded by membership
  expressions  + - * // % ** << >> | & ^ ~ (a chain of | is put into a normal form: operands ordered by their constant left
               shift), unary -, not, and/or on booleans, comparison chains, conditional expressions,
               min / max / int / bool / len, int.from_bytes(.., 'big'[, signed=True]), x.to_bytes(n, 'big'[, signed=True])
               (guarded by the range in which Python does not raise OverflowError), constant slices and indices of byte
               strings, byte-string concatenation, constant folding of literal sub-expressions (a float result is accepted
               only when it is integral, e.g. (2**32)/2), calls to other translated functions
  statements   assignment (also tuple targets, augmented), if / elif / else, for over a literal tuple (unrolled), return, raise
  failure      a function that can raise (raise statement, Enum(x) with x outside the enumeration, to_bytes overflow, index
               out of range, a failing callee) is translated to a function into `option`: None = an exception is raised

Every name a function reads besides its locals must be declared in its environment (python expression text -> parameter,
callee or constant), so a change that makes the function depend on something new is refused rather than guessed.
"""
import ast
import copy


class Fail(Exception):
    pass


class NeedOption(Exception):
    pass


def zlit(n):
    return str(n) if n >= 0 else f"({n})"


class Unit:
    def __init__(self):
        self.enums = {}     # class name -> [(member, int)]
        self.classes = {}   # class name -> ClassDef
        self.funcs = {}     # module-level function name -> FunctionDef
        self.consts = {}    # module-level constants (int)
        self.sigs = {}      # coq name -> (params [(name, ty)], ret ty, is_option)
        self.ctors = {}     # class name -> {"fields": [...], "guard": template or None}
        self.out = []
        self.used_enums = []

    # ---------------------------------------------------------------- loading
    def load(self, path):
        tree = ast.parse(open(path).read(), filename=path)
        for node in tree.body:
            if isinstance(node, ast.ClassDef):
                self.classes[node.name] = node
                if any(isinstance(b, ast.Name) and b.id in ("Enum", "IntEnum") for b in node.bases):
                    ms = []
                    for st in node.body:
                        if isinstance(st, ast.Assign) and len(st.targets) == 1 and isinstance(st.targets[0], ast.Name) \
                                and isinstance(st.value, ast.Constant) and type(st.value.value) is int:
                            ms.append((st.targets[0].id, st.value.value))
                        elif isinstance(st, ast.Assign):
                            raise Fail(f"enum {node.name}: member at line {st.lineno} is not NAME = <int literal>")
                    if len({v for _, v in ms}) != len(ms):
                        raise Fail(f"enum {node.name}: aliased values")
                    self.enums[node.name] = ms
            elif isinstance(node, ast.FunctionDef):
                self.funcs[node.name] = node
            elif isinstance(node, ast.Assign) and len(node.targets) == 1 and isinstance(node.targets[0], ast.Name):
                try:
                    v = eval(compile(ast.Expression(node.value), "<const>", "eval"), {"__builtins__": {}}, dict(self.consts))
                except Exception:
                    continue
                if type(v) is int:
                    self.consts[node.targets[0].id] = v

    def find(self, qual):
        if "." in qual:
            c, m = qual.split(".", 1)
            if c not in self.classes:
                raise Fail(f"class {c} not found")
            for st in self.classes[c].body:
                if isinstance(st, ast.FunctionDef) and st.name == m:
                    return st
            raise Fail(f"method {qual} not found")
        if qual not in self.funcs:
            raise Fail(f"function {qual} not found")
        return self.funcs[qual]

    # ---------------------------------------------------------------- output helpers
    def enum_mem(self, name):
        if name not in self.used_enums:
            self.used_enums.append(name)
            body = " || ".join(f"(v =? {zlit(v)})" for _, v in self.enums[name]) or "false"
            self.out.append(f"Definition enum_mem_{name} (v : Z) : bool := {body}.")
        return f"enum_mem_{name}"

    def translate(self, qual, coq, env, ret_fields=None, opaque_locals=None, state=None, locks=(), allow_defaults=False,
                  state_with_result=False):
        """env: ordered dict  python expression text -> ("param", coqname, ty) | ("call", coqname, [arg texts]) |
        ("const", coq text, ty).  ret_fields: for a constructor call in return position, keep only these fields.
        opaque_locals: {local name: exact source text of its right-hand side} - assignments that are not translated; the
        local may then only be used in dropped constructor fields.
        state: ordered dict  attribute chain text (e.g. "self.position_vector") -> initial value (python expression text
        declared in env): a method that mutates these attributes and returns nothing is translated to the function
        returning their final values; locks: the `with <expr>:` context expressions (exact text) that are transparent."""
        fn = copy.deepcopy(self.find(qual))
        if state:
            names = {k: "st_" + k.replace(".", "_") for k in state}
            fn.body = [_StateAttr(names).visit(st) for st in fn.body]
            init = [ast.parse(f"{names[k]} = {v}").body[0] for k, v in state.items()]
            ret = ast.parse("return (" + ", ".join(names[k] for k in state) + ("," if len(state) == 1 else "") + ")").body[0]
            if len(state) == 1:
                ret = ast.parse(f"return {names[list(state)[0]]}").body[0]
            has_return = any(isinstance(sub, ast.Return) for sub in ast.walk(ast.Module(body=fn.body, type_ignores=[])))
            if has_return and not state_with_result:
                raise Fail(f"{qual}: a state-mutating method with an explicit return is not translated")
            if has_return:
                # every `return e` becomes `return (e, final state)`; all paths must return
                fn.body = [_ReturnWithState([names[k] for k in state]).visit(st) for st in fn.body]
                fn.body = init + fn.body
            else:
                fn.body = init + fn.body + [ret]
            for n in init + [ret]:
                ast.fix_missing_locations(ast.copy_location(n, fn))
        params = [(v[1], v[2]) for v in env.values() if v[0] == "param"]
        declared = {a.arg for a in fn.args.args}
        for a in declared - {"self", "cls"}:
            if not any(k == a or k.startswith(a + ".") or k.startswith(a + "[") for k in env):
                raise Fail(f"{qual}: argument {a} is not declared in the environment")
        if fn.args.vararg or fn.args.kwarg or fn.args.kwonlyargs or (fn.args.defaults and not allow_defaults):
            raise Fail(f"{qual}: unsupported signature")
        last = None
        for option in (False, True):
            tr = _Fn(self, qual, env, option, ret_fields or None, opaque_locals or {}, tuple(locks))
            try:
                body, ty = tr.block(list(fn.body), {})
            except NeedOption:
                last = "needs option"
                continue
            ret = _ty(ty)
            if option:
                ret = f"option ({ret})"
            ps = " ".join(f"({n} : {_ty(t)})" for n, t in params)
            self.out.append(f"(* {qual} *)\nDefinition {coq} {ps} : {ret} :=\n{body}.")
            self.sigs[coq] = (params, ty, option)
            return
        raise Fail(f"{qual}: {last}")

    def text(self, header):
        return header + "\n" + "\n\n".join(self.out) + "\n"


def _ty(t):
    if t == "Z":
        return "Z"
    if t == "bool":
        return "bool"
    if t == "bytes":
        return "list Z"
    if isinstance(t, tuple) and t[0] == "tuple":
        return " * ".join(("(" + _ty(x) + ")") if isinstance(x, tuple) else _ty(x) for x in t[1])
    raise Fail(f"type {t}")


class _Subst(ast.NodeTransformer):
    def __init__(self, sub):
        self.sub = sub

    def visit_Name(self, node):
        if node.id in self.sub and isinstance(node.ctx, ast.Load):
            return copy.deepcopy(self.sub[node.id])
        return node


class _StateAttr(ast.NodeTransformer):
    """self.a.b (a declared state attribute) -> the local st_self_a_b, for loads and stores"""

    def __init__(self, names):
        self.names = names

    def visit_Attribute(self, node):
        key = ast.unparse(node)
        if key in self.names:
            return ast.copy_location(ast.Name(id=self.names[key], ctx=node.ctx), node)
        return self.generic_visit(node)


class _ReturnWithState(ast.NodeTransformer):
    def __init__(self, names):
        self.names = names

    def visit_Return(self, node):
        if node.value is None:
            raise Fail("return without value in a state-mutating method")
        tup = ast.Tuple(elts=[node.value] + [ast.Name(id=n, ctx=ast.Load()) for n in self.names], ctx=ast.Load())
        new = ast.Return(value=tup)
        ast.copy_location(new, node)
        ast.fix_missing_locations(new)
        return new


class _Fn:
    def __init__(self, unit, qual, env, option, ret_fields, opaque_locals, locks=()):
        self.u, self.qual, self.env, self.option = unit, qual, env, option
        self.locks = locks
        self.ret_fields, self.opaque = ret_fields, opaque_locals
        self.n = 0
        self.ret_ty = None

    def fail(self, node, msg):
        raise Fail(f"{self.qual}: line {getattr(node, 'lineno', '?')}: {msg}: {ast.unparse(node)[:120]}")

    def fresh(self):
        self.n += 1
        return f"t{self.n}"

    # ------------------------------------------------------------ effects
    def wrap(self, effs, inner):
        """inner : text of type option T (option mode). effs in evaluation order."""
        if effs and not self.option:
            raise NeedOption()
        for e in reversed(effs):
            if e[0] == "let":
                inner = f"let {e[1]} := {e[2]} in\n{inner}"
            elif e[0] == "guard":
                inner = f"if {e[1]} then\n{inner}\nelse None"
            elif e[0] == "bind":
                inner = f"match {e[2]} with None => None | Some {e[1]} =>\n{inner}\nend"
        return inner

    # ------------------------------------------------------------ statements
    def block(self, stmts, vars_):
        """returns (text, type of the returned value).  vars_: local name -> type"""
        if not stmts:
            raise Fail(f"{self.qual}: control reaches the end of the function without return")
        st, rest = stmts[0], stmts[1:]
        if isinstance(st, ast.Expr) and isinstance(st.value, ast.Constant) and isinstance(st.value.value, str):
            return self.block(rest, vars_)
        if isinstance(st, ast.Pass):
            return self.block(rest, vars_)
        if isinstance(st, ast.With):
            if len(st.items) != 1 or st.items[0].optional_vars is not None \
                    or ast.unparse(st.items[0].context_expr) not in self.locks:
                self.fail(st, "with-statement over something that is not a declared lock")
            return self.block(list(st.body) + rest, vars_)
        # `return a if c else b` / `x = a if c else b` are read as the if-statement they abbreviate, so that a branch
        # which can raise is only evaluated when it is taken
        if isinstance(st, ast.Return) and isinstance(st.value, ast.IfExp):
            iff = ast.If(test=st.value.test, body=[ast.Return(value=st.value.body)], orelse=[ast.Return(value=st.value.orelse)])
            ast.fix_missing_locations(ast.copy_location(iff, st))
            return self.block([iff] + rest, vars_)
        if isinstance(st, ast.Assign) and isinstance(st.value, ast.IfExp) and len(st.targets) == 1:
            iff = ast.If(test=st.value.test, body=[ast.Assign(targets=st.targets, value=st.value.body)],
                         orelse=[ast.Assign(targets=st.targets, value=st.value.orelse)])
            ast.fix_missing_locations(ast.copy_location(iff, st))
            return self.block([iff] + rest, vars_)
        if isinstance(st, ast.Return):
            if st.value is None:
                self.fail(st, "return without value")
            t, ty, effs = self.expr(st.value, vars_, ret_pos=True)
            self.note_ret(ty, st)
            inner = f"Some ({t})" if self.option else f"({t})"
            return self.wrap(effs, inner), ty
        if isinstance(st, ast.Raise):
            if not self.option:
                raise NeedOption()
            # the type of the function is fixed by its returns; a raise contributes None
            return "None", None
        if isinstance(st, (ast.Assign, ast.AugAssign, ast.AnnAssign)):
            binds, effs, new_vars = self.assign(st, vars_)
            body, ty = self.block(rest, new_vars)
            for name, text in reversed(binds):
                body = f"let {name} := {text} in\n{body}"
            return self.wrap(effs, body), ty
        if isinstance(st, ast.If):
            c, cty, effs = self.expr(st.test, vars_)
            if cty != "bool":
                self.fail(st.test, "condition is not a boolean")
            if c in ("true", "false") and not effs:     # a condition the environment declares constant: the dead branch is dropped
                return self.block(list(st.body if c == "true" else st.orelse) + rest, vars_)
            if self.no_ctrl(st.body) and self.no_ctrl(st.orelse):
                try:
                    return self.join_if(st, rest, vars_, c, effs)
                except NeedOption:
                    if not self.option:
                        raise
            ta, tya = self.block(list(st.body) + rest, dict(vars_))
            tb, tyb = self.block(list(st.orelse) + rest, dict(vars_))
            ty = tya if tya is not None else tyb
            if tya is not None and tyb is not None and tya != tyb:
                self.fail(st, "branches return different types")
            return self.wrap(effs, f"if {c} then\n{ta}\nelse\n{tb}"), ty
        if isinstance(st, ast.For):
            if st.orelse or not isinstance(st.iter, (ast.Tuple, ast.List)):
                self.fail(st, "only for-loops over a literal tuple are translated")
            for sub in ast.walk(st):
                if isinstance(sub, (ast.Break, ast.Continue, ast.Return, ast.Raise)):
                    self.fail(st, "break / continue / return / raise inside a loop")
            # the loop variables are replaced by the literal elements (the body must not assign to them)
            tnames = [st.target.id] if isinstance(st.target, ast.Name) else (
                [x.id for x in st.target.elts] if isinstance(st.target, ast.Tuple)
                and all(isinstance(x, ast.Name) for x in st.target.elts) else None)
            if tnames is None or set(tnames) & self.assigned(st.body):
                self.fail(st, "loop target")
            unrolled = []
            for el in st.iter.elts:
                vals = [el] if isinstance(st.target, ast.Name) else (list(el.elts) if isinstance(el, ast.Tuple) else None)
                if vals is None or len(vals) != len(tnames):
                    self.fail(st, "loop element does not match the loop target")
                sub = dict(zip(tnames, vals))
                for b in st.body:
                    unrolled.append(_Subst(sub).visit(copy.deepcopy(b)))
            return self.block(unrolled + rest, vars_)
        self.fail(st, "statement not translated")

    def note_ret(self, ty, node):
        if self.ret_ty is None:
            self.ret_ty = ty
        elif self.ret_ty != ty:
            self.fail(node, f"returns of different types ({self.ret_ty} / {ty})")

    def no_ctrl(self, stmts):
        """no return / raise / loop inside: the branch may be joined"""
        for st in stmts:
            for sub in ast.walk(st):
                if isinstance(sub, (ast.Return, ast.Raise, ast.For, ast.While, ast.Try, ast.With)):
                    return False
        return True

    def join_if(self, st, rest, vars_, c, effs):
        names = sorted(self.assigned(st.body) | self.assigned(st.orelse))
        ta, va = self.straight(st.body, vars_)
        tb, vb = self.straight(st.orelse, vars_)
        for n in names:
            if n not in va or n not in vb:
                self.fail(st, f"local {n} is assigned on one branch only and was not defined before")
            if va[n] != vb[n]:
                self.fail(st, f"local {n} has different types on the two branches")
        new_vars = dict(vars_)
        for n in names:
            new_vars[n] = va[n]
        body, ty = self.block(rest, new_vars)
        if not names:
            return self.wrap(effs, body), ty
        tup = ", ".join("v_" + n for n in names)
        pat = tup if len(names) == 1 else f"'({tup})"
        res = f"({tup})" if len(names) > 1 else tup
        text = (f"let {pat} :=\n  if {c} then\n{ta}  {res}\n  else\n{tb}  {res} in\n{body}")
        return self.wrap(effs, text), ty

    def assigned(self, stmts):
        out = set()
        for st in stmts:
            for sub in ast.walk(st):
                if isinstance(sub, (ast.Assign, ast.AugAssign, ast.AnnAssign)):
                    tg = sub.targets if isinstance(sub, ast.Assign) else [sub.target]
                    for t in tg:
                        for n in ast.walk(t):
                            if isinstance(n, ast.Name):
                                out.add(n.id)
        return out

    def straight(self, stmts, vars_):
        """a branch without returns: text of its lets (each ending in ' in\n') and the variables afterwards"""
        text = ""
        vars_ = dict(vars_)
        for st in stmts:
            if isinstance(st, ast.Pass) or (isinstance(st, ast.Expr) and isinstance(st.value, ast.Constant)):
                continue
            if isinstance(st, (ast.Assign, ast.AugAssign, ast.AnnAssign)):
                binds, effs, vars_ = self.assign(st, vars_)
                if effs:
                    raise NeedOption()
                for name, t in binds:
                    text += f"  let {name} := {t} in\n"
            elif isinstance(st, ast.If):
                c, cty, effs = self.expr(st.test, vars_)
                if effs:
                    raise NeedOption()
                if cty != "bool":
                    self.fail(st.test, "condition is not a boolean")
                if c in ("true", "false"):
                    t2, vars_ = self.straight(st.body if c == "true" else st.orelse, vars_)
                    text += t2
                    continue
                names = sorted(self.assigned(st.body) | self.assigned(st.orelse))
                ta, va = self.straight(st.body, vars_)
                tb, vb = self.straight(st.orelse, vars_)
                for n in names:
                    if n not in va or n not in vb:
                        self.fail(st, f"local {n} is assigned on one branch only and was not defined before")
                    vars_[n] = va[n]
                if names:
                    tup = ", ".join("v_" + n for n in names)
                    pat = tup if len(names) == 1 else f"'({tup})"
                    res = f"({tup})" if len(names) > 1 else tup
                    text += f"  let {pat} :=\n  if {c} then\n{ta}  {res}\n  else\n{tb}  {res} in\n"
            else:
                self.fail(st, "statement not translated inside a joined branch")
        return text, vars_

    def assign(self, st, vars_):
        new_vars = dict(vars_)
        if isinstance(st, ast.AugAssign):
            if not isinstance(st.target, ast.Name):
                self.fail(st, "augmented assignment to a non-local")
            val = ast.BinOp(left=ast.Name(id=st.target.id, ctx=ast.Load()), op=st.op, right=st.value)
            ast.copy_location(val, st)
            ast.fix_missing_locations(val)
            targets = [st.target]
        elif isinstance(st, ast.AnnAssign):
            if st.value is None:
                self.fail(st, "annotation without value")
            val, targets = st.value, [st.target]
        else:
            if len(st.targets) != 1:
                self.fail(st, "chained assignment")
            val, targets = st.value, st.targets
        tg = targets[0]
        if isinstance(tg, ast.Name) and tg.id in self.opaque:
            if ast.unparse(val) != self.opaque[tg.id]:
                self.fail(st, f"opaque local {tg.id} is no longer computed as {self.opaque[tg.id]!r}")
            new_vars[tg.id] = "opaque"
            return [], [], new_vars
        t, ty, effs = self.expr(val, vars_)
        if isinstance(tg, ast.Name):
            new_vars[tg.id] = ty
            return [("v_" + tg.id, t)], effs, new_vars
        if isinstance(tg, ast.Tuple) and all(isinstance(e, ast.Name) for e in tg.elts):
            if not (isinstance(ty, tuple) and ty[0] == "tuple" and len(ty[1]) == len(tg.elts)):
                self.fail(st, "tuple assignment from a value that is not a tuple of that length")
            for i, e in enumerate(tg.elts):
                new_vars[e.id] = ty[1][i]
            pat = "'(" + ", ".join("v_" + e.id for e in tg.elts) + ")"
            return [(pat, t)], effs, new_vars
        self.fail(st, "assignment target not translated")

    # ------------------------------------------------------------ expressions
    def expr(self, e, vars_, ret_pos=False):
        """-> (coq text, type, effects)"""
        key = ast.unparse(e)
        if key in self.env:
            kind = self.env[key]
            if kind[0] == "param":
                return kind[1], kind[2], []
            if kind[0] == "const":
                return kind[1], kind[2], []
            if kind[0] == "call":
                return self.call_translated(kind[1], [ast.parse(a, mode="eval").body for a in kind[2]], vars_, e)
        # constant folding of literal sub-expressions
        if not isinstance(e, (ast.Constant, ast.Tuple, ast.List)) and not any(
                isinstance(n, (ast.Name, ast.Call, ast.Attribute, ast.Subscript)) for n in ast.walk(e)):
            try:
                v = eval(compile(ast.Expression(e), "<fold>", "eval"), {"__builtins__": {}}, {})
            except Exception as ex:
                self.fail(e, f"literal expression cannot be evaluated ({ex})")
            return self.const(v, e)
        if isinstance(e, ast.Constant):
            return self.const(e.value, e)
        if isinstance(e, ast.Name):
            if e.id in vars_:
                if vars_[e.id] == "opaque":
                    self.fail(e, "use of an opaque local")
                return "v_" + e.id, vars_[e.id], []
            if e.id in self.u.consts:
                return zlit(self.u.consts[e.id]), "Z", []
            self.fail(e, "name is neither a local, a declared input nor a module constant")
        if isinstance(e, ast.Attribute):
            # Enum member
            if isinstance(e.value, ast.Name) and e.value.id in self.u.enums:
                for n, v in self.u.enums[e.value.id]:
                    if n == e.attr:
                        return zlit(v), "Z", []
                self.fail(e, "unknown enumeration member")
            if e.attr == "value":     # x.value of an enumeration-valued expression: the integer itself
                return self.expr(e.value, vars_)
            self.fail(e, "attribute is not declared in the environment")
        if isinstance(e, ast.UnaryOp):
            t, ty, effs = self.expr(e.operand, vars_)
            if isinstance(e.op, ast.USub) and ty == "Z":
                return f"(- {t})", "Z", effs
            if isinstance(e.op, ast.Not) and ty == "bool":
                return f"(negb {t})", "bool", effs
            if isinstance(e.op, ast.Invert) and ty == "Z":
                return f"(Z.lnot {t})", "Z", effs
            self.fail(e, "unary operator / operand type")
        if isinstance(e, ast.BinOp) and isinstance(e.op, ast.BitOr):
            # a chain of | is flattened and its operands are ordered by the constant amount they are shifted left
            # (descending, stable): | on integers is associative and commutative, so this normal form has the same value
            # and the proofs do not depend on the order in which the source lists the fields
            ops = []

            def flat(n):
                if isinstance(n, ast.BinOp) and isinstance(n.op, ast.BitOr):
                    flat(n.left)
                    flat(n.right)
                else:
                    ops.append(n)
            flat(e)

            def shift_of(n):
                k = 0
                while isinstance(n, ast.BinOp) and isinstance(n.op, ast.LShift) and self.nonneg(n.right):
                    k += self.litint(n.right, None)
                    n = n.left
                return k
            parts = []
            for n in ops:
                t, ty, ef = self.expr(n, vars_)
                if ty == "bool":
                    t, ty = f"(b2z {t})", "Z"
                if ty != "Z":
                    self.fail(e, "operand types")
                parts.append((shift_of(n), t, ef))
            effs = [x for _, _, ef in parts for x in ef]
            parts.sort(key=lambda x: -x[0])
            acc = parts[0][1]
            for _, t, _ in parts[1:]:
                acc = f"(Z.lor {acc} {t})"
            return acc, "Z", effs
        if isinstance(e, ast.BinOp):
            a, ta, ea = self.expr(e.left, vars_)
            b, tb, eb = self.expr(e.right, vars_)
            effs = ea + eb
            if ta == "bytes" and tb == "bytes" and isinstance(e.op, ast.Add):
                return f"({a} ++ {b})", "bytes", effs
            if ta == "bool":
                a, ta = f"(b2z {a})", "Z"
            if tb == "bool":
                b, tb = f"(b2z {b})", "Z"
            if ta != "Z" or tb != "Z":
                self.fail(e, "operand types")
            ops = {ast.Add: "{a} + {b}", ast.Sub: "{a} - {b}", ast.Mult: "{a} * {b}",
                   ast.BitOr: "Z.lor {a} {b}", ast.BitAnd: "Z.land {a} {b}", ast.BitXor: "Z.lxor {a} {b}",
                   ast.LShift: "Z.shiftl {a} {b}", ast.RShift: "Z.shiftr {a} {b}"}
            for k, fmt in ops.items():
                if isinstance(e.op, k):
                    if k in (ast.LShift, ast.RShift) and not self.nonneg(e.right):
                        effs = effs + [("guard", f"(0 <=? {b})")]
                    return "(" + fmt.format(a=a, b=b) + ")", "Z", effs
            if isinstance(e.op, (ast.FloorDiv, ast.Mod)):
                if not self.nonzero_literal(e.right):
                    effs = effs + [("guard", f"(negb ({b} =? 0))")]
                return (f"({a} / {b})" if isinstance(e.op, ast.FloorDiv) else f"({a} mod {b})"), "Z", effs
            if isinstance(e.op, ast.Pow):
                if not self.nonneg(e.right):
                    self.fail(e, "exponent is not a non-negative literal")
                return f"({a} ^ {b})", "Z", effs
            self.fail(e, "binary operator not translated")
        if isinstance(e, ast.BoolOp):
            parts = [self.expr(v, vars_) for v in e.values]
            if any(p[1] != "bool" for p in parts):
                self.fail(e, "and / or over non-boolean operands")
            if any(p[2] for p in parts[1:]):
                self.fail(e, "operand of and / or that can raise")
            op = " && " if isinstance(e.op, ast.And) else " || "
            return "(" + op.join(p[0] for p in parts) + ")", "bool", parts[0][2]
        if isinstance(e, ast.Compare):
            operands = [e.left] + list(e.comparators)
            parts = [self.expr(v, vars_) for v in operands]
            effs = [x for p in parts for x in p[2]]
            if len(parts) > 2 and any(p[2] for p in parts[2:]):
                self.fail(e, "comparison chain with an operand that can raise")
            out = []
            for i, op in enumerate(e.ops):
                (a, ta, _), (b, tb, _) = parts[i], parts[i + 1]
                if ta == "bool" and tb == "bool" and isinstance(op, (ast.Eq, ast.NotEq)):
                    t = f"(Bool.eqb {a} {b})"
                    out.append(t if isinstance(op, ast.Eq) else f"(negb {t})")
                    continue
                if ta == "bytes" and tb == "bytes" and isinstance(op, (ast.Eq, ast.NotEq)):
                    t = f"(if list_eq_dec Z.eq_dec {a} {b} then true else false)"
                    out.append(t if isinstance(op, ast.Eq) else f"(negb {t})")
                    continue
                if ta != "Z" or tb != "Z":
                    self.fail(e, "comparison of non-integers")
                sym = {ast.Lt: "<?", ast.LtE: "<=?", ast.Gt: ">?", ast.GtE: ">=?", ast.Eq: "=?"}
                if isinstance(op, ast.NotEq):
                    out.append(f"(negb ({a} =? {b}))")
                elif type(op) in sym:
                    out.append(f"({a} {sym[type(op)]} {b})")
                else:
                    self.fail(e, "comparison operator not translated")
            return (out[0] if len(out) == 1 else "(" + " && ".join(out) + ")"), "bool", effs
        if isinstance(e, ast.IfExp):
            c, tc, ec = self.expr(e.test, vars_)
            a, ta, ea = self.expr(e.body, vars_)
            b, tb, eb = self.expr(e.orelse, vars_)
            if tc != "bool" or ta != tb or ea or eb:
                self.fail(e, "conditional expression (types / branch that can raise)")
            return f"(if {c} then {a} else {b})", ta, ec
        if isinstance(e, ast.Tuple):
            parts = [self.expr(v, vars_) for v in e.elts]
            return "(" + ", ".join(p[0] for p in parts) + ")", ("tuple", [p[1] for p in parts]), \
                [x for p in parts for x in p[2]]
        if isinstance(e, ast.Subscript):
            b, tb, effs = self.expr(e.value, vars_)
            if tb != "bytes":
                self.fail(e, "subscript of a non-byte-string")
            if isinstance(e.slice, ast.Slice):
                lo = self.litint(e.slice.lower, 0)
                if e.slice.step is not None or lo < 0:
                    self.fail(e, "slice")
                if e.slice.upper is None:
                    return f"(skipn {lo} {b})", "bytes", effs
                hi = self.litint(e.slice.upper, None)
                if hi < lo:
                    self.fail(e, "slice")
                return f"(firstn {hi - lo} (skipn {lo} {b}))", "bytes", effs
            i = self.litint(e.slice, None)
            if i < 0:
                self.fail(e, "negative index")
            v = self.fresh()
            return f"(nth {i} {v} 0)", "Z", effs + [("let", v, b), ("guard", f"({i} <? Z.of_nat (length {v}))")]
        if isinstance(e, ast.Call):
            return self.call(e, vars_, ret_pos)
        self.fail(e, "expression not translated")

    def const(self, v, node):
        if type(v) is bool:
            return ("true" if v else "false"), "bool", []
        if type(v) is int:
            return zlit(v), "Z", []
        if type(v) is float and v.is_integer():
            return zlit(int(v)), "Z", []      # compared with integers only: exact
        if type(v) is bytes:
            return "[" + "; ".join(str(x) for x in v) + "]", "bytes", []
        self.fail(node, "literal not translated")

    def litint(self, node, default):
        if node is None:
            if default is None:
                raise Fail(f"{self.qual}: missing bound")
            return default
        try:
            v = eval(compile(ast.Expression(node), "<lit>", "eval"), {"__builtins__": {}}, {})
        except Exception:
            self.fail(node, "index / bound is not a literal")
        if type(v) is not int:
            self.fail(node, "index / bound is not an integer literal")
        return v

    def nonneg(self, node):
        try:
            v = eval(compile(ast.Expression(node), "<lit>", "eval"), {"__builtins__": {}}, {})
            return type(v) is int and v >= 0
        except Exception:
            return False

    def nonzero_literal(self, node):
        try:
            v = eval(compile(ast.Expression(node), "<lit>", "eval"), {"__builtins__": {}}, {})
            return type(v) is int and v != 0
        except Exception:
            return False

    def kw(self, call, name, pos=None, default=None):
        for k in call.keywords:
            if k.arg == name:
                return k.value
        if pos is not None and len(call.args) > pos:
            return call.args[pos]
        return default

    def call(self, e, vars_, ret_pos):
        f = e.func
        # builtins
        if isinstance(f, ast.Name) and f.id in ("int", "bool", "min", "max", "len") and not e.keywords:
            args = [self.expr(a, vars_) for a in e.args]
            effs = [x for a in args for x in a[2]]
            if f.id == "int" and len(args) == 1:
                t, ty, _ = args[0]
                if ty == "Z":
                    return t, "Z", effs
                if ty == "bool":
                    return f"(b2z {t})", "Z", effs
            if f.id == "bool" and len(args) == 1:
                t, ty, _ = args[0]
                if ty == "Z":
                    return f"(negb ({t} =? 0))", "bool", effs
                if ty == "bool":
                    return t, "bool", effs
            if f.id in ("min", "max") and len(args) == 2 and args[0][1] == "Z" and args[1][1] == "Z":
                return f"(Z.{f.id} {args[0][0]} {args[1][0]})", "Z", effs
            if f.id == "len" and len(args) == 1 and args[0][1] == "bytes":
                return f"(Z.of_nat (length {args[0][0]}))", "Z", effs
            self.fail(e, "builtin call not translated")
        # int.from_bytes
        if isinstance(f, ast.Attribute) and f.attr == "from_bytes" and isinstance(f.value, ast.Name) and f.value.id == "int":
            self.big(e, 1)
            b, tb, effs = self.expr(e.args[0], vars_)
            if tb != "bytes":
                self.fail(e, "from_bytes of a non-byte-string")
            signed = self.kw(e, "signed")
            if signed is not None:
                if not (isinstance(signed, ast.Constant) and signed.value is True):
                    self.fail(e, "signed= not a literal True")
                v = self.fresh()
                return f"(to_signed (8 * Z.of_nat (length {v})) (of_bytes {v}))", "Z", effs + [("let", v, b)]
            return f"(of_bytes {b})", "Z", effs
        # x.to_bytes(n, 'big')
        if isinstance(f, ast.Attribute) and f.attr == "to_bytes":
            self.big(e, 1)
            x, tx, effs = self.expr(f.value, vars_)
            if tx == "bool":
                x, tx = f"(b2z {x})", "Z"
            if tx != "Z":
                self.fail(e, "to_bytes of a non-integer")
            n = self.litint(self.kw(e, "length", 0), None)
            if n <= 0 or n > 64:
                self.fail(e, "to_bytes length")
            signed = self.kw(e, "signed")
            v = self.fresh()
            if signed is not None:
                if not (isinstance(signed, ast.Constant) and signed.value is True):
                    self.fail(e, "signed= not a literal True")
                g = f"((- 2 ^ {8 * n - 1} <=? {v}) && ({v} <? 2 ^ {8 * n - 1}))"
                return f"(to_bytes {n} (to_unsigned {8 * n} {v}))", "bytes", effs + [("let", v, x), ("guard", g)]
            g = f"((0 <=? {v}) && ({v} <? 2 ^ {8 * n}))"
            return f"(to_bytes {n} {v})", "bytes", effs + [("let", v, x), ("guard", g)]
        # Enum(x)
        if isinstance(f, ast.Name) and f.id in self.u.enums and len(e.args) == 1 and not e.keywords:
            t, ty, effs = self.expr(e.args[0], vars_)
            if ty != "Z":
                self.fail(e, "enumeration constructor over a non-integer")
            v = self.fresh()
            return v, "Z", effs + [("let", v, t), ("guard", f"({self.u.enum_mem(f.id)} {v})")]
        # constructor of a record class: cls(...) / Name(...)
        cname = None
        if isinstance(f, ast.Name) and f.id == "cls":
            cname = self.qual.split(".")[0]
        elif isinstance(f, ast.Name) and f.id in self.u.ctors:
            cname = f.id
        if cname is not None:
            if cname not in self.u.ctors:
                self.fail(e, f"constructor of {cname} is not declared")
            spec = self.u.ctors[cname]
            fields = list(spec["fields"])
            given = {}
            if e.args:
                if len(e.args) > len(fields):
                    self.fail(e, "too many positional arguments")
                for n, a in zip(fields, e.args):
                    given[n] = a
            for k in e.keywords:
                if k.arg is None or k.arg in given:
                    self.fail(e, "constructor keywords")
                given[k.arg] = k.value
            keep = fields
            if ret_pos and self.ret_fields is not None:
                keep = self.ret_fields
                for n in given:
                    if n not in fields:
                        self.fail(e, f"unknown field {n}")
            if set(given) - set(fields):
                self.fail(e, f"constructor arguments {sorted(set(given) - set(fields))} are not fields of {cname}")
            parts, effs = [], []
            for n in keep:
                if n not in given:
                    if "defaults" in spec and n in spec["defaults"]:
                        parts.append((spec["defaults"][n][0], spec["defaults"][n][1], []))
                        continue
                    self.fail(e, f"field {n} of {cname} is not given")
                parts.append(self.expr(given[n], vars_))
                effs += parts[-1][2]
            if spec.get("guard"):
                names = {}
                for n, p in zip(keep, parts):
                    v = self.fresh()
                    effs.append(("let", v, p[0]))
                    names[n] = v
                effs.append(("guard", spec["guard"].format(**names)))
                parts = [(names[n], p[1], []) for n, p in zip(keep, parts)]
            if len(parts) == 1:
                return parts[0][0], parts[0][1], effs
            return "(" + ", ".join(p[0] for p in parts) + ")", ("tuple", [p[1] for p in parts]), effs
        self.fail(e, "call is not declared in the environment")

    def big(self, e, pos):
        bo = self.kw(e, "byteorder", pos)
        if not (isinstance(bo, ast.Constant) and bo.value == "big"):
            self.fail(e, "byte order is not the literal 'big'")

    def call_translated(self, coq, arg_nodes, vars_, node):
        if coq not in self.u.sigs:
            self.fail(node, f"callee {coq} has not been translated")
        params, ret, is_opt = self.u.sigs[coq]
        if len(arg_nodes) != len(params):
            self.fail(node, f"callee {coq} takes {len(params)} arguments")
        texts, effs = [], []
        for a, (pn, pt) in zip(arg_nodes, params):
            t, ty, ef = self.expr(a, vars_)
            if ty == "bool" and pt == "Z":
                t, ty = f"(b2z {t})", "Z"
            if ty != pt:
                self.fail(node, f"argument {pn} of {coq}: type {ty}, expected {pt}")
            texts.append(t)
            effs += ef
        app = f"({coq} " + " ".join(texts) + ")"
        if is_opt:
            v = self.fresh()
            return v, ret, effs + [("bind", v, app)]
        return app, ret, effs
