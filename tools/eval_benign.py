#!/usr/bin/env python3
"""False-alarm measurement: tools/eval_benign.py <dir with patch.diff meta.json> [--props C01,C02] [-j N]

Applies a property-PRESERVING change to a scratch worktree of /repo HEAD, confirms the suite is unchanged, and runs
./check <prop> --tier quick for every property against it (FLEXVERIF_REPO).  Any VIOLATION line is an alarm to be
classified by hand: obligation/translator broke without a failing input (allowed by the brief, but noted), or a real
false alarm of an oracle / correspondence relation (must be corrected).  Writes <dir>/result.json."""
import json
import os
import subprocess
import sys
import time
from concurrent.futures import ThreadPoolExecutor

VERIF = os.path.dirname(os.path.dirname(os.path.abspath(__file__)))
ALL = [f"C{i:02d}" for i in range(1, 21)]


def sh(cmd, cwd=None, env=None, timeout=5400):
    p = subprocess.run(cmd, shell=True, cwd=cwd, env=env, stdout=subprocess.PIPE, stderr=subprocess.STDOUT, text=True, timeout=timeout)
    return p.returncode, p.stdout


def main():
    d = os.path.abspath(sys.argv[1])
    props, jobs = ALL, 5
    args = sys.argv[2:]
    for i, a in enumerate(args):
        if a.startswith("--props="):
            props = a.split("=", 1)[1].split(",")
        if a == "-j":
            jobs = int(args[i + 1])
    wt = f"/tmp/evalbenign_{os.getpid()}"
    res = {"dir": d, "at": time.strftime("%Y-%m-%dT%H:%M:%S")}
    sh(f"git -C /repo worktree add -q --detach {wt} HEAD")
    try:
        env = dict(os.environ, PYTHONPATH=f"{wt}/src", PYTHONHASHSEED="0")
        rca, outa = sh(f"git apply {d}/patch.diff", cwd=wt)
        res["apply_rc"] = rca
        if "--skip-suite" not in args:
            _, outt = sh("/venv/bin/python -m pytest -q -p no:cacheprovider 2>&1 | tail -1", cwd=wt, env=env)
            res["suite"] = outt.strip()
            res["suite_ok"] = "930 passed" in outt and "11 failed" in outt

        def one(p):
            t0 = time.time()
            rc, out = sh(f"./check {p} --tier quick", cwd=VERIF, env=dict(os.environ, FLEXVERIF_REPO=wt))
            viol = [l[:300] for l in out.split("\n") if l.startswith("VIOLATION")]
            detail = None
            if viol:
                try:
                    rp = viol[0].split("replay=")[1].split()[0]
                    r = json.load(open(rp))
                    f = r.get("failure") or (r.get("broken") or [{}])[0]
                    detail = {"class": f.get("class") or f.get("kind"),
                              "detail": (f.get("detail") or str(f.get("theorems_not_checked") or f.get("first", {}).get("relation")))[:400]}
                except Exception as e:  # noqa: BLE001
                    detail = {"error": str(e)}
            return p, {"rc": rc, "violation_lines": viol, "first": detail, "wall": round(time.time() - t0)}
        with ThreadPoolExecutor(jobs) as ex:
            res["checks"] = dict(ex.map(one, props))
        res["alarms"] = sorted(p for p, c in res["checks"].items() if c["rc"] != 0 or c["violation_lines"])
    finally:
        sh(f"git -C /repo worktree remove --force {wt}")
    json.dump(res, open(os.path.join(d, "result.json"), "w"), indent=1)
    print(f"{os.path.basename(os.path.dirname(d))}/{os.path.basename(d)} suite_ok={res.get('suite_ok')} alarms={res.get('alarms')} "
          f"{ {p: (res['checks'][p]['first'] or {}).get('class') for p in res.get('alarms', [])} }")


if __name__ == "__main__":
    main()
