#!/bin/bash
# Build the whole Coq development (full .vo build) and all model drivers from files on disk. Offline.
set -e
cd "$(dirname "$0")"
export PYTHONHASHSEED=0
mkdir -p build/ocaml evidence replays coq/theories/Gen
# regenerate Gen/*.v from /repo so that the development is complete before make
for g in tools/gen_*.py; do
  case "$g" in tools/gen_manifest.py) continue;; esac
  [ -f "$g" ] && PYTHONPATH=${FLEXVERIF_REPO:-/repo}/src /venv/bin/python "$g"
done
cd coq
( echo "-Q theories FlexVerif"; find theories -name '*.v' | LC_ALL=C sort ) > _CoqProject
coq_makefile -f _CoqProject -o Makefile
timeout 3000 make -j16
cd ..
for f in coq/*_model.ml; do
  [ -f "$f" ] || continue
  n=$(basename "$f" _model.ml)
  cat "$f" ocaml/driver_body.ml > build/ocaml/${n}_driver.ml.new
  if ! cmp -s build/ocaml/${n}_driver.ml.new build/ocaml/${n}_driver.ml || [ ! -x build/ocaml/${n}_driver ]; then
    mv build/ocaml/${n}_driver.ml.new build/ocaml/${n}_driver.ml
    ( cd build/ocaml && ocamlfind ocamlopt -w -a ${n}_driver.ml -o ${n}_driver )
  else
    rm build/ocaml/${n}_driver.ml.new
  fi
done
echo "setup ok"
